#!/venv/bin/python
"""Rewrites the generated tables of DESIGN.md (between <!-- BEGIN:x --> / <!-- END:x --> markers) from
known_findings*.json, seeded/*/meta.json and tools/ready.json."""
import glob, json, os, re
V = os.path.dirname(os.path.dirname(os.path.abspath(__file__)))

def findings():
    out = []
    for f in [os.path.join(V, "known_findings.json")] + sorted(glob.glob(os.path.join(V, "known_findings.d", "*.json"))):
        out += json.load(open(f)).get("findings", [])
    return sorted(out, key=lambda k: (k["property"], k["status"], k["mechanism"]))

def tab_findings():
    rows = ["| Property | Mechanism (classifier key) | Status | What fails |", "|---|---|---|---|"]
    for k in findings():
        what = re.sub(r"^fixed: property=\S+ \S+ ", "", k["what"]).replace("|", "/")
        st = "fixed in %s" % k.get("commit", "(see what)") if k["status"] == "fixed" else "open (known finding)"
        rows.append("| %s | `%s` | %s | %s |" % (k["property"], k["mechanism"], st, what[:300]))
    return "\n".join(rows)

def tab_seeded():
    rows = ["| Seeded change | Property | What it changes | Needs to manifest | Caught by (quick tier) |", "|---|---|---|---|---|"]
    for d in sorted(glob.glob(os.path.join(V, "seeded", "*"))):
        mp = os.path.join(d, "meta.json")
        if not os.path.exists(mp):
            continue
        m = json.load(open(mp))
        rows.append("| seeded/%s | %s | %s | %s | %s |" % (os.path.basename(d), m.get("property"), str(m.get("summary", ""))[:220].replace("|", "/").replace("\n", " "),
                    str(m.get("needs_to_manifest", ""))[:200].replace("|", "/").replace("\n", " "), str(m.get("caught_by", "not evaluated")).replace("|", "/")))
    return "\n".join(rows)

s = open(os.path.join(V, "DESIGN.md")).read()
for name, fn in (("findings", tab_findings), ("seeded", tab_seeded)):
    b, e = "<!-- BEGIN:%s -->" % name, "<!-- END:%s -->" % name
    if b in s and e in s:
        s = s[:s.index(b) + len(b)] + "\n" + fn() + "\n" + s[s.index(e):]
open(os.path.join(V, "DESIGN.md"), "w").write(s)
print("tables regenerated")
