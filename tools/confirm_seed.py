#!/venv/bin/python
"""Confirm a seeded change produced by a blind sub-agent and file it under /verif/seeded/<id>/.

usage: tools/confirm_seed.py <Cxx> [<name>]      reads /tmp/wt/<Cxx>-out/{patch.diff,demo.py,meta.json}
Confirms: patch applies to the current /repo tree; demo exits 0 on the clean tree and 1 on the patched tree;
the repository's 93 tests pass with the patch.  Copies are made under /tmp and removed.
"""
import json, os, shutil, subprocess, sys, tempfile

pid = sys.argv[1]
name = sys.argv[2] if len(sys.argv) > 2 else pid
src = os.path.join(os.environ.get("SEED_SRC", "/tmp/wt"), "%s-out" % pid)
verif = os.path.dirname(os.path.dirname(os.path.abspath(__file__)))
clean = tempfile.mkdtemp(prefix="seed-clean-")
pat = tempfile.mkdtemp(prefix="seed-pat-")
ok = True
ran = []
try:
    for d in (clean, pat):
        subprocess.run(["rsync", "-a", "--exclude", ".git", "/repo/", d + "/"], check=True)
    r = subprocess.run(["patch", "-p1", "-s", "-d", pat, "-i", os.path.join(src, "patch.diff")], capture_output=True, text=True)
    ran.append("patch -p1 on copy of /repo: rc=%d" % r.returncode)
    if r.returncode:
        print("patch failed", r.stdout, r.stderr); ok = False
    env = dict(os.environ, PYTHONDONTWRITEBYTECODE="1")
    def demo(d):
        try:
            r = subprocess.run(["/venv/bin/python", os.path.join(src, "demo.py")], cwd=d, capture_output=True, text=True, timeout=600, env=env)
            return r.returncode, (r.stdout + r.stderr)[-600:]
        except subprocess.TimeoutExpired:
            return -9, "timeout"
    rc0, o0 = demo(clean)
    rc1, o1 = demo(pat)
    ran.append("demo.py on clean tree: rc=%d" % rc0)
    ran.append("demo.py on patched tree: rc=%d" % rc1)
    print("clean rc", rc0, "| patched rc", rc1)
    if rc0 != 0 or rc1 != 1:
        ok = False
        print("clean out:", o0); print("patched out:", o1)
    r = subprocess.run(["/venv/bin/python", "-m", "pytest", "-q", "-p", "no:cacheprovider", "--timeout=900", "tests"], cwd=pat, capture_output=True, text=True, env=env)
    last = r.stdout.strip().splitlines()[-1] if r.stdout.strip() else "?"
    ran.append("pytest tests on patched tree: " + last)
    print("tests:", last)
    if "93 passed" not in last or "failed" in last:
        ok = False
    if ok:
        dst = os.path.join(os.environ.get("SEED_HOLD", "/root/seeded-hold"), name)
        os.makedirs(dst, exist_ok=True)
        shutil.copy(os.path.join(src, "patch.diff"), dst)
        shutil.copy(os.path.join(src, "demo.py"), dst)
        meta = json.load(open(os.path.join(src, "meta.json")))
        meta["property"] = pid
        meta["confirmed_by_coordinator"] = ran
        meta["caught_by"] = meta.get("caught_by", "not yet evaluated")
        json.dump(meta, open(os.path.join(dst, "meta.json"), "w"), indent=1)
        print("CONFIRMED ->", dst)
    else:
        print("NOT CONFIRMED")
finally:
    shutil.rmtree(clean, ignore_errors=True); shutil.rmtree(pat, ignore_errors=True)
sys.exit(0 if ok else 1)
