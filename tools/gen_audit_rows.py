#!/venv/bin/python
"""Regenerate the table between <!-- BEGIN:auditrows --> and <!-- END:auditrows --> in DESIGN.md from tools/audit_notes.md."""
import os, re
V = os.path.dirname(os.path.dirname(os.path.abspath(__file__)))
rows = sorted(set(l for l in open(os.path.join(V, "tools", "audit_notes.md")).read().splitlines() if l.startswith("|")),
              key=lambda l: l.split("|")[1].strip())
head = "| Check | Coverage added | Mutations that escaped before and are caught now | Left out (why) |\n|---|---|---|---|\n"
p = os.path.join(V, "DESIGN.md"); s = open(p).read()
s = re.sub(r"(<!-- BEGIN:auditrows -->\n).*?(<!-- END:auditrows -->)", lambda m: m.group(1) + head + "\n".join(rows) + "\n" + m.group(2), s, flags=re.S)
open(p, "w").write(s)
print(len(rows), "rows")
