#!/venv/bin/python
"""Run the quick (or thorough) command of every check in MANIFEST.json against /repo, in /verif (rewrites evidence/),
and print one line per property with exit code and wall time.  usage: tools/run_all.py [quick|thorough] [ids...]"""
import json, os, subprocess, sys, time
V = os.path.dirname(os.path.dirname(os.path.abspath(__file__)))
tier = sys.argv[1] if len(sys.argv) > 1 and sys.argv[1] in ("quick", "thorough") else "quick"
ids = [a for a in sys.argv[1:] if a.startswith("C")]
man = json.load(open(os.path.join(V, "MANIFEST.json")))
bad = []
for c in man["checks"]:
    if ids and c["property_id"] not in ids:
        continue
    t0 = time.time()
    r = subprocess.run(c["quick_cmd" if tier == "quick" else "thorough_cmd"], shell=True, cwd=V, capture_output=True, text=True)
    known = len([l for l in r.stdout.splitlines() if l.startswith("KNOWN-FINDING")])
    print("%s rc=%d wall=%.0fs known_finding_lines=%d" % (c["property_id"], r.returncode, time.time() - t0, known), flush=True)
    if r.returncode:
        bad.append(c["property_id"])
        print("   " + "\n   ".join(r.stdout.splitlines()[-6:])[:1500], flush=True)
print("ALL DONE bad=%s" % bad)
sys.exit(1 if bad else 0)
