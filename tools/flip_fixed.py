#!/venv/bin/python
"""usage: tools/flip_fixed.py <commit> <Cxx> <mechanism> [<mechanism> ...]   marks known-finding entries as fixed."""
import json, sys, glob, os
commit, prop, mechs = sys.argv[1], sys.argv[2], sys.argv[3:]
V = os.path.dirname(os.path.dirname(os.path.abspath(__file__)))
n = 0
for f in [os.path.join(V, "known_findings.json")] + sorted(glob.glob(os.path.join(V, "known_findings.d", "*.json"))):
    d = json.load(open(f)); ch = False
    for k in d["findings"]:
        if k["property"] == prop and k["mechanism"] in mechs and k.get("status") == "open":
            k["status"] = "fixed"; k["commit"] = commit
            k["what"] = "fixed: property=%s %s %s" % (prop, commit, k["what"])
            ch = True; n += 1
    if ch:
        json.dump(d, open(f, "w"), indent=1)
print("flipped", n)
