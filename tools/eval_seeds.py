#!/venv/bin/python
"""For every seeded/<id>/ (patch.diff + meta.json): apply the patch to a scratch copy of /repo, run the quick tier of the
property's check against it, and record the outcome in meta.json["caught_by"].  usage: tools/eval_seeds.py [ids...]"""
import glob, json, os, re, shutil, subprocess, sys, tempfile
V = os.path.dirname(os.path.dirname(os.path.abspath(__file__)))
ids = sys.argv[1:] or sorted(os.path.basename(d) for d in glob.glob(os.path.join(V, "seeded", "C*")))
for sid in ids:
    d = os.path.join(V, "seeded", sid)
    meta = json.load(open(os.path.join(d, "meta.json")))
    prop = meta["property"]
    dst = tempfile.mkdtemp(prefix="luna-seed-")
    try:
        subprocess.run(["rsync", "-a", "--exclude", ".git", "/repo/", dst + "/"], check=True)
        r = subprocess.run(["patch", "-p1", "-s", "-d", dst, "-i", os.path.join(d, "patch.diff")])
        if r.returncode:
            meta["caught_by"] = "patch does not apply to the current /repo"
        else:
            env = dict(os.environ, VERIF_REPO=dst, VERIF_EVIDENCE_DIR=tempfile.mkdtemp(prefix="seed-ev-"), VERIF_REPLAY_DIR=os.path.join(dst, ".replays"))
            r = subprocess.run(["/venv/bin/python", "rv/run.py", prop, "--tier", "quick"], cwd=V, env=env, capture_output=True, text=True)
            mech = ""
            for l in r.stdout.splitlines():
                if l.strip().startswith("mechanisms:"):
                    mech = l.strip()[len("mechanisms:"):].strip()
            nviol = len([l for l in r.stdout.splitlines() if l.startswith("VIOLATION")])
            if r.returncode == 1:
                meta["caught_by"] = "%s quick tier: exit 1 (VIOLATION) — mechanisms %s" % (prop, mech[:300])
            elif r.returncode == 0:
                meta["caught_by"] = "NOT caught by %s quick tier (exit 0)" % prop
            else:
                meta["caught_by"] = "%s quick tier inconclusive (exit %d)" % (prop, r.returncode)
            shutil.rmtree(env["VERIF_EVIDENCE_DIR"], ignore_errors=True)
        meta["evaluated_with"] = "tools/eval_seeds.py %s  (= rv/run.py %s --tier quick with VERIF_REPO=<scratch copy of /repo + patch.diff>)" % (sid, prop)
        json.dump(meta, open(os.path.join(d, "meta.json"), "w"), indent=1)
        print(sid, "->", meta["caught_by"][:160], flush=True)
    finally:
        shutil.rmtree(dst, ignore_errors=True)
