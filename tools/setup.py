#!/venv/bin/python
"""MANIFEST.setup_cmd: offline install of icontract beside the repo's interpreter (into git-ignored .deps) + reference self-tests."""
import os
import sys
sys.path.insert(0, os.path.dirname(os.path.dirname(os.path.abspath(__file__))))
from rv import core
from rv.ref import crc
ok = core.ensure_deps()
crc.selftest()
print("setup: deps", "ok" if ok else "unavailable (contract-based sub-checks will report inconclusive)")
