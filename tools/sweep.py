#!/venv/bin/python
"""Run every accepted check for several seeds / one tier and print one summary line each.
usage: tools/sweep.py --tier quick --seeds 1,2,3 [--props C01,C02] [--jobs 8]
Note: overwrites evidence/ of the tree it runs in (use from a `vp run` snapshot for exploratory sweeps)."""
import argparse, json, os, subprocess, sys, time
V = os.path.dirname(os.path.dirname(os.path.abspath(__file__)))
ap = argparse.ArgumentParser()
ap.add_argument("--tier", default="quick"); ap.add_argument("--seeds", default="1,2,3"); ap.add_argument("--props", default="")
ap.add_argument("--jobs", default="8"); ap.add_argument("--cases", default=""); ap.add_argument("--frac", type=float, default=0.0)
a = ap.parse_args()
props = a.props.split(",") if a.props else json.load(open(os.path.join(V, "tools", "ready.json")))
bad = 0
for seed in a.seeds.split(","):
    for p in props:
        t0 = time.time()
        env = dict(os.environ, VERIF_SEED=seed, VERIF_JOBS=a.jobs, VERIF_TIMEOUT=os.environ.get("VERIF_TIMEOUT", "20000"))
        cases = a.cases
        if a.frac:
            sys.path.insert(0, V); sys.path.insert(0, "/repo")
            import importlib
            cases = str(max(8, int(importlib.import_module("rv.checks." + p.lower()).CASES[a.tier] * a.frac)))
        cmd = ["/venv/bin/python", "rv/run.py", p, "--tier", a.tier] + (["--cases", cases] if cases else [])
        r = subprocess.run(cmd, cwd=V, env=env, capture_output=True, text=True)
        lines = r.stdout.splitlines()
        summ = [l for l in lines if l.startswith(p + " ")]
        extra = [l for l in lines if l.startswith("INCONCLUSIVE") or l.startswith("  first") or l.startswith("  mechanisms")]
        print("seed=%s %s rc=%d %.0fs %s" % (seed, p, r.returncode, time.time() - t0, summ[0] if summ else lines[-1:] ), flush=True)
        if r.returncode:
            bad += 1
            for l in extra[:3]:
                print("    " + l[:500], flush=True)
print("SWEEP DONE bad=%d" % bad)
