#!/venv/bin/python
"""Regenerate MANIFEST.json from the check modules present in rv/checks (keeps it valid at all times)."""
import importlib
import json
import os
import sys

VERIF = os.path.dirname(os.path.dirname(os.path.abspath(__file__)))
sys.path.insert(0, VERIF)
sys.path.insert(0, "/repo")

props = [json.loads(l) for l in open(os.path.join(VERIF, "properties.jsonl"))]
na_path = os.path.join(VERIF, "tools", "not_applicable.json")
na = json.load(open(na_path)) if os.path.exists(na_path) else {}
hooks_commits = json.load(open(os.path.join(VERIF, "tools", "hook_commits.json"))) if os.path.exists(os.path.join(VERIF, "tools", "hook_commits.json")) else []

ready = set(json.load(open(os.path.join(VERIF, "tools", "ready.json"))))   # properties whose check the coordinator has accepted
checks, not_applicable, served = [], [], []
for p in props:
    pid = p["id"]
    path = os.path.join(VERIF, "rv", "checks", pid.lower() + ".py")
    if os.path.exists(path) and pid not in na and pid in ready:
        mod = importlib.import_module("rv.checks." + pid.lower())
        served.append(pid)
        checks.append({
            "property_id": pid,
            "quick_cmd": "/venv/bin/python rv/run.py %s --tier quick" % pid,
            "thorough_cmd": "/venv/bin/python rv/run.py %s --tier thorough" % pid,
            "evidence_file": "/verif/evidence/%s.json" % pid,
            "replay_cmd_template": "/venv/bin/python rv/run.py %s --replay {path}" % pid,
            "engine": "rv",
            "level_claimed": {
                "category": "exploration",
                "text": getattr(mod, "LEVEL_TEXT", "Runtime monitoring: the real luna gateware is elaborated from /repo and executed cycle by cycle in Amaranth's simulator under seeded hostile stimulus; passive monitors turn every cycle into events and an independent reference model judges them. Held = no contradiction on the cases explored and every mandatory coverage bin / monitor counter non-zero; not a proof."),
                "design_ref": "DESIGN.md section 7, " + pid,
            },
            "level_note": getattr(mod, "LEVEL_NOTE", "Trusted: Amaranth pysim semantics, the reference model written from the specification, the stimulus generator's reach (see evidence bins). " + "; ".join(getattr(mod, "ASSUMPTIONS", []))),
            "technique": getattr(mod, "TECHNIQUE", "runtime monitoring: pysim execution of the real gateware + per-cycle monitors checked against an executable reference model"),
        })
    else:
        not_applicable.append({"property_id": pid, "reason": na.get(pid, "check not built yet in this framework (runtime monitor planned in DESIGN.md section 7); nothing is claimed for it")})

manifest = {
    "version": 1,
    "setup_cmd": "/venv/bin/python tools/setup.py",
    "hooks": {
        "guard": "LUNA_VERIF",
        "enable": "LUNA_VERIF=1 is exported to every worker; all instrumentation is harness-side (port sampling, spy endpoints/request handlers, constructor registry); nothing in /repo reads the variable",
        "baseline_off_cmd": "cd /repo && /venv/bin/python -m pytest -ra -q -p no:cacheprovider --timeout=900 --continue-on-collection-errors tests",
        "source_commits": hooks_commits,
        "add_only": True,
    },
    "engines": [{"name": "rv", "path": "rv/run.py", "serves_properties": served,
                 "kind_free_text": "runtime monitoring: Amaranth pysim executions of the real Elaboratables under seeded hostile workloads, per-cycle monitors, reference-model oracles, three-valued verdicts"}],
    "checks": checks,
    "not_applicable": not_applicable,
    "notes": "All checks: exit 0 held / exit 1 + VIOLATION line / exit 2 + INCONCLUSIVE line (monitor blind or mandatory bin empty). Known findings (open and fixed, keyed by mechanism) in known_findings.json and known_findings.d/Cxx.json; witnesses, root causes and diffs in findings/Cxx.md.",
}
with open(os.path.join(VERIF, "MANIFEST.json"), "w") as f:
    json.dump(manifest, f, indent=1)
print("checks:", len(checks), "not_applicable:", len(not_applicable))
