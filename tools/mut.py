#!/venv/bin/python
"""Apply a patch (or a python edit 'file::old::new') to a scratch copy of /repo and run checks against it.

usage: tools/mut.py [--tests] [--tier quick] [--keep] <patch.diff | edit-spec> <Cxx> [<Cyy> ...]
  edit-spec:  path/in/repo.py::OLD TEXT::NEW TEXT     (exactly one occurrence required)
The copy lives under /tmp/luna-mut-<pid>/ and is removed afterwards.
"""
import os, shutil, subprocess, sys, tempfile

args = sys.argv[1:]
tests = "--tests" in args
keep = "--keep" in args
tier = "quick"
if "--tier" in args:
    tier = args[args.index("--tier") + 1]
    del args[args.index("--tier"):args.index("--tier") + 2]
args = [a for a in args if a not in ("--tests", "--keep")]
spec, props = args[0], args[1:]
dst = tempfile.mkdtemp(prefix="luna-mut-")
subprocess.run(["rsync", "-a", "--exclude", ".git", "/repo/", dst + "/"], check=True)
try:
    if os.path.exists(spec):
        r = subprocess.run(["patch", "-p1", "-s", "-d", dst, "-i", os.path.abspath(spec)])
        if r.returncode:
            print("MUT: patch failed"); sys.exit(3)
    else:
        path, old, new = spec.split("::")
        p = os.path.join(dst, path)
        s = open(p).read()
        if s.count(old) != 1:
            print("MUT: edit-spec matches %d times" % s.count(old)); sys.exit(3)
        open(p, "w").write(s.replace(old, new))
    if tests:
        r = subprocess.run(["/venv/bin/python", "-m", "pytest", "-q", "-x", "-p", "no:cacheprovider", "--timeout=900", "tests"],
                           cwd=dst, capture_output=True, text=True)
        print("MUT: tests:", r.stdout.strip().splitlines()[-1] if r.stdout.strip() else r.stderr[-300:])
    env = dict(os.environ, VERIF_REPO=dst, VERIF_EVIDENCE_DIR=os.path.join(dst, ".evidence"), VERIF_REPLAY_DIR=os.path.join(dst, ".replays"))
    verif = os.path.dirname(os.path.dirname(os.path.abspath(__file__)))
    for prop in props:
        r = subprocess.run(["/venv/bin/python", "rv/run.py", prop, "--tier", tier], cwd=verif, env=env, capture_output=True, text=True)
        lines = r.stdout.strip().splitlines()
        viol = [l for l in lines if l.startswith("VIOLATION")]
        summ = [l for l in lines if l.startswith(prop) or l.startswith("  first") or l.startswith("  mechanisms") or l.startswith("INCONCLUSIVE")]
        print("MUT: %s rc=%d violations=%d" % (prop, r.returncode, len(viol)))
        for l in summ[:4]:
            print("   ", l[:400])
finally:
    if not keep:
        shutil.rmtree(dst, ignore_errors=True)
    else:
        print("MUT: kept", dst)
# NOTE: evidence files in /verif/evidence are overwritten by mutation runs; re-run the check on /repo afterwards.
