"""USB2 host / wire model at the UTMI boundary, for the cycle-synchronous Bench.

`UTMIHost` drives the receive half of a UTMIInterface (rx_active/rx_valid/rx_data) with packets built
by the reference codec (rv.ref.usb2), with configurable byte gaps / lead-in / trailing cycles / aborts,
drives `tx_ready` with a back-pressure profile, and captures every packet the device transmits
(byte accepted on tx_valid & tx_ready; packet ends when tx_valid falls).

All host methods are generators to be used with `yield from` inside a Bench driver.
"""
from rv.ref import usb2 as U


class TxPacket:
    __slots__ = ("data", "start", "end", "first_valid", "stalls", "unstable")

    def __init__(self, first_valid):
        self.data = bytearray()
        self.first_valid = first_valid   # cycle tx_valid first seen
        self.start = None                # cycle first byte accepted
        self.end = None                  # first cycle tx_valid seen low again
        self.stalls = 0
        self.unstable = 0                # tx_data changed while valid & ~ready

    def __repr__(self):
        return "TxPacket(%s @%s-%s)" % (bytes(self.data).hex(), self.start, self.end)


class UTMIHost:
    # timing presets: (min, max) host turn-around in cycles after a device packet, response window
    TIMING = {
        "fs12": {"turn": (1, 4), "window": 40, "gap": (2, 8)},      # USBDevice(bus=UTMIInterface()): 12 MHz FS tables
        "fs60": {"turn": (2, 30), "window": 120, "gap": (4, 30)},   # 60 MHz tables at full speed
        "hs60": {"turn": (1, 40), "window": 120, "gap": (2, 20)},   # 60 MHz tables at high speed
    }

    def __init__(self, bench, utmi, rng, *, timing="fs12", ready_profile="always", gap_profile="none"):
        self.b = bench
        self.u = utmi
        self.rng = rng
        self.timing = dict(self.TIMING[timing])
        self.ready_profile = ready_profile
        self.gap_profile = gap_profile
        self.tx_packets = []          # completed device packets
        self._cur = None
        self._last_data = None
        self._prev_valid = 0
        self._prev_ready = 0
        self.rx_busy = False          # host currently driving a packet
        self.tx_during_rx = 0         # device transmitted while host packet on the wire
        self.sent = []                # (cycle_end, bytes) of every packet the host put on the wire
        self.log = []                 # chronological log of ('H'|'D', cycle, bytes)
        self.last_rx_end = 0
        bench.watch(utmi.tx_valid, utmi.tx_data, utmi.tx_ready, utmi.rx_active, utmi.rx_valid, utmi.rx_data)
        bench.add_monitor(self._monitor)
        bench.add_driver(self._ready_driver(), main=False)

    # ------------------------------------------------------------------ capture
    def _monitor(self, b):
        u = self.u
        valid, ready, data = b.get(u.tx_valid), b.get(u.tx_ready), b.get(u.tx_data)
        if valid:
            if self._cur is None:
                self._cur = TxPacket(b.cycle)
            elif self._prev_valid and not self._prev_ready and data != self._last_data:
                self._cur.unstable += 1
            if self.rx_busy:
                self.tx_during_rx += 1
            if ready:
                if self._cur.start is None:
                    self._cur.start = b.cycle
                self._cur.data.append(data)
            else:
                self._cur.stalls += 1
        else:
            if self._cur is not None:
                self._cur.end = b.cycle
                self.tx_packets.append(self._cur)
                self.log.append(("D", b.cycle, bytes(self._cur.data)))
                self._cur = None
        self._prev_valid, self._prev_ready, self._last_data = valid, ready, data

    def _ready_driver(self):
        b, u, rng = self.b, self.u, self.rng
        prof = self.ready_profile
        if prof == "always":
            b.set(u.tx_ready, 1)
            while True:
                yield
        elif isinstance(prof, tuple) and prof[0] == "every":
            k = prof[1]
            i = 0
            while True:
                b.set(u.tx_ready, 1 if i % k == k - 1 else 0)
                i += 1
                yield
        elif isinstance(prof, tuple) and prof[0] == "random":
            p = prof[1]
            while True:
                b.set(u.tx_ready, 1 if rng.random() < p else 0)
                yield
        elif isinstance(prof, tuple) and prof[0] == "bursty":
            # long stalls followed by runs of ready
            while True:
                for _ in range(rng.randint(1, prof[1])):
                    b.set(u.tx_ready, 0)
                    yield
                for _ in range(rng.randint(1, prof[2])):
                    b.set(u.tx_ready, 1)
                    yield
        else:
            raise ValueError(prof)

    # ------------------------------------------------------------------ raw packets
    def idle(self, n):
        for _ in range(n):
            yield

    def _gaps(self, n, profile):
        rng = self.rng
        if profile is None:
            profile = self.gap_profile
        if profile == "none":
            return [0] * n
        if profile == "fixed4":
            return [4] * n
        if profile == "random":
            return [rng.choice([0, 0, 1, 2, 3, 6]) for _ in range(n)]
        if profile == "onestall":
            g = [0] * n
            if n:
                g[rng.randrange(n)] = rng.randint(5, 20)
            return g
        if isinstance(profile, tuple) and profile[0] == "fixed":
            return [profile[1]] * n
        raise ValueError(profile)

    def send_raw(self, data, *, gaps=None, lead=None, trail=0, abort_after=None, garbage_when_invalid=True):
        """Put one packet on the UTMI receive side.  gaps: profile name or explicit list (cycles of
        rx_valid=0 *before* each byte)."""
        b, u, rng = self.b, self.u, self.rng
        data = bytes(data)
        if isinstance(gaps, (list, tuple)) and not (isinstance(gaps, tuple) and gaps and isinstance(gaps[0], str)):
            gl = list(gaps) + [0] * (len(data) - len(gaps))
        else:
            gl = self._gaps(len(data), gaps)
        if lead is None:
            # UTMI: RXActive rises (SYNC detected) at least one cycle before the first RXValid byte
            lead = rng.choice([1, 1, 1, 2, 3]) if self.gap_profile != "none" else 1
        self.rx_busy = True
        b.set(u.rx_active, 1)
        b.set(u.rx_valid, 0)
        for _ in range(lead):
            yield
        n = len(data) if abort_after is None else min(abort_after, len(data))
        for i in range(n):
            for _ in range(gl[i]):
                b.set(u.rx_valid, 0)
                if garbage_when_invalid:
                    b.set(u.rx_data, rng.randrange(256))
                yield
            b.set(u.rx_valid, 1)
            b.set(u.rx_data, data[i])
            yield
        b.set(u.rx_valid, 0)
        for _ in range(trail):
            yield
        b.set(u.rx_active, 0)
        yield
        self.rx_busy = False
        self.last_rx_end = b.cycle
        self.sent.append((b.cycle, data[:n]))
        self.log.append(("H", b.cycle, data[:n]))

    def wait_response(self, window=None):
        """Wait until the device has completed a packet that started within `window` cycles.
        Returns the TxPacket or None."""
        b = self.b
        window = window or self.timing["window"]
        n0 = len(self.tx_packets)
        t0 = b.cycle
        while True:
            if len(self.tx_packets) > n0:
                return self.tx_packets[n0]
            if self._cur is None and b.cycle - t0 > window:
                return None
            if b.cycle - t0 > window + 4000:
                return None   # transmitter stuck with valid high forever; caller sees None
            yield

    def turnaround(self):
        lo, hi = self.timing["turn"]
        for _ in range(self.rng.randint(lo, hi)):
            yield

    def gap(self):
        lo, hi = self.timing["gap"]
        for _ in range(self.rng.randint(lo, hi)):
            yield

    # ------------------------------------------------------------------ packets
    def token(self, pid, addr, endp, **kw):
        yield from self.send_raw(U.token(pid, addr, endp), **kw)

    def sof(self, frame, **kw):
        yield from self.send_raw(U.sof(frame), **kw)

    def data(self, pid, payload, *, corrupt=False, **kw):
        pkt = bytearray(U.data(pid, payload))
        if corrupt:
            i = self.rng.randrange(1, len(pkt))
            pkt[i] ^= 1 << self.rng.randrange(8)
        yield from self.send_raw(bytes(pkt), **kw)

    def handshake(self, pid, **kw):
        yield from self.send_raw(U.handshake(pid), **kw)

    # ------------------------------------------------------------------ transactions
    def in_transaction(self, addr, endp, *, ack="ack", window=None):
        """IN token, wait for the device.  ack: 'ack' (send ACK after a good data packet),
        'none' (host stays silent).  Returns dict(kind=..., pid=..., payload=..., pkt=TxPacket|None)."""
        yield from self.token(U.IN, addr, endp)
        pkt = yield from self.wait_response(window)
        if pkt is None:
            return {"kind": "timeout", "pkt": None}
        info = U.classify(pkt.data)
        info["pkt"] = pkt
        if info["kind"] == "data" and ack == "ack":
            yield from self.turnaround()
            yield from self.handshake(U.ACK)
            info["acked"] = True
        else:
            info["acked"] = False
        return info

    def out_transaction(self, addr, endp, pid, payload, *, token_pid=None, corrupt=False, window=None, data_gap=None):
        """OUT (or SETUP/PING via token_pid) token + data packet; returns handshake dict or timeout."""
        yield from self.token(U.OUT if token_pid is None else token_pid, addr, endp)
        yield from (self.idle(data_gap) if data_gap is not None else self.idle(self.rng.randint(1, 4)))
        yield from self.data(pid, payload, corrupt=corrupt)
        pkt = yield from self.wait_response(window)
        if pkt is None:
            return {"kind": "timeout", "pkt": None}
        info = U.classify(pkt.data)
        info["pkt"] = pkt
        return info

    def setup_transaction(self, addr, setup8, *, endp=0, corrupt=False):
        r = yield from self.out_transaction(addr, endp, U.DATA0, setup8, token_pid=U.SETUP, corrupt=corrupt)
        return r

    def control_in(self, addr, setup8, *, max_packets=64, status=True, nak_limit=50):
        """Full device-to-host control transfer. Returns dict(setup=..., data=bytes|None, packets=[...], stalled=bool, status=...)."""
        out = {"packets": [], "data": b"", "stalled": False, "status": None, "setup": None}
        r = yield from self.setup_transaction(addr, setup8)
        out["setup"] = r
        if r.get("kind") != "handshake" or r.get("pid") != U.ACK:
            return out
        wlength = setup8[6] | (setup8[7] << 8)
        yield from self.gap()
        naks = 0
        while len(out["data"]) < wlength and len(out["packets"]) < max_packets:
            r = yield from self.in_transaction(addr, 0)
            yield from self.gap()
            if r["kind"] == "handshake" and r["pid"] == U.NAK and naks < nak_limit:
                naks += 1
                continue
            out["packets"].append(r)
            if r["kind"] != "data":
                if r["kind"] == "handshake" and r["pid"] == U.STALL:
                    out["stalled"] = True
                return out
            out["data"] += bytes(r["payload"])
            if len(r["payload"]) < getattr(self, "ep0_mps", 64):
                break
        if status:
            naks = 0
            while True:
                r = yield from self.out_transaction(addr, 0, U.DATA1, b"")
                yield from self.gap()
                if r.get("kind") == "handshake" and r.get("pid") == U.NAK and naks < nak_limit:
                    naks += 1
                    continue
                break
            out["status"] = r
        return out

    def control_out_nodata(self, addr, setup8, *, nak_limit=50):
        """Control transfer without data stage; status stage is an IN answered with a ZLP which the host ACKs."""
        out = {"setup": None, "status": None, "stalled": False}
        r = yield from self.setup_transaction(addr, setup8)
        out["setup"] = r
        if r.get("kind") != "handshake" or r.get("pid") != U.ACK:
            return out
        yield from self.gap()
        naks = 0
        while True:
            r = yield from self.in_transaction(addr, 0)
            yield from self.gap()
            if r["kind"] == "handshake" and r["pid"] == U.NAK and naks < nak_limit:
                naks += 1
                continue
            break
        out["status"] = r
        if r["kind"] == "handshake" and r["pid"] == U.STALL:
            out["stalled"] = True
        return out


def init_device_signals(b, dev, utmi):
    """Idle J on the line, device connected (what luna's own device tests do)."""
    b.set(utmi.line_state, 0b01)
    b.set(dev.connect, 1)
