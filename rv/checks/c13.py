"""C13 — bulk OUT endpoint ACKs exactly the data it delivers.

DUT: luna USBStreamOutEndpoint (with its USBOutStreamBoundaryDetector and TransactionalizedFIFO) inside a real
USBDevice(bus=UTMIInterface()), no other endpoint.  Three timing configurations:
  fs12  the 12 MHz full-speed tables (what USBDevice selects for a bare UTMI bus; handshake decided 3 cycles after
        the packet),
  fs60  the 60 MHz tables at full speed (what the ULPI path selects: always_fs=False, data_clock=60e6,
        full_speed_only held high; handshake decided 11 cycles after the packet),
  hs    the 60 MHz tables at high speed (handshake decided 2 cycles after the packet, i.e. *before* the FIFO
        commit).  High speed is reached through the device's real reset sequencer: SE0, device chirp, 3-5 host
        K/J chirp pairs.  To keep that affordable the harness shortens the duration of the *device chirp* (class
        constant USBResetSequencer._CYCLES_2_MILLISECONDS, 120 k cycles -> 600) while the design is elaborated and
        restores it; nothing in the endpoint / receiver / timers is touched.  7 % of the thorough-tier HS sessions
        run with the unmodified constant.
max_packet_size in {8,16,32,64}; buffer_size default (2*mps-1), mps, mps+1, 2*mps, 3*mps or random; endpoint
number 1..15.

Workload (one case = one session of 25-60 transactions, all randomness from the case rng): OUT transactions
organised in transfers (runs of full packets closed by a short packet or a ZLP; lengths 0,1,2,mps-1,mps,random),
CRC16-corrupted, truncated and bad-PID data packets followed by the legal retry, "lost ACK" retransmissions (same
payload, repeated toggle), fresh payloads with the wrong toggle, NAKed packets retried or abandoned, PING, foreign
traffic between transactions (OUT+DATA / PING / IN / SETUP+DATA to other endpoint numbers or other addresses, SOF,
stray handshakes, data packets without token), all rx byte-gap profiles, tx_ready back-pressure on the handshake.
The consumer side (`stream.ready`) runs phase profiles: always, random p, bursty, trickle (1 beat every k cycles),
blocked for whole transactions, and directed ones: blocked until the buffer holds data and released k cycles into
the reception of the next data packet / around its end / only after the handshake (overflow at the first byte, in
the middle, at the last byte, exact fit); with the consumer blocked the packet length is also chosen so that
the FIFO runs full exactly at the last byte (one byte too many) or fits exactly.

Added after the coverage audit: max_packet_size 512 in half of the high-speed sessions; 4 % of the new data packets are
over-long (mps+1 .. 2*mps bytes, good CRC; judged only for "ACK => whole payload delivered exactly once, otherwise
nothing" — the response itself, the flags and the next packet's `first` are unjudged); a repeated-toggle packet must be
ACKed (a NAK is `nak_for_repeated_toggle`, USB 2.0 8.6.3); bin `ack_with_less_than_mps_free` shows that short packets
are accepted and delivered into a buffer that could not take a max-size packet; the occupancy interval that tolerated
the (now fixed) fs60 overflow finding is gone, so PING / NAK answers are judged against the exact occupancy in every mode.
DATA2/MDATA are still not sent (the statement does not say how a bulk endpoint treats them).

Monitors: UTMI transmit capture of the host model (the handshakes really put on the wire) and a per-cycle
monitor of stream valid/ready/payload/first/last (a beat is valid & ready).

Oracle (independent toggle/queue model; nothing read from the DUT but its ports):
  * per data packet addressed to the endpoint: good CRC and expected toggle -> exactly one handshake, ACK or NAK;
    ACK => the payload is "accepted" and the toggle advances; NAK => nothing, and a NAK is only legal if a whole
    max-size packet did not fit when the packet started (model occupancy = accepted bytes not yet consumed);
    good CRC and repeated toggle -> ACK (or NAK), nothing accepted; corrupted / truncated -> no handshake at all;
    foreign traffic -> no answer.
  * PING -> exactly ACK or NAK; ACK only if mps bytes fit at the time of the response, NAK only if they did not
    fit when the token arrived.
  * at the end of the session (consumer drained) the beats of the stream are aligned with the host's packet list:
    the stream must be the concatenation of the accepted payloads, each exactly once, in order; a payload byte of a
    corrupted, NAKed or repeated packet showing up is a violation (the first payload byte of every distinct packet
    of a session is unique, which makes loss / duplication / leak distinguishable).
  * `last` iff the byte ends an accepted packet shorter than mps; `first` iff the byte starts a transfer (first
    accepted payload byte of the session, or first accepted byte after an accepted short packet or ZLP).

Mechanism names are chosen by a classifier that looks at the history in front of the failing packet (mode and
buffer fill for lost packets; ZLP / discarded packets since the last accepted one for `first`), so that the known
findings (known_findings.d/C13.json) do not swallow other failures of the same kind; at most 2 reports per
mechanism and case.  The `first` flag of the one packet that follows a lost-but-ACKed packet is unjudged.

Deviation from DESIGN section 7: the scaled device chirp (above).  CLEAR_FEATURE(ENDPOINT_HALT) is C14.

Not judged: handshake latency (only the host model's response window), over-long packets (> mps), DATA2/MDATA,
tokens with bad CRC5 (C01), host sequences that are illegal on a bus (new token before the response window ends).
"""
from rv.sim import Bench
from rv.usb2host import UTMIHost, init_device_signals
from rv.ref import usb2 as U

PROPERTY = "C13"
CASES = {"quick": 288, "thorough": 5200}
RULE = ("case = (timing fs12|fs60|hs, mps, buffer_size, endpoint number, rx gap profile, 25-60 host transactions: transfers of full "
        "packets closed by short/ZLP, corrupted+retry, lost-ACK retransmission, NAK+retry, PING, foreign traffic; consumer ready "
        "phases incl. directed release relative to the data packet); non-trivial = case saw an ACK, a NAK, a corrupted packet, a "
        "toggle repeat and a consumer stall; distinct = hash of configuration + every packet put on the wire + consumer phases")
REQUIRED_BINS = ["fs12", "fs60", "hs", "mps_8", "mps_16", "mps_64", "buffer_default", "buffer_eq_mps", "buffer_other",
                 "len_0", "len_1", "len_mps", "len_mps_minus_1", "ack_new", "nak_new", "ack_repeat", "corrupt_no_handshake",
                 "truncated", "retry_after_corrupt", "retry_after_nak", "lost_ack_retransmit", "ping_ack", "ping_nak",
                 "foreign_traffic", "foreign_mid_transfer", "zlp_ends_transfer", "multi_packet_transfer",
                 "overflow_possible", "exact_fit", "overflow_at_last_byte", "mps_512", "ack_with_less_than_mps_free", "overlong_packet", "overlong_acked", "release_mid_packet", "consumer_blocked", "stream_first", "stream_last",
                 "corrupt_full_packet_at_transfer_start", "corrupt_short_packet_mid_transfer", "nak_then_delivered_later"]
REQUIRED_EVENTS = ["out_transactions", "handshakes_seen", "stream_beats", "packets_aligned", "flags_judged", "pings", "cycles_monitored", "hs_sessions"]
ASSUMPTIONS = ["legal host: waits for the response window before the next packet, SETUP never sent to the endpoint, tokens have good CRC5",
               "a NAK is required to be justified only by 'a max-size packet did not fit when the data packet started'",
               "a repeated-toggle packet must be ACKed (USB 2.0 8.6.3); packets longer than max_packet_size are judged only for 'ACK => delivered "
               "exactly once, otherwise nothing' (response, flags and the next `first` are unjudged); DATA2/MDATA are not sent",
               "high-speed sessions use the real reset sequencer with the device-chirp duration constant scaled from 2 ms to 10 us "
               "(harness-side, restored after elaboration); a share of the thorough tier uses the unscaled constant",
               "occupancy used to justify NAK / PING answers is an interval while a packet ACKed under the conditions of known finding "
               "ack_after_overflow_discard_fs60 has not yet been seen on the stream"]



class Pkt:
    def __init__(self, **kw):
        self.resp = None
        self.accepted = False
        self.maybe_lost = False
        self.__dict__.update(kw)


def run_case(rng, tier, res):
    from luna.gateware.interface.utmi import UTMIInterface
    from luna.gateware.usb.usb2.device import USBDevice
    from luna.gateware.usb.usb2.endpoints.stream import USBStreamOutEndpoint

    mode = rng.choice(["fs12"] * 9 + ["fs60"] * 8 + ["hs"] * 4)
    real_chirp = (mode == "hs" and tier == "thorough" and rng.random() < 0.07)
    mps = rng.choice([8, 8, 16, 16, 32, 64, 64])
    if mode == "hs" and rng.random() < 0.5:
        mps = 512           # the high-speed bulk packet size (rx_cnt / space arithmetic at 9-10 bits)
    bsel = rng.choice(["default", "default", "eq_mps", "mps_plus_1", "two", "three", "random"])
    bufsize = {"default": None, "eq_mps": mps, "mps_plus_1": mps + 1, "two": 2 * mps, "three": 3 * mps,
               "random": rng.randint(mps, 4 * mps)}[bsel]
    depth = bufsize if bufsize is not None else 2 * mps - 1
    epnum = rng.randint(1, 15)
    gap_profile = rng.choice(["none", "none", "random", "fixed4", "onestall"])

    utmi = UTMIInterface()
    dev = USBDevice(bus=utmi)
    if mode != "fs12":
        dev.always_fs = False
        dev.data_clock = 60e6
    ep = USBStreamOutEndpoint(endpoint_number=epnum, max_packet_size=mps, buffer_size=bufsize)
    dev.add_endpoint(ep)
    # High speed is reached through the device's real reset sequencer (SE0, device chirp, host K/J chirps).  To keep
    # that affordable the harness shortens the *duration of the device chirp* (class constant of USBResetSequencer,
    # 2 ms = 120 k cycles -> 10 us) while the design is elaborated; nothing in the endpoint, receiver or timers is
    # touched.  A share of the thorough-tier HS sessions runs with the unmodified constant.
    from luna.gateware.usb.usb2.reset import USBResetSequencer
    saved_chirp = USBResetSequencer._CYCLES_2_MILLISECONDS
    chirp_cycles = saved_chirp
    if mode == "hs" and not real_chirp:
        chirp_cycles = USBResetSequencer._CYCLES_2_MILLISECONDS = 600
    try:
        b = Bench(dev, domain="usb", freq=60e6, max_cycles=90000 + (chirp_cycles if mode == "hs" else 0))
    finally:
        USBResetSequencer._CYCLES_2_MILLISECONDS = saved_chirp
    host = UTMIHost(b, utmi, rng, timing={"fs12": "fs12", "fs60": "fs60", "hs": "hs60"}[mode], ready_profile=rng.choice(["always", "always", ("random", 0.6), ("bursty", 6, 10)]),
                    gap_profile=gap_profile)
    st = ep.stream
    b.watch(st.valid, st.ready, st.payload, st.first, st.last, dev.speed)

    res.desc = {"mode": mode, "mps": mps, "buffer_size": bufsize, "ep": epnum, "gap_profile": gap_profile, "steps": []}
    res.sig(mode, mps, bufsize, epnum, gap_profile)
    res.bin(mode)
    if real_chirp:
        res.bin("hs_unscaled_chirp")
    res.bin("mps_%d" % mps)
    res.bin("buffer_default" if bufsize is None else "buffer_eq_mps" if bufsize == mps else "buffer_other")

    # ------------------------------------------------------------------ observation
    beats = []                  # (cycle, payload, first, last)
    m = {"consumed": 0, "accepted_bytes": 0}

    def monitor(b):
        res.event("cycles_monitored")
        if b.get(st.valid) and b.get(st.ready):
            beats.append((b.cycle, b.get(st.payload), b.get(st.first), b.get(st.last)))
            m["consumed"] += 1
            res.event("stream_beats")

    # ------------------------------------------------------------------ consumer
    cons = {"mode": "always", "p": 1.0, "release_at": None, "run": 0, "state": 1}

    def consumer():
        while True:
            md = cons["mode"]
            if md == "always":
                v = 1
            elif md == "blocked":
                v = 0
                if cons["release_at"] is not None and b.cycle >= cons["release_at"]:
                    cons["mode"] = cons.get("after", "always")
                    cons["release_at"] = None
                    v = 1
            elif md == "random":
                v = 1 if rng.random() < cons["p"] else 0
            elif md == "bursty":
                if cons["run"] <= 0:
                    cons["state"] ^= 1
                    cons["run"] = rng.randint(1, 40 if cons["state"] == 0 else 12)
                cons["run"] -= 1
                v = cons["state"]
            elif md == "trickle":      # one beat every k cycles
                cons["run"] -= 1
                v = 0
                if cons["run"] <= 0:
                    v = 1
                    cons["run"] = cons["k"]
            else:
                v = 1
            b.set(st.ready, v)
            yield

    def set_consumer(md, **kw):
        cons["mode"] = md
        cons["release_at"] = None
        cons.update(kw)
        if md == "blocked":
            res.bin("consumer_blocked")
        res.sig("cons", md, sorted(kw.items()))

    # ------------------------------------------------------------------ reference model + host bookkeeping
    model = {"toggle": 0, "at_xfer_start": True, "xfer_packets": 0}
    log = []                    # Pkt of every data packet sent under an OUT token for the endpoint
    uid_pool = list(range(256))
    rng.shuffle(uid_pool)
    state = {"pending": None, "pending_why": None, "last_acked": None, "plan": [], "nviol": 0, "since_accept_discard": []}

    per_mech = {}

    def viol(mech, detail):
        # at most 2 reports per mechanism and case, so that a frequent failure cannot crowd out a different one
        per_mech[mech] = per_mech.get(mech, 0) + 1
        if per_mech[mech] <= 2:
            res.violation(mech, detail)

    # Online bookkeeping of the buffer occupancy (only used to decide whether a NAK / PING answer is justified; the
    # verdict on the stream content is produced post-hoc by align()).  An accepted packet whose payload provably never
    # reaches the stream (the first byte of a *later* accepted packet shows up instead) is removed from the occupancy;
    # until that is known, a packet accepted in the situation of known finding ack_after_overflow_discard_fs60 is
    # counted as "maybe in the buffer" (occupancy is then an interval).
    q = []                      # [pkt, matched] accepted non-empty packets not yet fully seen on the stream
    mt = {"ptr": 0}

    def resolve():
        while q and mt["ptr"] < len(beats):
            pk, k = q[0]
            byte = beats[mt["ptr"]][1]
            if byte == pk.payload[k]:
                q[0][1] += 1
                mt["ptr"] += 1
                if q[0][1] == len(pk.payload):
                    q.pop(0)
            elif k == 0:
                j = next((i for i, (qq, _) in enumerate(q) if i > 0 and qq.payload[0] == byte), None)
                if j is None:
                    break
                for qq, _ in q[:j]:
                    m["accepted_bytes"] -= len(qq.payload)
                del q[:j]
            else:
                break

    def occupancy():
        """(low, high) bound of the number of bytes the endpoint holds for the consumer."""
        resolve()
        hi = m["accepted_bytes"] - m["consumed"]
        unc = sum(len(pk.payload) for pk, k in q if k == 0 and pk.maybe_lost)
        return max(0, hi - unc), hi

    def new_payload(n):
        if n == 0:
            return b""
        uid = uid_pool.pop() if uid_pool else rng.randrange(256)
        style = rng.random()
        if style < 0.5:
            body = bytes(rng.randrange(256) for _ in range(n - 1))
        elif style < 0.7:
            body = bytes((uid + 3 * j) & 0xFF for j in range(1, n))
        elif style < 0.8:
            body = bytes([rng.choice([0x00, 0xFF])]) * (n - 1)
        elif style < 0.9:
            # payload that looks like packets: token / data PIDs, handshakes
            pool = [0xE1, 0x69, 0x2D, 0xC3, 0x4B, 0xD2, 0x5A, 0xB4, 0xA5]
            body = bytes(rng.choice(pool) for _ in range(n - 1))
        else:
            body = bytes([uid]) * (n - 1)
        return bytes([uid]) + body

    def step_note(*a):
        if len(res.desc["steps"]) < 14:
            res.desc["steps"].append(a)
        res.sig(a)

    def send_out(payload, toggle, *, fault=None, directed=None, overlong=False):
        """One OUT transaction to the DUT endpoint.  Returns the Pkt."""
        pid = U.DATA1 if toggle else U.DATA0
        raw = bytearray(U.data(pid, payload))
        cat = "good" if toggle == model["toggle"] else "repeat"
        abort_after = None
        if fault == "crc":
            i = rng.randrange(1, len(raw))
            raw[i] ^= 1 << rng.randrange(8)
            cat = "corrupt"
        elif fault == "crc_swap" and len(raw) >= 3:
            raw[-1], raw[-2] = raw[-2], (raw[-1] ^ 0x01)
            cat = "corrupt"
        elif fault == "truncate":
            # the wire dies in the middle: the rest of the packet never arrives (CRC of the prefix is wrong unless unlucky)
            cut = rng.randint(1, len(raw) - 1)
            pre = bytes(raw[:cut])
            if cut >= 3 and U.classify(pre)["kind"] == "data":
                raw[cut - 1] ^= 0x10
                pre = bytes(raw[:cut])
            raw = bytearray(pre)
            cat = "corrupt"
            res.bin("truncated")
        elif fault == "badpid":
            raw[0] ^= 1 << rng.randrange(4, 8)
            cat = "corrupt"
        if cat == "corrupt" and U.classify(bytes(raw))["kind"] == "data":
            raw[-1] ^= 0x80
        # number of payload bytes the receiver will see before it knows the packet is bad
        eff = 0 if fault == "badpid" else max(0, len(raw) - 3)
        p = Pkt(uid=payload[0] if payload else None, payload=bytes(payload), toggle=toggle, cat=cat, resp=None, accepted=False,
                hist=list(state["since_accept_discard"]))
        p.after_loss = eff
        p.overlong = overlong
        step_note("out", len(payload), toggle, cat, fault)
        yield from host.token(U.OUT, 0, epnum)
        yield from host.idle(rng.randint(1, 4) if mode != "fs60" else rng.randint(1, 12))
        occ_lo, p.occ_start = occupancy()
        p.free_start = depth - p.occ_start            # lower bound of the free space
        p.could_overflow = p.occ_start + len(payload) > depth
        p.maybe_lost = False     # (was: interval occupancy while finding ack_after_overflow_discard_fs60 was open; fixed in the repository)
        if p.could_overflow and cat == "good":
            res.bin("overflow_possible")
        if p.occ_start + len(payload) == depth and occ_lo == p.occ_start and cat == "good" and payload:
            res.bin("exact_fit")
        p.t_start = b.cycle
        if directed is not None:
            # release the blocked consumer relative to this data packet
            kind, k = directed
            per_byte = {"none": 1, "fixed4": 5, "random": 3, "onestall": 1}[gap_profile]
            if kind == "mid":
                cons["release_at"] = b.cycle + 2 + k * per_byte
                res.bin("release_mid_packet")
            elif kind == "end":
                cons["release_at"] = b.cycle + 2 + (len(raw)) * per_byte + k
                res.bin("release_mid_packet")
            res.sig("directed", kind, k)
        yield from host.send_raw(bytes(raw), trail=rng.choice([0, 0, 0, 1, 2]))
        p.t_end = b.cycle
        res.sig(bytes(raw))
        res.event("out_transactions")
        pkt = yield from host.wait_response()
        if pkt is not None:
            res.event("handshakes_seen")
            info = U.classify(pkt.data)
            p.resp = {U.ACK: "ACK", U.NAK: "NAK"}.get(info.get("pid"), "other:" + bytes(pkt.data).hex()) if info["kind"] == "handshake" else "other:" + bytes(pkt.data).hex()
        else:
            p.resp = None
        if directed is not None and directed[0] == "after":
            cons["release_at"] = b.cycle + directed[1]
        judge_response(p)
        log.append(p)
        return p

    def judge_response(p):
        n = len(p.payload)
        ctx = "mode=%s mps=%d depth=%d len=%d toggle=%d expected_toggle=%d occupancy_at_start=%d resp=%s" % (
            mode, mps, depth, n, p.toggle, model["toggle"], p.occ_start, p.resp)
        res.bin("len_0" if n == 0 else "len_1" if n == 1 else "len_mps" if n == mps else "len_mps_minus_1" if n == mps - 1 else "len_other")
        if p.cat == "corrupt":
            if p.resp is None:
                res.bin("corrupt_no_handshake")
            else:
                viol("ack_for_corrupt_packet" if p.resp == "ACK" else "handshake_for_corrupt_packet", ctx)
            eff = p.after_loss
            if eff and p.toggle == model["toggle"]:
                state["since_accept_discard"].append(("corrupt_overflow" if p.occ_start + eff > depth else "corrupt", eff))
                if eff == mps and model["at_xfer_start"]:
                    res.bin("corrupt_full_packet_at_transfer_start")
                if eff < mps and not model["at_xfer_start"]:
                    res.bin("corrupt_short_packet_mid_transfer")
            return
        if p.resp is None and p.overlong:
            res.unjudged += 1          # babble: whether a device answers at all is not decided by the statement
            state["since_accept_discard"].append(("silent", n))
            return
        if p.resp is None:
            viol("no_handshake_for_good_packet" if p.cat == "good" else "no_handshake_for_repeated_toggle", ctx)
            if n and p.cat == "good":
                state["since_accept_discard"].append(("silent", n))
            return
        if p.resp not in ("ACK", "NAK"):
            viol("unexpected_response", ctx)
            return
        if p.cat == "repeat":
            res.bin("ack_repeat" if p.resp == "ACK" else "nak_repeat")
            if p.resp == "NAK":
                # [USB 2.0 8.6.3] a receiver that sees a repeated toggle has already accepted that data: it discards the
                # packet and ACKs (ignoring it needs no buffer space); a NAK would make the host retransmit it forever
                viol("nak_for_repeated_toggle", ctx)
            return
        # good CRC, expected toggle
        if p.resp == "ACK":
            res.bin("ack_new")
            if n and p.free_start < mps:
                res.bin("ack_with_less_than_mps_free")
            if p.overlong:
                res.bin("overlong_acked")
            p.accepted = True
            p.xfer_start = model["at_xfer_start"]
            p.expect_last = n < mps
            m["accepted_bytes"] += n
            if n:
                q.append([p, 0])
            model["toggle"] ^= 1
            if n < mps:
                if n == 0 and not model["at_xfer_start"]:
                    res.bin("zlp_ends_transfer")
                if model["xfer_packets"] >= 1:
                    res.bin("multi_packet_transfer")
                model["at_xfer_start"] = True
                model["xfer_packets"] = 0
            else:
                model["at_xfer_start"] = False
                model["xfer_packets"] += 1
            if any(k == "nak" for k, _ in state["since_accept_discard"]):
                res.bin("nak_then_delivered_later")
            if n:
                state["since_accept_discard"] = []
            state["last_acked"] = p
        else:
            res.bin("nak_new")
            if p.free_start >= max(mps, n):
                viol("nak_although_packet_fits", ctx + " free_at_start=%d" % p.free_start)
            if n:
                state["since_accept_discard"].append(("nak", n))

    def send_ping():
        step_note("ping")
        free0 = depth - occupancy()[1]        # lower bound of the free space when the token arrives
        yield from host.token(U.PING, 0, epnum)
        res.event("pings")
        pkt = yield from host.wait_response()
        free1 = depth - occupancy()[0]        # upper bound of the free space at the response
        resp = None
        if pkt is not None:
            info = U.classify(pkt.data)
            resp = {U.ACK: "ACK", U.NAK: "NAK"}.get(info.get("pid"), "other") if info["kind"] == "handshake" else "other"
        ctx = "mode=%s mps=%d depth=%d free_at_token=%d free_at_response=%d resp=%s" % (mode, mps, depth, free0, free1, resp)
        if resp == "ACK":
            res.bin("ping_ack")
            if free1 < mps:
                viol("ping_ack_without_space", ctx)
        elif resp == "NAK":
            res.bin("ping_nak")
            if free0 >= mps:
                viol("ping_nak_with_space", ctx)
        elif resp is None:
            viol("ping_no_handshake", ctx)
        else:
            viol("ping_unexpected_response", ctx + " " + bytes(pkt.data).hex())

    def foreign():
        res.bin("foreign_traffic")
        if not model["at_xfer_start"]:
            res.bin("foreign_mid_transfer")
        other_ep = rng.choice([e for e in range(16) if e != epnum])
        k = rng.choice(["out_other_ep", "out_other_ep", "out_other_addr", "in_same_ep", "ping_other", "sof", "setup_ep0", "handshake", "data_only"])
        step_note("foreign", k)
        n0 = len(host.tx_packets)
        if k == "out_other_ep":
            yield from host.token(U.OUT, 0, other_ep)
            yield from host.idle(rng.randint(1, 4))
            pl = bytes(rng.randrange(256) for _ in range(rng.choice([0, 1, mps - 1, mps, rng.randint(0, mps)])))
            yield from host.data(rng.choice([U.DATA0, U.DATA1]), pl, corrupt=rng.random() < 0.2)
        elif k == "out_other_addr":
            yield from host.token(U.OUT, rng.randint(1, 127), epnum)
            yield from host.idle(rng.randint(1, 4))
            pl = bytes(rng.randrange(256) for _ in range(rng.choice([0, 1, mps, rng.randint(0, mps)])))
            yield from host.data(U.DATA1 if model["toggle"] else U.DATA0, pl)
        elif k == "in_same_ep":
            yield from host.token(U.IN, 0, rng.choice([epnum, other_ep]))
        elif k == "ping_other":
            yield from host.token(U.PING, rng.choice([0, rng.randint(1, 127)]), other_ep)
        elif k == "sof":
            yield from host.sof(rng.randrange(2048))
        elif k == "setup_ep0":
            yield from host.token(U.SETUP, 0, 0)
            yield from host.idle(rng.randint(1, 4))
            yield from host.data(U.DATA0, bytes(rng.randrange(256) for _ in range(8)))
        elif k == "handshake":
            yield from host.handshake(rng.choice([U.ACK, U.NAK]))
        else:
            # a data packet without any token in front of it (after the previous transaction has completed with a
            # token for the DUT this would be illegal; the last token is therefore first replaced by a foreign one)
            yield from host.token(U.IN, 0, other_ep)
            yield from host.wait_response(host.timing["window"] // 2)
            yield from host.gap()
            pl = bytes(rng.randrange(256) for _ in range(rng.randint(0, mps)))
            yield from host.data(U.DATA1 if model["toggle"] else U.DATA0, pl)
        yield from host.wait_response(host.timing["window"] // 2)
        if len(host.tx_packets) > n0:
            viol("response_to_foreign_traffic", "%s answered with %s" % (k, bytes(host.tx_packets[n0].data).hex()))

    def plan_transfer():
        """Returns list of packet lengths of the next transfer."""
        r = rng.random()
        if r < 0.25:
            nfull = 0
        elif r < 0.6:
            nfull = 1
        elif r < 0.85:
            nfull = 2
        else:
            nfull = rng.randint(3, 5)
        tail = rng.choice([0, 0, 1, 1, 2, mps - 1, mps - 1, rng.randint(0, mps - 1), rng.randint(1, mps - 1)])
        return [mps] * nfull + [tail]

    def driver():
        init_device_signals(b, dev, utmi)
        if mode == "fs60":
            b.set(dev.full_speed_only, 1)
        yield from host.idle(6)
        if mode == "hs":
            # bus reset + high-speed detection handshake [USB 2.0 7.1.7.5]
            b.set(utmi.line_state, 0b00)                       # SE0
            yield from host.idle(320 + chirp_cycles + 40)      # > 5 us reset detection, device chirp K
            for _ in range(3 + rng.randint(0, 2)):
                b.set(utmi.line_state, 0b10)                   # host chirp K
                yield from host.idle(rng.randint(160, 220))
                b.set(utmi.line_state, 0b01)                   # host chirp J
                yield from host.idle(rng.randint(160, 220))
            b.set(utmi.line_state, 0b00)                       # high-speed idle (squelch)
            yield from host.idle(20)
            if b.get(dev.speed) != 0:
                raise RuntimeError("harness: device did not reach high speed (speed=%d)" % b.get(dev.speed))
            res.event("hs_sessions")
        t_session = b.cycle
        ntrans = rng.randint(25, 60)
        budget = 7000 if tier == "quick" else 9000
        set_consumer(rng.choice(["always", "random", "bursty", "blocked"]), p=rng.choice([0.1, 0.3, 0.7]))
        plan = []
        i = 0
        while i < ntrans and b.cycle - t_session < budget:
            i += 1
            # consumer phase changes
            r = rng.random() * 2.0          # a phase survives a transaction with probability 1/2
            directed = None
            occ = occupancy()[1]
            if r < 0.15:
                set_consumer("always")
            elif r < 0.30:
                set_consumer("random", p=rng.choice([0.05, 0.2, 0.5, 0.9]))
            elif r < 0.40:
                set_consumer("bursty")
            elif r < 0.55:
                set_consumer("trickle", k=rng.choice([2, 3, 5, 9, 17, 33]), run=0)
            elif r < 0.78:
                set_consumer("blocked")
            elif r < 1.0 and occ > 0:
                # directed: keep blocked now, release relative to the next data packet
                set_consumer("blocked", after=rng.choice(["always", "always", "trickle", "random"]), k=rng.choice([2, 3]), run=0, p=0.5)
                kind = rng.choice(["mid", "mid", "end", "after"])
                directed = (kind, rng.randint(0, mps + 2) if kind == "mid" else rng.randint(-2, 8) if kind == "end" else rng.randint(0, 30))
            # host action
            a = rng.random()
            pend = state["pending"]
            if pend is not None and a < 0.75:
                # retry of a packet that was corrupted / NAKed (same payload, same toggle)
                res.bin("retry_after_corrupt" if state["pending_why"] == "corrupt" else "retry_after_nak")
                payload = pend
                state["pending"] = None
                fault = rng.choice([None, None, None, None, "crc"])
                p = yield from send_out(payload, model["toggle"], fault=fault, directed=directed)
                if p.cat == "corrupt":
                    state["pending"], state["pending_why"] = payload, "corrupt"
                elif p.resp == "NAK":
                    state["pending"], state["pending_why"] = payload, "nak"
            elif a < 0.08 and state["last_acked"] is not None:
                # host lost the ACK: retransmits the packet it believes undelivered, with the old toggle
                res.bin("lost_ack_retransmit")
                la = state["last_acked"]
                yield from send_out(la.payload, la.toggle, directed=directed)
            elif a < 0.11:
                # wrong toggle with a fresh payload (host bug / missed packet): must not be delivered either
                yield from send_out(new_payload(rng.choice([0, 1, mps, rng.randint(0, mps)])), model["toggle"] ^ 1, directed=directed)
            elif a < 0.19:
                yield from send_ping()
            elif a < 0.31:
                yield from foreign()
            elif a < 0.35:
                yield from host.idle(rng.randint(5, 120))
            else:
                if state["pending"] is not None:
                    state["pending"] = None        # host abandons the packet and moves on with new data
                if not plan:
                    plan = plan_transfer()
                n = plan.pop(0)
                if cons["mode"] == "blocked" and directed is None and rng.random() < 0.4:
                    # directed length: with the consumer blocked, the FIFO runs full exactly at the last byte of the
                    # packet (one byte too many), or the packet fits exactly
                    occ_now = occupancy()[1]
                    over = depth + 1 - occ_now
                    tgt = rng.choice([over, over, over - 1])
                    if 1 <= tgt <= mps:
                        n = tgt
                        if n < mps:
                            plan = []
                        res.bin("overflow_at_last_byte" if tgt == over else "directed_exact_fit")
                overlong = rng.random() < 0.04
                if overlong:
                    # babble: a good-CRC packet longer than max_packet_size (rx_cnt wraps).  Judged only as far as the statement
                    # goes: ACK => the whole payload is delivered once, anything else => nothing of it; flags unjudged.
                    plan.insert(0, n)
                    n = mps + rng.choice([1, 1, 2, mps, rng.randint(1, mps)])
                    res.bin("overlong_packet")
                payload = new_payload(n)
                f = rng.random()
                fault = None
                if overlong:
                    pass
                elif f < 0.14:
                    fault = "crc"
                elif f < 0.17:
                    fault = "crc_swap"
                elif f < 0.21:
                    fault = "truncate"
                elif f < 0.23:
                    fault = "badpid"
                p = yield from send_out(payload, model["toggle"], fault=fault, directed=directed, overlong=overlong)
                if p.cat == "corrupt":
                    state["pending"], state["pending_why"] = payload, "corrupt"
                elif p.resp == "NAK" and not overlong:
                    state["pending"], state["pending_why"] = payload, "nak"
                if state["pending"] is not None and rng.random() < 0.2:
                    state["pending"] = None        # abandoned: the transfer plan simply continues with new data
            if mode != "fs60":
                yield from host.idle(rng.randint(2, 10))
            else:
                yield from host.gap()
        # drain
        set_consumer("always")
        yield from host.idle(depth + 40)

    b.add_monitor(monitor)
    b.add_driver(consumer(), main=False)
    b.add_driver(driver())
    b.run()
    res.cycles = b.cycle
    if b.hit_max_cycles:
        res.violation("harness_max_cycles", "case did not finish in %d cycles" % b.max_cycles)
    if b.get(st.valid):
        viol("stream_not_drained", "stream.valid still high after %d idle cycles with ready=1" % (depth + 40))
    align(res, log, beats, mode, mps, depth, viol)
    bins = res.bins
    res.nontrivial = all(bins.get(k) for k in ("ack_new", "nak_new", "corrupt_no_handshake", "ack_repeat", "consumer_blocked"))


def align(res, log, beats, mode, mps, depth, viol):
    """Post-hoc alignment of the stream beats with the host's packet list."""
    pos = 0
    nb = len(beats)
    after_loss = False
    prev_acc = []          # accepted packets so far (for classification)
    for idx, p in enumerate(log):
        n = len(p.payload)
        if p.accepted:
            ctx = "packet#%d len=%d mode=%s mps=%d depth=%d occupancy_at_start=%d stream_pos=%d" % (idx, n, mode, mps, depth, p.occ_start, pos)
            if n == 0:
                res.event("packets_aligned")
                prev_acc.append(p)
                continue
            got = bytes(x[1] for x in beats[pos:pos + n])
            if got == p.payload:
                res.event("packets_aligned")
                if p.overlong:
                    pos += n
                    after_loss = True          # transfer state after babble is not decided: next `first` unjudged
                    prev_acc.append(p)
                    res.unjudged += 1
                    continue
                # flags
                for j in range(n):
                    cyc, _, fi, la = beats[pos + j]
                    exp_first = (j == 0 and p.xfer_start)
                    exp_last = (j == n - 1 and p.expect_last)
                    res.event("flags_judged")
                    if fi:
                        res.bin("stream_first")
                    if la:
                        res.bin("stream_last")
                    if bool(la) != exp_last:
                        mech = "last_missing_on_short_packet" if exp_last else ("last_on_full_packet" if j == n - 1 else "last_mid_packet")
                        viol(mech, "%s byte#%d last=%d beat@%d" % (ctx, j, la, cyc))
                    if bool(fi) != exp_first:
                        if after_loss and j == 0:
                            res.unjudged += 1
                            continue
                        hist = p.hist
                        prev = prev_acc[-1] if prev_acc else None
                        if exp_first:
                            mech = "first_missing"
                            # what preceded?
                            zl = prev is not None and len(prev.payload) == 0
                            if any(k in ("corrupt", "corrupt_overflow") and ln == mps for k, ln in hist):
                                mech = "first_missing_after_discarded_full_packet"
                            elif zl and _full_before_zlps(prev_acc, mps):
                                mech = "first_missing_after_zlp"
                        else:
                            mech = "first_mid_packet" if j else "first_mid_transfer"
                            if j == 0 and any((k == "corrupt" and 0 < ln < mps) or k in ("nak", "silent", "corrupt_overflow") for k, ln in hist):
                                mech = "first_spurious_after_discarded_packet"
                        viol(mech, "%s byte#%d first=%d expected=%d beat@%d discarded_since_last_accept=%s" % (ctx, j, fi, exp_first, cyc, hist))
                pos += n
                after_loss = False
                prev_acc.append(p)
                continue
            # mismatch: how much of it is there?
            k = 0
            while k < n and pos + k < nb and beats[pos + k][1] == p.payload[k]:
                k += 1
            nxt_ok = pos >= nb or any(q.accepted and q.payload and q.payload[0] == beats[pos][1] for q in log[idx + 1:])
            if k == 0 and not nxt_ok:
                viol("unexpected_stream_data", "%s stream carries %s where packet payload %s... (or a later accepted packet) should start" % (
                    ctx, bytes(x[1] for x in beats[pos:pos + 8]).hex(), p.payload[:8].hex()))
                return
            if k == 0:
                if mode == "fs60" and p.could_overflow:
                    mech = "ack_after_overflow_discard_fs60"
                elif p.could_overflow:
                    mech = "acked_packet_lost_on_overflow"
                else:
                    mech = "acked_packet_lost"
                viol(mech, "%s payload=%s... never appeared on the stream (next beats: %s)" % (
                    ctx, p.payload[:8].hex(), bytes(x[1] for x in beats[pos:pos + 8]).hex()))
                after_loss = True
                prev_acc.append(p)
                continue
            viol("acked_packet_partially_delivered", "%s only %d of %d bytes match (got %s, expected %s)" % (
                ctx, k, n, got[:k + 4].hex(), p.payload[:k + 4].hex()))
            return
        else:
            if n == 0:
                continue
            # nothing of this packet may appear.  Its first byte is unique unless it is a retransmission of an accepted packet.
            if pos < nb and beats[pos][1] == p.payload[0]:
                nxt = next((q for q in log[idx + 1:] if q.accepted and q.payload), None)
                if nxt is not None and nxt.payload[0] == p.payload[0]:
                    continue           # same payload accepted later (retry): the bytes belong to that packet
                k = 0
                while k < n and pos + k < nb and beats[pos + k][1] == p.payload[k]:
                    k += 1
                mech = {"corrupt": "corrupt_packet_delivered", "repeat": "repeated_packet_delivered"}.get(p.cat, "nak_packet_delivered")
                if p.cat == "good" and p.resp is None:
                    mech = "unacked_packet_delivered"
                viol(mech, "packet#%d len=%d cat=%s resp=%s: %d of its bytes appear on the stream at position %d" % (idx, n, p.cat, p.resp, k, pos))
                pos += k
                after_loss = True
    if pos < nb:
        viol("spurious_stream_data", "%d extra beats at the end of the stream, first: %s @%d" % (nb - pos, bytes(x[1] for x in beats[pos:pos + 8]).hex(), beats[pos][0]))


def _full_before_zlps(prev_acc, mps):
    """True if the accepted packets end with <full packet> <one or more ZLPs>."""
    i = len(prev_acc) - 1
    while i >= 0 and len(prev_acc[i].payload) == 0:
        i -= 1
    return i >= 0 and len(prev_acc[i].payload) == mps
