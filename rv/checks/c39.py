"""C39 - header transmission respects credits, numbers consecutively, retires on matching LGOOD, retransmits after LBAD.

DUT: luna.gateware.usb.usb3.link.transmitter.PacketTransmitter, stand-alone (its RawPacketTransmitter and
LinkCommandDetector are the real sub-blocks), inside a two-line wrapper that defines the `ss` clock domain so that the
harness can pulse the domain's synchronous reset.  `buffer_count` is 4 (half of the cases), 2 or 8 per case (powers of two: the
pointers of the design wrap at 2**n; 3, 5, ... are not generated); credits, LCRD letters (modulo the count) and the number of
unacknowledged headers are judged against the configured count.  Driven at `sink` (the received word stream carrying the partner's link
commands), `queue` (protocol-layer HeaderQueue), `data_sink` (payload for data headers), `source.ready`, `enable` and
`lrty_pending` (in the real link layer the header receiver raises it the cycle after `retry_required` and drops it once it
has sent LRTY; the harness does the same with a random LRTY latency).

Building the simulator costs seconds (deep CRC expressions), a simulated cycle costs 0.3 ms, so one case = one
elaboration and 16 independent *sessions*: hard reset of every register, new profile, new reference model, 1-3 enable
epochs of 20-50 headers each (about 20 k cycles and 550 headers per case).

Workload of a session:
  * protocol layer: uniquely tagged headers (index mixed into DW0/1/2), 0/25/50 % data headers with 1-6 word payloads or
    ZLP, bursts (valid again in the cycle after an acceptance) and gaps, junk in the link-layer fields of the queued
    header (sequence number, CRCs; for half of the headers also delayed / deferred / hub depth / reserved: a retransmission
    needs DL whatever the queued `delayed` bit says); in 30 % of the sessions the offers are aimed at the cycle in which an LBAD / LGOOD is decoded;
  * reactive link partner: after enable it advertises LGOOD_n (n random, often 7) and LCRD A..D (all at once, or only a
    few at first); it "receives" every header the DUT puts on the wire, answers LGOOD_seq and later LCRD_x with delays
    drawn from the session profile (fast / slow acknowledgement, credit starvation), or declares the header corrupted and
    answers LBAD after 0-30 cycles (so that the LBAD lands at every offset of the following packet, including the cycle
    it ends) and then ignores everything until the LRTY went out; retransmitted headers are corrupted again with a
    separate (high) probability, so second and third LBADs arrive during a retransmission run;
  * hostile histories: spurious LBAD, duplicate LGOOD (mismatch, link continues), LGOOD with a wrong number, lost LGOOD
    (every later one mismatches), duplicated / skipped LCRD letter, link commands with a bad CRC-5 / unequal replicas / a
    K symbol inside (must be ignored, the intact command follows), unrelated commands (LRTY, LGO_Ux, LAU, LXU, LPMA, LUP,
    LDN), noise words, packet framing and SLC framing with `valid` low on the sink, invalid cycles between the SLC framing
    and the command word;
  * `source.ready` profiles (always / random / bursty); LRTY latency 2-60 cycles;
  * recovery emulation: `enable` is dropped when everything is quiet, after a sequence the partner cannot continue from
    (lost LGOOD, sequence mismatch), or (25 % of the epochs) at an arbitrary moment; it is raised again after the wire
    has drained: new advertisement, fresh credits, new numbering.

Monitors (every cycle, on sampled values): independent decoder of the sink stream (USB 3.2 7.2.2: SLC SLC SLC EPF, then two
equal 16-bit copies of 11 information bits + CRC-5, `rv.ref.crc.usb3_crc5`); queue transfers (`valid & ready`); parser of
the `source` stream (SHP SHP SHP EPF followed by four words; sequence number = DW3[18:16], DL = DW3[25], USB 3.2 figure
7-5; end of a packet = transfer followed by a cycle without `valid`); `source.valid`, `lrty_pending`.

Oracle (reference model `Oracle`/`Epoch`, nothing taken from luna):
  * credits = well-formed LCRDs seen in this epoch minus headers taken from the queue; a queue transfer with zero credits
    is a violation (a credit counts from the cycle its command word is on the sink, i.e. never later than in any DUT);
  * every header on the wire must be the next one of the accepted list (content compared through the unique tags); it
    needs an advertisement in this epoch; its sequence number is (advertised + 1 + index) mod 8, first time and every time;
  * the oldest unacknowledged header is retired by an LGOOD carrying its number and by nothing else;
  * an LBAD rewinds the expected wire order to the oldest unacknowledged header; everything from there is expected again,
    in order, with DL = 1, before any new header; a header that was already on its way when the LBAD arrived may
    complete: headers that *start* within G = 8 cycles after the LBAD word may follow either the old or the new order;
  * bounded progress: an owed header must start within 80 idle cycles (no `source.valid`, no `lrty_pending`), the queue
    must take a header within 24 cycles while a credit is available.
After the first violation of an enable epoch nothing more is judged until the link has been disabled and enabled again
(no follow-up alarms; disable clears the counters and pointers of the design, so a different mechanism in a later epoch of
the same session is still reported; the next session starts from a hard reset).  The mechanism names of the defects found on the unchanged tree (findings/C39.md) are decided from
the observed pattern only: DL of the packet that was on the wire when the LBAD arrived, LBAD word one cycle before the
end of a packet, acceptance in the cycle after the LBAD word without the transmitter having caught up since, previous epoch closed with
an open retry.

Not judged: DL on headers that are transmitted for the first time (USB 3.2 allows DL on delayed headers), CRCs and framing
(C36), payloads, hub depth / deferred, `recovery_required`, the 5 ms credit timer, whether retransmission waits for LRTY;
liveness after a mismatching LGOOD / LCRD (the link is then supposed to enter recovery); an LCRD with an unexpected letter
counts as an advertised credit for the safety check (lenient: "LCRD accepted in any order" is not reported); headers that
were started up to G cycles after `enable` fell; epochs in which more than four headers are unacknowledged (only possible
after a lost LGOOD).  Deviation from DESIGN.md section 7: enable epochs (link re-entry) are part of the workload although
the quantifier names only link-command histories and queue timings - `enable` is `ltssm.link_ready` in the link layer, a
retry interrupted by recovery is an ordinary history, and what is judged there is the statement itself (no header
without advertisement / credit); 32 long cases (512 sessions, about 1400 epochs) instead of 1 k short ones because of the elaboration cost.
"""
import os
import sys

from rv.sim import Bench
from rv.ref.crc import usb3_crc5

TRACE = bool(os.environ.get("C39_TRACE"))

PROPERTY = "C39"
CASES = {"quick": 32, "thorough": 640}
TIMEOUT = {"quick": 3600, "thorough": 8 * 3600}      # wall-clock watchdog; a case takes 10-15 s on an idle machine, minutes on a loaded one
RULE = ("case = 16 sessions (hard reset between them) of 1-3 enable epochs on one PacketTransmitter; session profile = (ack delay, credit "
        "delay, corruption probability for new and for retransmitted headers, mismatch/loss injections, source.ready profile, LRTY "
        "latency, queue burstiness or offers aimed at the LBAD/LGOOD decode cycle); the partner is reactive, LBAD 0-30 cycles after a "
        "header; non-trivial = >= 1 LBAD with >= 2 unacknowledged headers, >= 1 queue offer without credit and >= 10 headers on the "
        "wire; distinct = hash of the profiles, queued headers and every emitted link command")
REQUIRED_BINS = ["buffer_count_2", "buffer_count_4", "buffer_count_8", "queue_header_delayed_set", "queue_header_link_fields_junk",
                 "retransmission_of_header_queued_with_delayed", "disable_during_retry", "disable_quiet", "disable_busy", "queue_valid_without_credit", "accept_on_last_credit", "unacked_2_at_accept", "unacked_3plus_at_accept",
                 "lbad_unacked_0", "lbad_unacked_1", "lbad_unacked_2", "lbad_unacked_3plus", "lbad_header_in_flight", "lbad_wire_idle",
                 "lbad_during_retransmission_run", "lbad_word_near_header_end", "new_header_after_retransmission",
                 "accept_during_retransmission_run", "accept_in_cycle_after_lbad_word", "accept_in_cycle_after_retiring_lgood_word", "lgood_mismatch", "lbad_after_lgood_mismatch", "lcrd_mismatch",
                 "malformed_command_ignored", "sequence_wrapped", "advertisement_not_7", "data_header", "source_stalled_in_header",
                 "epoch_2plus", "retransmission_of_3plus", "burst_accept_back_to_back", "lgood_during_header",
                 "unrelated_command", "gap_inside_command"]
REQUIRED_EVENTS = ["cycles", "commands_decoded", "headers_accepted", "headers_on_wire", "headers_compared", "sequence_numbers_compared",
                   "retransmissions_compared", "headers_retired", "credits_received", "lbad_seen", "retransmission_runs_completed",
                   "accepts_credit_checked"]
ASSUMPTIONS = ["partner acknowledges only headers that were completely transmitted; LGOOD precedes the LCRD of the same header",
               "lrty_pending rises in the cycle after retry_required (as HeaderPacketReceiver drives it) and stays 2-60 cycles",
               "a header that starts <= 8 cycles after an LBAD word may still follow the pre-LBAD order",
               "enable is toggled only while the sink is between commands; it is raised again only after the wire has drained",
               "after the first violation of an enable epoch the rest of that epoch is not judged",
               "buffer_count 2, 4, 8 only (non-powers of two are not generated); LCRD letters run modulo buffer_count",
               "an LGOOD carrying the next expected number while nothing awaits acknowledgement is not generated (USB 3.2 itself accepts it)",
               "DL of first transmissions, recovery_required, CRC/framing, payload and the credit timer are not judged"]

# K symbols, USB 3.2 table 6-1; byte 0 of a word is the first symbol
SHP, SDP, END, EDB, SLC, EPF = 0xFB, 0x5C, 0xFD, 0x7C, 0xFE, 0xF7


def word(*syms):
    return sum(s << (8 * i) for i, s in enumerate(syms))


SHP_WORD = word(SHP, SHP, SHP, EPF)
SLC_WORD = word(SLC, SLC, SLC, EPF)
SDP_WORD = word(SDP, SDP, SDP, EPF)

# link command = class(2) type(2) at bits [10:7], subtype at [3:0] (USB 3.2 table 7-4)
LGOOD, LCRD, LRTY, LBAD, LGO_U, LAU, LXU, LPMA, LUP, LDN = 0, 1, 2, 3, 4, 5, 6, 7, 8, 11
NAMES = {0: "LGOOD", 1: "LCRD", 2: "LRTY", 3: "LBAD", 4: "LGO_U", 5: "LAU", 6: "LXU", 7: "LPMA", 8: "LUP", 11: "LDN"}
TYPE_DATA = 0b01000
G = 8                     # cycles after an LBAD word in which a header may still start under the old order
LIVE_TX = 80
LIVE_ACCEPT = 24
BUFFERS = 4


def lc_word(cmd, sub):
    info = (sub & 0xF) | ((cmd & 0xF) << 7)
    w = info | (usb3_crc5(info, 11) << 11)
    return w | (w << 16)


# ======================================================================================== reference model

class Epoch:
    def __init__(self, start):
        self.start = start
        self.adv = None
        self.adv_cycle = None
        self.A = []              # accepted headers (dw0, dw1, dw2)
        self.cur_lbad = None     # the LBAD the current retransmission run answers
        self.early_copy = None   # index of a retransmission that started inside the window after an LBAD, queued with delayed = 1
        self.qdl = []            # `delayed` field of the queued header (junk from the protocol layer)
        self.index = {}
        self.k = 0               # retired
        self.nxt = 0             # next expected on the wire
        self.hw = 0              # number of distinct headers that were on the wire
        self.pend = []           # LBADs not yet applied: dict(t, k, during_retx)
        self.credits = 0         # lenient
        self.strict = 0
        self.letter = 0
        self.mismatch = False
        self.overflow = False
        self.closed = None
        self.suspect = None
        self.run_active = False  # a retransmission run is in progress (nxt < hw at some point after an LBAD)
        self.lgood_mismatch_open = False
        self.had_run = False
        self.run_len = 0
        self.last_lbad = -100
        self.last_retire = -100
        self.last_dl = False     # DL of the most recent header on the wire
        self.accept_with_lbad = None   # index of a header that was accepted in the cycle after an LBAD word
        self.lbad_open = False   # an LBAD was seen and the transmitter has not caught up (everything accepted transmitted) since


class Oracle:
    def __init__(self, res, reported, label="", buffers=BUFFERS):
        self.B = buffers             # header buffers / credits of the configuration under test
        self.res = res
        self.reported = reported     # mechanisms already reported in this case
        self.label = label
        self.tainted = False         # after the first violation of an epoch nothing more is judged until the link is re-enabled
        self.ep = None
        self.prev_closed = -10 ** 9
        self.prev_retry_open = False
        self.idle = 0
        self.qwait = 0
        self.flight = None       # start cycle of the header currently on the wire
        self.flight_lbads = []
        self.last_end = -100
        self.last_start = -100

    def report(self, mech, detail):
        if self.tainted:
            return
        self.tainted = True
        if TRACE:
            sys.stderr.write("VIOLATION %s %s\n" % (mech, detail))
        if mech not in self.reported:
            self.reported.add(mech)
            self.res.violation(mech, self.label + detail)

    # ------------------------------------------------------------------ inputs
    def enable(self, cyc, val):
        if val:
            self.ep = Epoch(cyc)
            self.tainted = False
        elif self.ep is not None:
            self._resolve_suspect("epoch_end")
            self.ep.closed = cyc
            self.prev_closed = cyc
            carried = self.prev_retry_open
            self.prev_retry_open = bool(self.ep.pend) or self.ep.lbad_open or self.ep.last_dl
            if self.tainted and (self.ep.last_lbad >= 0 or carried):
                self.prev_retry_open = True      # the model lost track in this epoch; an LBAD was seen (now or in the tainted epoch
                #                                  before), the retry may be unfinished
            self.res.bin("disable_during_retry" if self.prev_retry_open else ("disable_quiet" if self.quiet() else "disable_busy"))
            self.ep = None
        self.idle = self.qwait = 0

    def command(self, cyc, cmd, sub, wire_busy):
        ep, res = self.ep, self.res
        res.event("commands_decoded")
        if ep is None:
            return
        if cmd == LGOOD:
            if wire_busy:
                res.bin("lgood_during_header")
            if ep.adv is None:
                ep.adv, ep.adv_cycle = sub & 7, cyc
                if (sub & 7) != 7:
                    res.bin("advertisement_not_7")
            elif ep.k < len(ep.A) and sub == (ep.adv + 1 + ep.k) % 8:
                ep.k += 1
                ep.last_retire = cyc
                res.event("headers_retired")
            else:
                ep.mismatch = True
                ep.lgood_mismatch_open = True
                res.bin("lgood_mismatch")
        elif cmd == LCRD:
            if sub < self.B:
                ep.credits += 1
                if sub == ep.letter:
                    ep.strict += 1
                    ep.letter = (ep.letter + 1) % self.B
                    res.event("credits_received")
                else:
                    ep.mismatch = True
                    res.bin("lcrd_mismatch")
        elif cmd == LBAD:
            res.event("lbad_seen")
            un = len(ep.A) - ep.k
            res.bin("lbad_unacked_%s" % (un if un < 3 else "3plus"))
            res.bin("lbad_header_in_flight" if wire_busy else "lbad_wire_idle")
            during = ep.lbad_open
            ep.lbad_open = True
            if during:
                res.bin("lbad_during_retransmission_run")
            if ep.lgood_mismatch_open:
                res.bin("lbad_after_lgood_mismatch")
                ep.lgood_mismatch_open = False
            ep.last_lbad = cyc
            p = {"t": cyc, "k": ep.k, "during": during, "unacked": un, "soft": False, "stale_dl": False, "at_done": False}
            ep.pend.append(p)
            if self.flight is not None:
                self.flight_lbads.append(p)
            if abs(cyc - self.last_end) <= 2:
                res.bin("lbad_word_near_header_end")
        else:
            res.bin("unrelated_command")

    def accept(self, cyc, hdr, back_to_back, queued_delayed=0):
        ep, res = self.ep, self.res
        res.event("headers_accepted")
        self.qwait = 0
        if ep is None:
            self.report("header_accepted_while_disabled", "cycle %d: queue transfer with enable low" % cyc)
            return
        res.event("accepts_credit_checked")
        if ep.credits <= 0:
            self.report("header_accepted_without_credit",
                        "cycle %d: queue.valid & queue.ready although every advertised credit is used (accepted so far %d, LCRDs seen %d)"
                        % (cyc, len(ep.A), len(ep.A)))
        elif ep.strict <= 0:
            res.unjudged += 1
        if ep.strict == 1:
            res.bin("accept_on_last_credit")
        un = len(ep.A) - ep.k
        if un == 1:
            res.bin("unacked_2_at_accept")
        elif un >= 2:
            res.bin("unacked_3plus_at_accept")
        if ep.lbad_open:
            res.bin("accept_during_retransmission_run")
        if back_to_back:
            res.bin("burst_accept_back_to_back")
        ep.credits = max(0, ep.credits - 1)
        ep.strict = max(0, ep.strict - 1)
        if cyc - ep.last_retire == 1:
            res.bin("accept_in_cycle_after_retiring_lgood_word")
        if cyc - ep.last_lbad == 1:
            ep.accept_with_lbad = len(ep.A)
            res.bin("accept_in_cycle_after_lbad_word")
        ep.index[hdr] = len(ep.A)
        ep.A.append(hdr)
        ep.qdl.append(queued_delayed)
        if len(ep.A) - ep.k > self.B:
            ep.overflow = True
            ep.suspect = None
        if len(ep.A) > 8:
            res.bin("sequence_wrapped")

    def packet_end(self, cyc, dl):
        """last word of a packet (header, or the payload that follows a data header) left the transmitter"""
        if self.ep is not None:
            for p in self.ep.pend:
                if p["t"] == cyc - 1:
                    p["at_done"] = True
                if dl and self.last_start <= p["t"] <= cyc:
                    p["stale_dl"] = True          # the LBAD arrived while a packet sent in a retry was on the wire

    def header_started(self, cyc):
        self.flight = cyc
        self.flight_lbads = []

    # ------------------------------------------------------------------ wire header
    def _resolve_suspect(self, how, idx=None, dl=None):
        """A header that started right after an LBAD repeated the oldest unacknowledged header without DL.  What it was
        depends on what follows."""
        ep = self.ep
        if ep is None or ep.suspect is None:
            return False
        s = ep.suspect
        ep.suspect = None
        p = s["lbad"]
        if how == "next" and idx == s["idx"]:
            # the regular retransmission run follows (its own DL is judged there): the suspect was an additional copy
            self.report("extra_copy_of_unacked_header_without_dl_right_after_lbad", s["detail"])
            return False
        # the suspect *was* the retransmission (no DL): consume the LBAD
        if p in ep.pend:
            ep.pend = ep.pend[ep.pend.index(p) + 1:]
        mech = "retransmission_without_dl"
        if p["at_done"] and p["stale_dl"]:
            mech = "lbad_coinciding_with_end_of_retry_retransmission_without_dl"
        self.report(mech, s["detail"])
        ep.nxt = s["idx"] + 1
        ep.run_active = ep.nxt < ep.hw
        return True

    def wire_header(self, s, e, dw0, dw1, dw2, dw3):
        res = self.res
        res.event("headers_on_wire")
        seq, dl = (dw3 >> 16) & 7, (dw3 >> 25) & 1
        ep = self.ep
        lbads_in_flight, self.flight_lbads, self.flight = self.flight_lbads, [], None
        self.last_end = e
        self.last_start = s
        self.idle = 0
        what = "header dw0=%08x dw1=%08x dw2=%08x seq=%d dl=%d on the wire in cycles %d..%d" % (dw0, dw1, dw2, seq, dl, s, e)
        if ep is None or s < ep.start:
            if s <= self.prev_closed + G:
                res.unjudged += 1
            else:
                self.report("stale_header_after_disable_during_retry" if self.prev_retry_open else "header_transmitted_while_disabled", what)
            return None
        if ep.adv is None or s <= ep.adv_cycle:
            if s <= self.prev_closed + G:
                res.unjudged += 1
            else:
                self.report("stale_header_after_disable_during_retry" if self.prev_retry_open else "header_transmitted_without_advertisement",
                            what + "; enabled since cycle %d, no LGOOD advertisement yet" % ep.start)
            return None
        ep.last_dl = bool(dl)
        if ep.overflow:
            res.unjudged += 1
            return None
        idx = ep.index.get((dw0, dw1, dw2))
        applied = None
        # LBADs that certainly were seen before this header started
        hard = [p for p in ep.pend if p["t"] + G < s and not p["soft"]]
        if hard:
            applied = hard[-1]
            ep.nxt = applied["k"]
            ep.pend = [p for p in ep.pend if p["t"] > applied["t"]]
            ep.run_active = ep.nxt < ep.hw
        if ep.suspect is not None:
            self._resolve_suspect("next", idx, dl)
        exp = ep.nxt
        ctx = "; expected index %d of %d accepted (retired %d, first-time transmitted %d, advertised LGOOD_%d)" % (exp, len(ep.A), ep.k, ep.hw, ep.adv)
        if idx is None:
            self.report("stale_header_after_disable_during_retry" if self.prev_retry_open and ep.hw == 0 else "header_not_from_queue_transmitted", what + ctx)
            return None
        if idx == exp:
            if dl:
                for p in ep.pend:
                    if p["t"] <= e:
                        p["stale_dl"] = True      # the header that completed under the old order was itself sent in a retry
            keep = []
            for p in ep.pend:
                if p["t"] + G < s:
                    continue                      # soft and past its window: it was honoured by the first transmission
                if p["k"] == idx and idx >= ep.hw and p["t"] <= s:
                    p["soft"] = True              # cannot tell whether this first transmission already answers the LBAD
                keep.append(p)
            ep.pend = keep
        else:
            cand = [p for p in ep.pend if p["k"] == idx]
            if cand:
                p = cand[-1]
                if not dl and idx < ep.hw and s <= p["t"] + G and not p["soft"]:
                    # do not decide yet: additional copy, or the retransmission itself without DL
                    ep.suspect = {"idx": idx, "start": s, "lbad": p,
                                  "detail": what + "; LBAD word at cycle %d, oldest unacknowledged index %d, %d unacknowledged%s"
                                  % (p["t"], p["k"], p["unacked"], ", LBAD arrived during a retransmission run" if p["during"] else "")}
                    res.event("headers_compared")
                    self._seq(ep, idx, seq, what)
                    return idx
                applied = p
                ep.nxt = exp = p["k"]
                ep.pend = [q for q in ep.pend if q["t"] > p["t"]]
                ep.run_active = ep.nxt < ep.hw
                if s <= p["t"] + G and ep.qdl[idx] and idx < ep.hw:
                    ep.early_copy = idx          # DL may stem from the queued header, not from the retry (see findings B)
            elif ep.pend and idx < exp:
                # the transmitter went back, so it has seen the LBAD: judge against the order the LBAD demands
                applied = p = ep.pend[-1]
                ep.nxt = exp = p["k"]
                ep.pend = []
                ep.run_active = ep.nxt < ep.hw
        res.event("headers_compared")
        if idx != exp:
            if idx > exp:
                if exp < ep.hw:
                    mech = "retransmission_skipped_unacked_header"
                    if applied is not None and applied["stale_dl"]:
                        mech = "lbad_during_retry_oldest_unacked_skipped"
                else:
                    mech = "new_header_skipped"
            elif idx < ep.k:
                mech = "acknowledged_header_transmitted_again"
            elif idx == ep.early_copy and idx == exp - 1:
                mech = "extra_copy_of_unacked_header_right_after_lbad_dl_from_queued_header"
            else:
                mech = "header_repeated_without_lbad"
            self.report(mech, what + " is index %d" % idx + ctx)
        is_retx = idx < ep.hw
        if is_retx:
            res.event("retransmissions_compared")
            ep.run_len += 1
            if ep.qdl[idx]:
                res.bin("retransmission_of_header_queued_with_delayed")
            if applied is not None:
                ep.cur_lbad = applied
            if not dl:
                c = ep.cur_lbad
                self.report("lbad_coinciding_with_end_of_retry_retransmission_without_dl" if c and c["at_done"] and c["stale_dl"]
                            else "retransmission_without_dl", what + " is a retransmission of index %d" % idx + ctx)
        elif ep.had_run:
            res.bin("new_header_after_retransmission")
        self._seq(ep, idx, seq, what)
        if idx != ep.early_copy or idx != exp:
            ep.early_copy = None
        ep.nxt = idx + 1
        was_run = ep.run_active
        ep.hw = max(ep.hw, idx + 1)
        ep.run_active = ep.nxt < ep.hw
        if was_run and not ep.run_active:
            res.event("retransmission_runs_completed")
            ep.had_run = True
            if ep.run_len >= 3:
                res.bin("retransmission_of_3plus")
        if not ep.run_active:
            ep.run_len = 0
        if ep.nxt >= len(ep.A) and not ep.pend:
            ep.lbad_open = False
            ep.accept_with_lbad = None
        return idx

    def _seq(self, ep, idx, seq, what):
        self.res.event("sequence_numbers_compared")
        want = (ep.adv + 1 + idx) % 8
        if seq != want:
            self.report("retransmitted_sequence_number_wrong" if idx < ep.hw else "sequence_number_wrong",
                        what + "; header index %d after advertisement LGOOD_%d must carry %d" % (idx, ep.adv, want))

    # ------------------------------------------------------------------ per cycle
    def tick(self, cyc, src_valid, lrty, qvalid, qready):
        ep, res = self.ep, self.res
        if ep is None or ep.adv is None:
            return
        if qvalid and not qready and ep.strict == 0:
            res.bin("queue_valid_without_credit")
        judged = not ep.mismatch and not ep.overflow
        # queue must be taken while a credit is there
        if qvalid and not qready and ep.strict > 0 and cyc > ep.adv_cycle + 4 and judged:
            self.qwait += 1
            if self.qwait > LIVE_ACCEPT:
                self.report("queue_not_ready_despite_credit", "cycle %d: queue.valid for %d cycles, %d credit(s) advertised and unused" % (cyc, self.qwait, ep.strict))
                self.qwait = 0
        else:
            self.qwait = 0
        eff = ep.nxt
        for p in ep.pend:
            if not p["soft"]:
                eff = p["k"]
        owed = eff < len(ep.A)
        if owed and judged and not src_valid and not lrty:
            self.idle += 1
            if self.idle > LIVE_TX:
                if ep.suspect is not None and self._resolve_suspect("timeout"):
                    self.idle = 0
                    return
                mech = "retransmission_not_started" if ep.pend else ("retransmission_run_incomplete" if eff < ep.hw else "accepted_header_not_transmitted")
                if ep.accept_with_lbad is not None and eff >= ep.accept_with_lbad:
                    # since that acceptance the transmitter never caught up: it stays one header behind (the owed one need not be
                    # the newest: another header may have been accepted a moment ago)
                    mech = "header_accepted_in_lbad_cycle_then_last_header_never_transmitted"
                elif ep.pend and ep.pend[-1]["stale_dl"]:
                    mech = "lbad_during_retry_forgotten"
                self.report(mech, "cycle %d: %d idle cycles although header index %d of %d accepted is owed (retired %d, transmitted %d)"
                            % (cyc, self.idle, eff, len(ep.A), ep.k, ep.hw))
                self.idle = 0
        else:
            self.idle = 0

    def quiet(self):
        """everything the model expects has happened (used by the harness to find a quiet moment; workload only)"""
        ep = self.ep
        if ep is None:
            return True
        eff = ep.nxt
        for p in ep.pend:
            if not p["soft"]:
                eff = p["k"]
        return eff >= len(ep.A) and self.flight is None

    def finish(self):
        self._resolve_suspect("end")


# ======================================================================================== case

PROFILES = ["clean", "slow_ack", "starved", "retry", "retry", "retry_storm", "retry_storm", "hostile", "mixed", "mixed"]
SESSIONS = {"quick": 16, "thorough": 16}


def draw_profile(rng):
    profile = rng.choice(PROFILES)
    P = {
        "profile": profile,
        "ack_delay": (2, 10), "crd_delay": (2, 12), "p_bad": 0.0, "p_bad_retx": 0.0, "p_dup_lgood": 0.0, "p_wrong_lgood": 0.0,
        "p_lost_lgood": 0.0, "p_lcrd_dup": 0.0, "p_lcrd_skip": 0.0, "p_spurious_lbad": 0.0, "p_malformed": 0.02, "p_unrelated": 0.03,
    }
    if profile in ("slow_ack", "mixed"):
        P["ack_delay"] = (10, rng.choice([40, 80]))
    if profile in ("starved", "mixed"):
        P["crd_delay"] = (20, rng.choice([80, 160]))
    if profile in ("retry", "mixed", "hostile"):
        P["p_bad"] = rng.choice([0.08, 0.15, 0.25]); P["p_bad_retx"] = rng.choice([0.0, 0.15, 0.3]); P["p_spurious_lbad"] = 0.004
        P["ack_delay"] = rng.choice([(2, 10), (8, 40), (20, 60)])
    if profile == "retry_storm":
        P["p_bad"] = rng.choice([0.15, 0.3]); P["p_bad_retx"] = rng.choice([0.3, 0.5]); P["ack_delay"] = rng.choice([(8, 40), (20, 70)])
        P["p_spurious_lbad"] = 0.004
    if profile in ("hostile", "mixed"):
        P["p_dup_lgood"] = 0.06; P["p_wrong_lgood"] = 0.03; P["p_lost_lgood"] = 0.02; P["p_lcrd_dup"] = 0.03; P["p_lcrd_skip"] = 0.015
        P["p_malformed"] = 0.08; P["p_unrelated"] = 0.1
    P["lbad_delay_max"] = rng.choice([6, 12, 30])
    P["ready"] = rng.choice(["always", "always", "random", "random", "bursty"])
    P["p_ready"] = rng.choice([0.5, 0.75, 0.9])
    P["lrty"] = rng.choice([(2, 6), (2, 20), (10, 60)])
    P["burst"] = rng.choice([0.3, 0.6, 0.9])
    P["p_data"] = rng.choice([0.0, 0.25, 0.5])
    P["sink_idle"] = rng.choice(["invalid", "zeros", "noise", "mixed"])
    P["snipe"] = rng.random() < 0.3            # queue offers aimed at the cycle in which an LBAD / LGOOD is decoded
    P["epochs"] = rng.choice([1, 2, 2, 3])
    P["target"] = rng.randint(20, 50)          # headers per epoch
    P["salt"] = rng.getrandbits(27)
    return P


def run_case(rng, tier, res):
    from amaranth import Elaboratable, Module, Signal, ClockDomain
    from luna.gateware.usb.usb3.link.transmitter import PacketTransmitter

    nbuf = rng.choice([4, 4, 2, 8])       # power-of-two header buffer counts (the pointers of the design wrap at 2**n)

    class Top(Elaboratable):
        """the real transmitter in an `ss` domain whose (synchronous) reset the harness can pulse between sessions"""
        def __init__(self):
            self.dut = PacketTransmitter(buffer_count=nbuf)
            self.rst = Signal()

        def elaborate(self, platform):
            m = Module()
            m.domains.ss = cd = ClockDomain("ss")
            m.d.comb += cd.rst.eq(self.rst)
            m.submodules.dut = self.dut
            return m

    top = Top()
    dut = top.dut
    n_sessions = SESSIONS[tier]
    max_cycles = n_sessions * 3 * (50 * 140 + 2200) + 1000
    # Building the simulator takes ~14 s for this design because amaranth recomputes Operator.shape() recursively for the
    # deep CRC expressions; Operator is immutable, so the result is memoised per instance while the simulator is built
    # (pure speed-up, 14 s -> 4 s; C39_NO_SHAPE_CACHE=1 switches it off).
    from amaranth.hdl import _ast
    orig_shape = _ast.Operator.shape

    def cached_shape(self):
        try:
            return self._c39_shape
        except AttributeError:
            self._c39_shape = sh = orig_shape(self)
            return sh

    if not os.environ.get("C39_NO_SHAPE_CACHE"):
        _ast.Operator.shape = cached_shape
    try:
        b = Bench(top, domain="ss", freq=125e6, max_cycles=max_cycles)
    finally:
        _ast.Operator.shape = orig_shape
    q, qh = dut.queue, dut.queue.header
    snk, src, ds = dut.sink, dut.source, dut.data_sink
    b.watch(snk.valid, snk.data, snk.ctrl, src.valid, src.data, src.ctrl, src.ready, q.valid, q.ready, qh.dw0, qh.dw1, qh.dw2, qh.delayed,
            dut.enable, dut.lrty_pending, dut.retry_required, dut.bringup_complete, ds.valid, ds.ready, ds.last,
            dut.credits_available, dut.packets_to_send)
    res.desc = {"buffer_count": nbuf, "sessions": []}
    res.sig(nbuf)
    reported = set()
    st = {}
    cur = {"P": draw_profile(rng), "orc": None, "partner": None}

    def trace(*a):
        if TRACE:
            sys.stderr.write("%6d %s\n" % (b.cycle, " ".join(str(x) for x in a)))

    def new_state():
        st.clear()
        st.update({
            "enable": 0, "offering": False, "offered": 0, "hdr_index": 0,
            "sink_state": 0,              # oracle's sink decoder: 1 = framing seen
            "sink_busy": False, "last_cmd_cycle": -10,
            "wire": None,                 # header being collected: [start, words...]
            "word_first_valid": None,
            "lrty_left": 0, "lrty_fell": -1, "prev_accept_cycle": -10,
            "abort_at": None, "snipe_at": -1, "hold_sink": True, "in_reset": True, "prev_xfer": False, "last_dl": 0,
        })

    new_state()

    # ------------------------------------------------------------------ partner (workload)
    class Partner:
        def __init__(self):
            self.reset()

        def reset(self):
            self.sched = []           # [due, order, kind, cmd, sub]
            self.order = 0
            self.rx_expected = None
            self.ignoring = False
            self.lbad_cycle = None
            self.chain_due = 0        # LGOOD / LBAD keep their order
            self.letter = 0
            self.dead = False         # a lost LGOOD: nothing matches any more

        def push(self, due, cmd, sub, kind="ok"):
            self.order += 1
            self.sched.append([due, self.order, kind, cmd, sub])
            self.sched.sort()

        def chain(self, due, cmd, sub, kind="ok"):
            due = max(due, self.chain_due + 2)
            self.chain_due = due
            self.push(due, cmd, sub, kind)
            return due

        def near(self, expected):
            """a sequence number that is not the expected one: mostly one bit away from it"""
            if rng.random() < 0.7:
                return expected ^ (1 << rng.randrange(3))
            return rng.choice([n for n in range(8) if n != expected])

        def abort(self, now):
            if st["abort_at"] is None:
                st["abort_at"] = now + rng.randint(60, 250)

        def start_epoch(self, now):
            self.reset()
            adv = rng.choice([7, 7, rng.randrange(8), rng.randrange(8)])
            self.rx_expected = (adv + 1) % 8
            d = now + rng.randint(2, 12)
            if rng.random() < 0.05:
                self.push(d, LCRD, None)     # a credit before the advertisement
                d += 3
            d = self.chain(d, LGOOD, adv)
            first = rng.choice([nbuf, nbuf, nbuf, 1, 2, 3])
            for i in range(nbuf):
                d += rng.randint(2, 6) if i < first else rng.randint(30, 200)
                self.push(d, LCRD, None)

        def header(self, now, start, seq, dl):
            P = cur["P"]
            if self.ignoring:
                if st["lrty_fell"] < self.lbad_cycle or start <= st["lrty_fell"]:
                    return
                self.ignoring = False
            if self.dead:
                return
            bad = rng.random() < (P["p_bad_retx"] if dl else P["p_bad"])
            if bad:
                due = now + rng.randint(0, P["lbad_delay_max"])
                if seq == self.rx_expected and rng.random() < 6 * P["p_wrong_lgood"]:
                    # a stray LGOOD whose number is close to the one the transmitter waits for, then the LBAD: the header must
                    # not be retired by it
                    due = self.chain(due, LGOOD, self.near(seq), "mismatch") + 2
                due = self.chain(due, LBAD, 0)
                self.ignoring = True
                self.lbad_cycle = due
                return
            if seq != self.rx_expected:
                self.abort(now)              # a real partner would go to recovery
                self.dead = True
                return
            self.rx_expected = (seq + 1) % 8
            due = now + rng.randint(*P["ack_delay"])
            r = rng.random()
            if r < P["p_lost_lgood"]:
                self.dead = True             # this LGOOD and everything that depends on it is lost; recovery follows
                self.abort(now)
                for later in range(rng.randint(1, 2)):
                    self.chain(due + 4 * later, LGOOD, (seq + 1 + later) % 8, "mismatch")
                if rng.random() < 0.5:
                    self.chain(due + 12, LBAD, 0)
                self.push(due + rng.randint(*P["crd_delay"]), LCRD, None)
                return
            r -= P["p_lost_lgood"]
            if r < P["p_wrong_lgood"]:
                self.chain(due, LGOOD, self.near(seq), "mismatch")
                due += 2
            due = self.chain(due, LGOOD, seq)
            if rng.random() < P["p_dup_lgood"]:
                self.chain(due + rng.randint(2, 6), LGOOD, rng.choice([seq, seq, self.near((seq + 1) % 8)]), "mismatch")
            self.push(due + rng.randint(*P["crd_delay"]), LCRD, None)

        def spurious(self, now):
            if self.ignoring or self.dead or self.rx_expected is None:
                return
            due = self.chain(now + rng.randint(0, 4), LBAD, 0)
            self.ignoring = True
            self.lbad_cycle = due

    # ------------------------------------------------------------------ monitor (observation + oracle)
    def monitor(bn):
        cyc = bn.cycle
        orc, partner = cur["orc"], cur["partner"]
        if st["in_reset"] or orc is None:
            return
        res.event("cycles")
        sv, sd, sc = bn.get(snk.valid), bn.get(snk.data), bn.get(snk.ctrl)
        v, r, d, c = bn.get(src.valid), bn.get(src.ready), bn.get(src.data), bn.get(src.ctrl)
        lrty = bn.get(dut.lrty_pending)
        # sink decoder
        if sv:
            if st["sink_state"] == 0:
                if sd == SLC_WORD and sc == 0xF:
                    st["sink_state"] = 1
            else:
                st["sink_state"] = 0
                lo, hi = sd & 0xFFFF, sd >> 16
                if sc == 0 and lo == hi and (lo >> 11) == usb3_crc5(lo & 0x7FF, 11):
                    trace("CMD", NAMES.get((lo >> 7) & 0xF, "?"), lo & 0xF, "credits", bn.get(dut.credits_available), "to_send", bn.get(dut.packets_to_send))
                    orc.command(cyc, (lo >> 7) & 0xF, lo & 0xF, st["wire"] is not None)
                else:
                    res.bin("malformed_command_ignored")
        elif st["sink_state"] == 1:
            res.bin("gap_inside_command")
        # queue
        qv, qr = bn.get(q.valid), bn.get(q.ready)
        if qv and qr:
            trace("ACCEPT index", len(orc.ep.A) if orc.ep else None, "%08x" % bn.get(qh.dw0))
            orc.accept(cyc, (bn.get(qh.dw0), bn.get(qh.dw1), bn.get(qh.dw2)), st["prev_accept_cycle"] == cyc - 1, bn.get(qh.delayed))
            st["prev_accept_cycle"] = cyc
        # wire
        if st["prev_xfer"] and not v:
            orc.packet_end(cyc - 1, st["last_dl"])
        st["prev_xfer"] = bool(v and r)
        if v:
            if st["word_first_valid"] is None:
                st["word_first_valid"] = cyc
            if st["wire"] is not None and not r:
                res.bin("source_stalled_in_header")
            if r:
                first = st["word_first_valid"]
                st["word_first_valid"] = None
                if st["wire"] is None:
                    if c == 0xF and d == SHP_WORD:
                        st["wire"] = [first]
                        orc.header_started(first)
                    elif c == 0xF and d == SDP_WORD:
                        res.bin("data_header")
                elif c != 0:
                    orc.report("header_framing_unparseable", "cycle %d: control symbols inside a header packet" % cyc)
                    st["wire"] = None
                else:
                    st["wire"].append(d)
                    if len(st["wire"]) == 5:
                        w = st["wire"]
                        st["wire"] = None
                        st["last_dl"] = (w[4] >> 25) & 1
                        idx = orc.wire_header(w[0], cyc, w[1], w[2], w[3], w[4])
                        trace("WIRE %d..%d index" % (w[0], cyc), idx, "seq", (w[4] >> 16) & 7, "dl", (w[4] >> 25) & 1, "%08x" % w[1])
                        if orc.ep is not None:
                            partner.header(cyc, w[0], (w[4] >> 16) & 7, (w[4] >> 25) & 1)
        else:
            st["word_first_valid"] = None
        orc.tick(cyc, v, lrty, qv, qr)

    b.add_monitor(monitor)

    # ------------------------------------------------------------------ drivers
    last_set = {}

    def setv(sig, val):
        """Bench.set, skipped when the input already has that value (speed)"""
        val = int(val)
        if last_set.get(id(sig)) != val:
            last_set[id(sig)] = val
            b.set(sig, val)

    def sink_driver():
        pending = []          # words of the command being sent
        while True:
            now = b.cycle
            P, partner = cur["P"], cur["partner"]
            if st["in_reset"]:
                pending = []
            go = not pending and st["enable"] and not st["hold_sink"] and partner is not None
            if go and partner.sched and partner.sched[0][0] <= now:
                due, _, kind, cmd, sub = partner.sched.pop(0)
                if cmd == LCRD:
                    r = rng.random()
                    if r < P["p_lcrd_dup"]:
                        sub = (partner.letter - 1) % nbuf          # repeated letter, the real one follows later
                        partner.push(now + rng.randint(3, 10), LCRD, None)
                    elif r < P["p_lcrd_dup"] + P["p_lcrd_skip"]:
                        sub = (partner.letter + 1) % nbuf          # a letter was lost
                        partner.letter = (partner.letter + 2) % nbuf
                    else:
                        sub = partner.letter
                        partner.letter = (partner.letter + 1) % nbuf
                w = lc_word(cmd, sub)
                ctrl = 0
                how = "ok"
                if rng.random() < P["p_malformed"]:
                    how = rng.choice(["crc", "replica", "ctrl", "bit"])
                    if how == "crc":
                        lo = (w & 0xFFFF) ^ (1 << rng.randrange(11, 16)); w = lo | (lo << 16)
                    elif how == "replica":
                        w ^= 1 << rng.randrange(32)
                    elif how == "ctrl":
                        ctrl = 1 << rng.randrange(4)
                    else:
                        lo = (w & 0xFFFF) ^ (1 << rng.randrange(0, 11)); w = lo | (lo << 16)
                    # the malformed command must simply be ignored; the intact one follows so that the history stays legal
                    pending = [(1, SLC_WORD, 0xF), (1, w, ctrl), (1, SLC_WORD, 0xF), (1, lc_word(cmd, sub), 0)]
                else:
                    pending = [(1, SLC_WORD, 0xF), (1, w, 0)]
                if rng.random() < 0.06:
                    pending[1:1] = [(0, rng.getrandbits(32), rng.getrandbits(4))] * rng.randint(1, 2)
                res.sig(now, cmd, sub, how)
                if cmd in (LBAD, LGOOD) and how == "ok" and len(pending) == 2:
                    st["snipe_at"] = now + rng.choice([1, 2, 2, 2, 2, 3])
            elif go and rng.random() < P["p_unrelated"]:
                cmd = rng.choice([LRTY, LGO_U, LGO_U, LAU, LXU, LPMA, LUP, LDN])
                sub = {LGO_U: rng.randint(1, 3), LDN: 0b1011}.get(cmd, 0)
                pending = [(1, SLC_WORD, 0xF), (1, lc_word(cmd, sub), 0)]
                res.sig(now, cmd, sub)
            if pending:
                val, data, ctrl = pending.pop(0)
                st["sink_busy"] = True
                if not pending:
                    st["last_cmd_cycle"] = now + 1
            else:
                st["sink_busy"] = False
                mode = P["sink_idle"] if P["sink_idle"] != "mixed" else ["invalid", "zeros", "noise"][(now // 61) % 3]
                if mode == "invalid":
                    val, data, ctrl = 0, (0xF7FEFEFE if now & 64 else 0x12345678), (0xF if now & 64 else 0)
                elif mode == "zeros":
                    val, data, ctrl = 1, 0, 0
                else:
                    val, data, ctrl = rng.randrange(2), rng.getrandbits(32), 0
                    if rng.random() < 0.1:
                        data, ctrl = rng.choice([(SHP_WORD, 0xF), (SDP_WORD, 0xF), (word(0x3C, 0x3C, 0, 0), 0x3), (word(SLC, SLC, SLC, SLC), 0xF)])
            setv(snk.valid, val); setv(snk.data, data); setv(snk.ctrl, ctrl)
            yield

    def ready_driver():
        run = 0
        level = 1
        while True:
            P = cur["P"]
            if P["ready"] == "always":
                level = 1
            elif P["ready"] == "random":
                level = rng.random() < P["p_ready"]
            else:
                if run <= 0:
                    level = not level
                    run = rng.randint(1, 12) if level else rng.randint(1, 5)
                run -= 1
            setv(src.ready, level)
            yield

    def make_header():
        P = cur["P"]
        i = st["hdr_index"]
        st["hdr_index"] += 1
        typ = TYPE_DATA if rng.random() < P["p_data"] else rng.choice([0b00100, 0b00000, 0b01100])
        dw0 = typ | (((i ^ P["salt"]) & 0x7FFFFFF) << 5)
        dw1 = (rng.getrandbits(32) & 0xFFFF0000) | (i & 0xFFFF)
        dw2 = ((~i) & 0xFFFF) << 16 | rng.getrandbits(16)
        return dw0, dw1, dw2

    def queue_driver():
        setv(q.valid, 0)
        offered = None
        while True:
            if st["in_reset"]:
                offered = None
                setv(q.valid, 0)
                yield
                continue
            if offered is not None and b.get(q.valid) and b.get(q.ready):
                offered = None
                st["offered"] += 1
            if offered is None:
                if cur["P"]["snipe"]:
                    want = b.cycle == st["snipe_at"] or rng.random() < 0.03
                else:
                    want = rng.random() < cur["P"]["burst"]
                if st["offering"] and st["offered"] < cur["P"]["target"] and want:
                    offered = make_header()
                    res.sig(offered)
                    setv(q.valid, 1)
                    setv(qh.dw0, offered[0]); setv(qh.dw1, offered[1]); setv(qh.dw2, offered[2])
                    # junk in the link-layer fields: the transmitter assigns them
                    setv(qh.sequence_number, rng.randrange(8)); setv(qh.crc16, rng.getrandbits(16)); setv(qh.crc5, rng.getrandbits(5))
                    if rng.random() < 0.5:
                        dly = rng.randrange(2)
                        setv(qh.delayed, dly); setv(qh.deferred, rng.randrange(2)); setv(qh.hub_depth, rng.randrange(8))
                        setv(qh.dw3_reserved, rng.randrange(8))
                        res.bin("queue_header_delayed_set" if dly else "queue_header_link_fields_junk")
                    else:
                        setv(qh.delayed, 0); setv(qh.deferred, 0); setv(qh.hub_depth, 0); setv(qh.dw3_reserved, 0)
                else:
                    setv(q.valid, 0)
                    if rng.random() < 0.3:
                        setv(qh.dw0, rng.getrandbits(32)); setv(qh.dw2, rng.getrandbits(32))
            yield

    def data_driver():
        n = 0
        left = rng.randint(1, 6)
        zlp = 0
        setv(ds.valid, 0xF); setv(ds.data, 0); setv(ds.last, left == 1)
        while True:
            if b.get(ds.ready) and b.get(ds.valid):
                n += 1
                left -= 1
                if left == 0:
                    left = rng.randint(1, 6)
                    if rng.random() < 0.2:
                        zlp = rng.randint(20, 60)
            if zlp > 0:
                zlp -= 1
                setv(ds.valid, 0)
            else:
                last = left == 1
                setv(ds.valid, rng.choice([0x1, 0x3, 0x7, 0xF]) if last else 0xF)
                setv(ds.last, last)
                setv(ds.data, (0xD0000000 + n) & 0xFFFFFFFF)
            yield

    def lrty_driver():
        setv(dut.lrty_pending, 0)
        while True:
            if st["in_reset"]:
                setv(dut.lrty_pending, 0)
                st["lrty_left"] = 0
            elif b.get(dut.retry_required):
                st["lrty_left"] = rng.randint(*cur["P"]["lrty"])
                setv(dut.lrty_pending, 1)
            elif st["lrty_left"] > 0:
                st["lrty_left"] -= 1
                if st["lrty_left"] == 0:
                    setv(dut.lrty_pending, 0)
                    st["lrty_fell"] = b.cycle
            yield

    def set_enable(val):
        setv(dut.enable, val)
        st["enable"] = val
        trace("ENABLE", val)
        # the DUT sees the new value from the next edge on: the epoch starts / ends there
        cur["orc"].enable(b.cycle + 1, val)

    def wait_sink_quiet():
        st["hold_sink"] = True
        n = 0
        while (st["sink_busy"] or b.cycle - st["last_cmd_cycle"] < 4) and n < 50:
            n += 1
            yield
        yield

    def session(number):
        P = cur["P"] = draw_profile(rng)
        res.sig(sorted((k, str(v)) for k, v in P.items()))
        if len(res.desc["sessions"]) < 4:
            res.desc["sessions"].append(P)
        # hard reset: every register of the transmitter back to its initial value
        new_state()
        setv(dut.enable, 0)
        setv(top.rst, 1)
        yield
        yield
        setv(top.rst, 0)
        yield
        orc = cur["orc"] = Oracle(res, reported, "buffer_count %d session %d (%s) " % (nbuf, number, P["profile"]), nbuf)
        res.bin("buffer_count_%d" % nbuf)
        partner = cur["partner"] = Partner()
        st["in_reset"] = False
        trace("SESSION", number, P)
        for _ in range(rng.randint(1, 5)):
            yield
        for epoch in range(P["epochs"]):
            if epoch >= 1:
                res.bin("epoch_2plus")
            st["abort_at"] = None
            st["offered"] = 0
            set_enable(1)
            st["hold_sink"] = False
            partner.start_epoch(b.cycle)
            st["offering"] = True
            budget = P["target"] * 140 + 1200
            if rng.random() < 0.25:
                st["abort_at"] = b.cycle + rng.randint(100, 1500)      # the link goes to recovery at an arbitrary moment
            t0 = b.cycle
            aborted = False
            while b.cycle - t0 < budget and not orc.tainted:
                if st["abort_at"] is not None and b.cycle >= st["abort_at"]:
                    aborted = True
                    break
                if st["offered"] >= P["target"] and orc.quiet() and not partner.sched:
                    break
                if P["p_spurious_lbad"] and rng.random() < P["p_spurious_lbad"]:
                    partner.spurious(b.cycle)
                yield
            st["offering"] = False
            # let things settle: pending commands go out, owed headers are transmitted (bounded)
            n = 0
            while n < (100 if aborted else 600) and not orc.tainted and not (
                    orc.quiet() and not partner.sched and not b.get(src.valid) and not b.get(q.valid) and st["lrty_left"] == 0):
                n += 1
                yield
            for _ in range(rng.randint(4, 30)):
                yield
            yield from wait_sink_quiet()
            set_enable(0)
            partner.sched = []
            # recovery takes far longer than a packet: whatever was on the wire has drained before the link is up again
            for _ in range(rng.randint(3, 40)):
                yield
            n = quiet = 0
            while quiet < 3 and n < 300:
                quiet = 0 if b.get(src.valid) else quiet + 1
                n += 1
                yield
        for _ in range(10):
            yield
        orc.finish()
        st["in_reset"] = True

    def main():
        for number in range(n_sessions):
            yield from session(number)

    b.add_driver(main(), main=True)
    b.add_driver(sink_driver(), main=False)
    b.add_driver(ready_driver(), main=False)
    b.add_driver(queue_driver(), main=False)
    b.add_driver(data_driver(), main=False)
    b.add_driver(lrty_driver(), main=False)
    b.run()
    if b.hit_max_cycles:
        res.violation("case_did_not_finish", "harness bound of %d cycles reached" % max_cycles)
    res.cycles = b.cycle
    res.nontrivial = bool(res.bins.get("queue_valid_without_credit") and res.events.get("headers_on_wire", 0) >= 10
                          and (res.bins.get("lbad_unacked_2") or res.bins.get("lbad_unacked_3plus")))
