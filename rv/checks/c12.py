"""C12 — non-control endpoints act only on tokens for their own endpoint number and direction.

DUT: real ``USBDevice(bus=UTMIInterface())`` (12 MHz tables; ~15 % of the cases with the 60 MHz full-speed tables)
with the standard control endpoint plus a random layout of ``USBStreamInEndpoint`` / ``USBStreamOutEndpoint`` (same
and different numbers, numbers differing in one bit, random max packet sizes, random multiplexer order) and one
``USBSignalInEndpoint``; several endpoint numbers / directions are left unpopulated.

Workload (rv/ref/c12_endpoints.Session + this file): 30-50 transactions per session, uniformly interleaved over
all endpoints, with the fault operators of the single-endpoint properties: host ACK withheld / damaged (bad PID
check nibble, over-long) followed by a retry *after* traffic to other endpoints, OUT data with bad CRC16 /
truncated / missing, repeated and wrong toggles, PING, tokens to unpopulated numbers and to the wrong direction
of a populated number, transactions to a foreign device address (including the host ACK of another device's data),
control transfers on endpoint 0 (GET_DESCRIPTOR / GET_STATUS / GET_CONFIGURATION) and SOFs in between, all UTMI
rx gap and tx_ready profiles, stalled OUT consumers and starved IN streams.  Directed patterns put a complete
transaction of another endpoint exactly between a failed transaction and its retry.

Monitors: (1) host-side capture of every device packet; (2) per-endpoint spy on ``interface.tx.valid`` and
``interface.handshakes_out.{ack,nak,stall}`` of every non-control endpoint object; (3) the byte streams entering the
IN endpoints and leaving the OUT endpoints.

Oracle (projection): one independent reference model per endpoint (packetiser + toggle for stream IN; toggle +
delivered-bytes for stream OUT; toggle + value for the signal endpoint) which is advanced *only* by the
transactions the host addressed to that endpoint.  Every response, PID, payload and the delivered byte streams
must equal the prediction of the endpoint's own model, tokens without endpoint / for other addresses must stay
unanswered, and spy (2) must never see an endpoint drive tx.valid or request a handshake while the last good
token addressed to the device does not carry its number and direction.

OUT stream framing (first/last of every delivered byte) is part of the projected history as well, judged by
*non-interference*: per session one OUT endpoint (the focus, consumer always ready) has its own transactions recorded
(packets, byte gaps, lead-in) and replayed alone on a second, fresh, identically configured device; the delivered
(byte, first, last) sequences must be identical (`out_framing_depends_on_other_endpoint_traffic`).  This keeps C12
independent of the single-endpoint first/last rules (C13 and its open findings).  A directed pattern sends B foreign data
bytes (other OUT endpoints, unpopulated numbers, other addresses, SETUP data) between two own packets with
(B + L) % mps == 0 for a short packet of length L, or B % mps != 0 before a full packet.

Not judged: behaviour of the control endpoint itself (C07-C10), response latency beyond generous windows,
single-endpoint first/last rules of the OUT stream (C13), flush/discard of the IN stream (C11).  OUT endpoints are built
with buffer_size in {default, mps, mps+1, 2*mps, 3*mps}; on a held consumer full packets are sent until the endpoint NAKs
(overflow), then a PING and transactions to OTHER endpoints follow (their tokens end the overflow state), then a retry:
NAK => nothing delivered and the same toggle still expected, ACK => delivered exactly once.  Whether ACK or NAK is the
right answer for a given fill level is C13's subject.
Known finding (findings/C12.md): `in_advanced_by_ack_to_other_device` - the only mechanism name that is produced when an
un-ACKed IN endpoint advances right after the host ACKed a transaction of another device *address* and no token for
this device was sent in between; every other deviation keeps its own mechanism name.
Deviation from DESIGN.md: CLEAR_FEATURE traffic is left to C14 (same harness) so that the two properties have
disjoint known findings.
"""
from rv.ref import usb2 as U

PROPERTY = "C12"
CASES = {"quick": 240, "thorough": 3600}
RULE = ("case = one session on a device with 4-6 non-control endpoints (random layout / packet sizes / mux order / "
        "UTMI profiles): 30-50 transactions interleaved over all endpoints incl. unpopulated and foreign-address "
        "targets, with withheld/damaged ACKs, damaged OUT data, wrong toggles and directed 'other endpoint between "
        "failure and retry' patterns; non-trivial = retry across foreign traffic and >=3 endpoints active; "
        "distinct = hash of configuration + transaction list")
REQUIRED_BINS = ["in_retry_across_foreign_ack", "in_retry_across_same_number_out", "out_retry_across_foreign_traffic",
                 "out_no_data_then_other_endpoint", "token_to_absent_number", "token_to_wrong_direction", "foreign_address_in_acked",
                 "foreign_address_out", "in_ack_withheld_silent", "in_ack_withheld_damaged", "out_damaged_data",
                 "out_wrong_toggle_sent", "sig_between_stream_transactions", "control_transfer_between", "in_zlp",
                 "absent_number_one_bit_from_populated", "fs60_session", "ping_nak",
                 "foreign_ack_while_waiting_for_ack", "out_bytecount_alias_pattern",
                 "out_nak_buffer_full", "foreign_token_after_out_overflow", "out_retry_after_nak_accepted", "out_buffer_size_mps",
                 "out_buffer_size_default", "out_buffer_size_large"]
REQUIRED_EVENTS = ["ep_tx_valid_cycles", "ep_handshake_requests", "in_data_packets", "in_acked", "in_naks", "out_acked_new",
                   "out_delivery_checks", "in_stream_bytes_accepted", "out_stream_bytes_delivered", "sig_transactions",
                   "tokens_without_endpoint", "ping_transactions", "out_framing_replays", "out_framing_beats_compared",
                   "out_framing_first_flags", "out_framing_last_flags"]
ASSUMPTIONS = ["legal host: one transaction at a time, waits for the response or a timeout, handshake within the turn-around time or not at all",
               "a NAK to IN is accepted unless the next packet has been complete for >= 25 cycles (60 at the 60 MHz tables)",
               "the control endpoint's own responses are not judged here",
               "CLEAR_FEATURE(ENDPOINT_HALT) traffic is exercised in C14",
               "OUT buffer overflow is only provoked on a held consumer; there ACK (=> delivered once, toggle advances) and NAK (=> nothing delivered, same toggle expected again) are both accepted; whether the choice is right is C13's subject"]


def run_case(rng, tier, res):
    from rv.ref.c12_endpoints import Session
    s = Session(rng, res, tier=tier)
    if s.fs60:
        res.bin("fs60_session")
    for n, size in s.cfg["out_buffer"].items():
        res.bin("out_buffer_size_" + {None: "default", "mps": "mps", "mps+1": "mps", "2mps": "large", "3mps": "large"}[size])
    ins = [k for k, m in s.models.items() if m.kind == "in"]
    outs = [k for k, m in s.models.items() if m.kind == "out"]
    sig = (s.sig_number, "in")
    in_numbers = {k[0] for k in ins} | {s.sig_number}
    out_numbers = {k[0] for k in outs}
    populated = in_numbers | out_numbers
    wrong_dir = [(n, "in") for n in out_numbers - in_numbers] + [(n, "out") for n in in_numbers - out_numbers]
    absent = [n for n in s.absent if n not in populated]
    one_bit = [n for n in absent if any(bin(n ^ p).count("1") == 1 for p in populated)]
    state = {"last": None, "unacked": {}, "out_failed": {}}
    # the OUT endpoint whose stream framing is judged by non-interference (own transactions replayed alone)
    focus = rng.choice(outs)
    s.set_focus(focus)
    active = set()

    def note(key):
        """bookkeeping for interleaving bins; key = endpoint touched by a complete transaction"""
        for k, (acks, same_out) in list(state["unacked"].items()):
            if key != k and key[0] == k[0] and key[1] == "out":
                state["unacked"][k] = (acks, True)
        for k in list(state["out_failed"]):
            if key != k:
                state["out_failed"][k] = True
        if state["last"] is not None and state["last"] != key and key == sig:
            res.bin("sig_between_stream_transactions")
        state["last"] = key
        active.add(key)

    def do_in(key, mode=None):
        m = s.models[key]
        if mode is None:
            mode = rng.choice(["ack"] * 6 + ["none", "none", "bad_pid", "overlong"])
        was_unacked = m.unacked
        if was_unacked and key in state["unacked"]:
            acks, same_out = state["unacked"][key]
            if s.host_acks > acks:
                res.bin("in_retry_across_foreign_ack")
            if same_out:
                res.bin("in_retry_across_same_number_out")
        info = yield from s.op_in(key[0], mode)
        note(key)
        if m.unacked:
            if not was_unacked:
                state["unacked"][key] = (s.host_acks, False)
        else:
            state["unacked"].pop(key, None)
        return info

    def do_out(key, **kw):
        m = s.models[key]
        if "choice" not in kw:
            kw["choice"] = rng.choice(["expected"] * 6 + ["repeat", "repeat", "other"])
        if "fault" not in kw:
            kw["fault"] = rng.choice([None] * 8 + ["crc", "crc", "truncate", "no_data"])
        if state["out_failed"].get(key):
            res.bin("out_retry_across_foreign_traffic")
        info = yield from s.op_out(key[0], **kw)
        if kw["fault"]:
            state["out_failed"].setdefault(key, False)
        else:
            state["out_failed"].pop(key, None)
        note(key)
        return info

    def other_traffic(avoid, must_ack=False):
        """one complete transaction that does not address `avoid`"""
        choices = []
        for k in ins:
            if k != avoid and (s.models[k].pending() or not must_ack):
                choices.append(("in", k))
        for k in outs:
            if k != avoid and not must_ack:
                choices.append(("out", k))
        choices.append(("sig", sig))
        choices.append(("ctl", None))
        choices.append(("foreign", None))
        kind, k = rng.choice(choices)
        if kind == "in":
            yield from do_in(k, "ack")
        elif kind == "out":
            yield from do_out(k, fault=None)
        elif kind == "sig":
            yield from do_in(sig, "ack")
        elif kind == "ctl":
            yield from control()
        else:
            yield from foreign("in")

    def control():
        pick = rng.randrange(4)
        if pick == 0:
            setup = U.setup_bytes(0x80, 6, 0x0100, 0, rng.choice([8, 18, 64]))
        elif pick == 1:
            setup = U.setup_bytes(0x80, 0, 0, 0, 2)
        elif pick == 2:
            setup = U.setup_bytes(0x80, 8, 0, 0, 1)
        else:
            setup = U.setup_bytes(0x82, 0, 0, rng.choice(sorted(populated)) | rng.choice([0, 0x80]), 2)
        yield from s.op_control(setup)
        res.bin("control_transfer_between")
        state["last"] = (0, "ctl")

    def foreign(direction):
        a = rng.choice([x for x in (1, 5, 64, 127, s.addr ^ 1, s.addr ^ 0x40, 0) if x != s.addr])
        n = rng.choice(sorted(populated))
        if direction == "in":
            yield from s.op_in(n, "ack", addr=a)
            res.bin("foreign_address_in_acked")
        else:
            yield from s.op_out(n, addr=a, length=rng.randint(0, 8))
            res.bin("foreign_address_out")
        state["last"] = (n, "foreign")

    def absent_token():
        r = rng.random()
        if r < 0.5 and absent:
            n = rng.choice(one_bit) if one_bit and rng.random() < 0.6 else rng.choice(absent)
            if n in one_bit:
                res.bin("absent_number_one_bit_from_populated")
            res.bin("token_to_absent_number")
            k = rng.choice(["in", "out", "ping"])
        elif wrong_dir:
            n, k = rng.choice(wrong_dir)
            res.bin("token_to_wrong_direction")
            if k == "out" and rng.random() < 0.3:
                k = "ping"
        else:
            return
        if k == "in":
            yield from s.op_in(n, "ack")
        elif k == "out":
            # data that the same-numbered / neighbouring OUT endpoint would accept
            yield from s.op_out(n, length=rng.randint(0, 8))
        else:
            yield from s.op_ping(n)
        state["last"] = (n, "absent")

    def bytecount_pattern():
        """Directed: between two own packets of the focus endpoint A the host sends B data bytes elsewhere such that a
        per-packet byte counter that (wrongly) also counts foreign bytes mistakes A's short packet for a full one
        ((B + L) % mps == 0), or a full packet for a short one (B % mps != 0)."""
        A = focus
        m = s.models[A]
        M = m.mps
        yield from do_out(A, choice="expected", fault=None)            # own commit: bookkeeping starts from zero
        yield from s.gap()
        if rng.random() < 0.7:
            L = rng.randint(1, M - 1)
            B = (M - L) + M * rng.choice([0, 0, 1])
        else:
            L = M
            B = rng.randint(1, 2 * M - 1)
            if B % M == 0:
                B += 1
        remaining = B
        others = [k for k in outs if k != A and not s.consumer_hold.get(k)]
        while remaining > 0:
            kinds = ["absent", "absent", "foreign"] + (["other", "other", "other"] if others else []) + (["setup"] if remaining >= 8 else [])
            kind = rng.choice(kinds)
            if kind == "other":
                k = rng.choice(others)
                n = min(remaining, s.models[k].mps)
                yield from do_out(k, choice="expected", fault=None, length=n)
            elif kind == "absent":
                n = min(remaining, 64)
                cands = absent + [k[0] for k in wrong_dir if k[1] == "out"]
                yield from s.op_out(rng.choice(cands), length=n)
            elif kind == "foreign":
                n = min(remaining, 64)
                a = rng.choice([x for x in (1, 5, 64, 127) if x != s.addr])
                yield from s.op_out(rng.choice(sorted(populated)), addr=a, length=n)
            else:
                n = 8                                                       # the 8 data bytes of a SETUP transaction
                yield from s.op_control(U.setup_bytes(0x80, 0, 0, 0, 2))
            remaining -= n
            yield from s.gap()
        yield from do_out(A, choice="expected", fault=None, length=L)
        yield from s.gap()
        yield from do_out(A, choice="expected", fault=None, length=rng.randint(1, M))   # start of the next transfer
        res.bin("out_bytecount_alias_pattern")

    def driver():
        yield from s.start()
        if rng.random() < 0.5:
            new = rng.choice([1, 2, 0x55, 0x7F, 0x40])
            r = yield from s.op_control(U.setup_bytes(0x00, 5, new, 0, 0))
            if r["completed"]:
                s.addr = new
            yield from s.host.idle(6)
        if rng.random() < 0.5:
            yield from s.op_control(U.setup_bytes(0x00, 9, 1, 0, 0))
        frame = rng.randrange(2048)
        n_ops = rng.randint(30, 50)
        i = 0
        while i < n_ops:
            i += 1
            r = rng.random()
            if rng.random() < 0.07:
                yield from bytecount_pattern()
                i += 3
                yield from s.gap()
                continue
            if r < 0.16:
                # directed: failed IN on A, complete transaction(s) elsewhere, retry on A
                key = rng.choice(ins + [sig])
                info = yield from do_in(key, rng.choice(["none", "bad_pid", "overlong"]))
                yield from s.gap()
                for _ in range(rng.randint(1, 3)):
                    same_out = (key[0], "out")
                    if same_out in s.models and rng.random() < 0.4:
                        yield from do_out(same_out, fault=None)
                    else:
                        yield from other_traffic(key, must_ack=rng.random() < 0.7)
                    yield from s.gap()
                yield from do_in(key, "ack")
                i += 2
            elif r < 0.26:
                # directed: failed OUT on A (token only / damaged data), traffic elsewhere, retry on A
                key = rng.choice(outs)
                fault = rng.choice(["no_data", "no_data", "crc", "truncate"])
                yield from do_out(key, choice="expected", fault=fault)
                yield from s.gap()
                if fault == "no_data":
                    res.bin("out_no_data_then_other_endpoint")
                    # the next data packet belongs to another endpoint and carries the toggle A expects
                    others = [k for k in outs if k != key]
                    if others and rng.random() < 0.6:
                        yield from do_out(rng.choice(others), choice="expected", fault=None)
                    else:
                        yield from other_traffic(key)
                else:
                    yield from other_traffic(key)
                yield from s.gap()
                yield from do_out(key, choice="expected", fault=None)
                i += 2
            elif r < 0.48:
                yield from do_in(rng.choice(ins))
            elif r < 0.68:
                yield from do_out(rng.choice(outs))
            elif r < 0.75:
                s.set_signal(rng.getrandbits(32)) if not s.models[sig].unacked else None
                yield from do_in(sig)
            elif r < 0.80:
                key = rng.choice(outs + wrong_dir[:1])
                if key in s.models and s.models[key].kind == "out":
                    yield from s.op_ping(key[0])
                    note(key)
                else:
                    yield from absent_token()
            elif r < 0.88:
                yield from absent_token()
            elif r < 0.93:
                yield from foreign(rng.choice(["in", "in", "out"]))
            elif r < 0.95:
                yield from control()
            elif r < 0.96:
                frame = (frame + 1) % 2048
                yield from s.op_sof(frame)
            else:
                # stall / release an OUT consumer, hold / release an IN feeder
                stallable = [k for k in outs if k != focus]
                if stallable and rng.random() < 0.7:
                    # buffer-full NAK on endpoint k; a token for ANOTHER endpoint then ends its overflow state; retry
                    k = rng.choice(stallable)

                    def elsewhere():
                        yield from s.op_ping(k[0])
                        yield from s.gap()
                        for _ in range(rng.randint(1, 2)):
                            yield from other_traffic(k)
                            yield from s.gap()
                        res.bin("foreign_token_after_out_overflow")
                    yield from s.nak_pattern(k, between=elsewhere)
                    note(k)
                elif ins:
                    k = rng.choice(ins)
                    s.feed_hold[k] = not s.feed_hold.get(k)
            yield from s.gap()
        yield from s.reveal()

    s.b.add_driver(driver())
    s.b.run()
    if not s.b.hit_max_cycles:
        s.check_framing_noninterference()
    s.finish()
    res.nontrivial = bool(res.bins.get("in_retry_across_foreign_ack")) and len(active) >= 3
