"""C11 - bulk/interrupt IN endpoints deliver the input stream exactly once, in order.

DUTs (two harnesses, chosen per case):
  A "manager" (about 70 % of the cases): luna USBInTransferManager stand-alone, max packet size 8/16/32/64 (and a few odd
     sizes), generate_zlps=1 as USBStreamInEndpoint wires it.  The harness plays the three neighbours of the block:
     the token detector (new_token / is_in / ready_for_response pulses, `active` following the token's endpoint), the
     data packet generator that consumes packet_stream (ready low while idle and while the PID is sent, then any
     tx_ready pattern, a ZLP is `valid & last` without `first`), and the handshake detector (`handshakes_in.ack`).
  B "device": real USBDevice(bus=UTMIInterface()) with one or two USBStreamInEndpoint (different endpoint numbers and
     packet sizes), driven on the UTMI side by the USB2 host model; everything is judged from the bytes on the wire
     (PID, payload, CRC16 decoded by the reference codec).

Workload: input stream of position-tagged bytes cut into transfers whose lengths are aimed at the packet size (1, mps-1, mps,
mps+1, k*mps, random), `last` markers, valid gaps (full rate, sparse, bursty, the completing byte aimed at the cycle of the
host's ACK), flush (never / pulses / long / always / aimed at the ACK); host: IN tokens at eager, lazy and bursty times, every
packet is ACKed, ignored ("host saw garbage": no ACK, toggle kept) or accepted with the ACK lost (host toggled, device did
not see it), then retried; tokens for other endpoints / OUT tokens / SOFs in between, ACKs that belong to another endpoint's
transaction; traffic for another device address (device harness: real tokens and the host's ACK; manager harness: the token
detector's view of it, PID cleared without new_token, then an ACK).  At the end flush is held and the host
polls until the endpoint only NAKs.

Oracle: rv/ref/c11_inmodel.py (host-side reassembly that takes every DATA0/DATA1 toggle once): accepted bytes == input bytes
in order; packet <= mps; no `last` inside a packet; a transfer ending on a full packet is followed by exactly one ZLP; short
packets only at `last` or where flush was high; a packet that was not ACKed is repeated with the same PID and payload; the PID
toggles after an ACK; an IN token is answered by exactly one of data / NAK, never by silence, and nothing is sent without an
IN token for this endpoint; everything accepted is delivered once the stream is flushed and drained.

discard (audit follow-up): between transactions `discard` is raised for 1..90 cycles while the producer keeps streaming, sometimes with
an IN token in the middle.  Reference meaning (the documented one): everything accepted and not yet acknowledged is dropped, a
byte accepted in a cycle in which discard is sampled high is dropped, an owed ZLP is dropped, no packet is sent while it is high;
afterwards the stream is again delivered exactly once, in order, with the toggle the host expects.  This is decidable only while no
packet is outstanding un-ACKed (otherwise host and device cannot agree on the toggle whatever the device does): such episodes are
generated too (40 %), but then only hangs / silence are judged.  discard is not raised between an IN token and the end of the
packet it triggers (the block has no defined behaviour there; not in the property's quantifier).
transfer_stream.ready (audit follow-up): bounded progress - an offered byte must be taken within 24 cycles whenever at most one
packet (complete packet, un-ACKed ZLP or owed ZLP) is un-acknowledged, judged when flush was never used (flush cuts make the packet
structure ambiguous) or when nothing at all is pending.
Configurations: max packet size 8/16/32/64/512 (+ odd sizes stand-alone), device harness with 12 MHz (70 %) and 60 MHz (30 %) tables.

Not judged: `reset_sequence`/`start_with_data1` (held low: the statement does not mention toggle reset, C14 judges it), discard in
the middle of a packet, how soon data becomes available after it was accepted (a NAK is a violation only 16 cycles after a complete
packet was accepted; the final drain is bounded), payload stability while the transmitter stalls.
"""
from rv.sim import Bench
from rv.ref.c11_inmodel import InOracle

PROPERTY = "C11"
CASES = {"quick": 720, "thorough": 12000}
RULE = ("case = harness (stand-alone transfer manager | USBDevice with 1-2 stream IN endpoints), max packet size, tx_ready profile, "
        "producer profile (transfer lengths around multiples of the packet size, valid gaps), flush profile, host schedule of 25-70 "
        "transactions with ACK / no-ACK / lost-ACK outcomes and foreign tokens; non-trivial = at least one retry, one ZLP or flushed "
        "partial packet and >= 8 accepted packets; distinct = hash of configuration, stream and schedule")
REQUIRED_BINS = ["retry", "retry_while_other_buffer_fills", "zlp_after_full_packet", "flushed_partial_packet", "short_packet_ends_transfer",
                 "full_packet_ends_transfer", "host_discards_duplicate", "host_saw_garbage", "lost_ack", "nak_when_empty",
                 "zlp_retry", "input_stalled_both_buffers_full", "token_for_other_endpoint", "ack_for_other_endpoint", "out_token_same_endpoint",
                 "mps_8", "mps_16", "mps_32", "mps_64", "harness_manager", "harness_device", "device_two_endpoints", "tx_stalls",
                 "byte_accepted_on_ack_cycle", "flush_on_ack_cycle", "in_token_while_packet_completes", "single_byte_transfer",
                 "ack_for_other_device", "ack_for_other_device_after_unacked_packet",
                 "mps_512", "device_mps_512", "device_fs60", "discard", "discard_with_packet_ready", "discard_with_unacked_packet",
                 "byte_dropped_during_discard", "last_byte_dropped_on_final_discard_cycle", "in_token_during_discard",
                 "delivery_after_discard", "input_stall_judged"]
REQUIRED_EVENTS = ["input_bytes_accepted", "packets_seen", "host_packets_accepted", "host_bytes_accepted", "naks_seen", "acks_delivered",
                   "in_tokens", "cycles_monitored", "drains_completed"]
ASSUMPTIONS = ["reset_sequence and start_with_data1 are held low; generate_zlps is high (as in USBStreamInEndpoint)",
               "discard is raised only between transactions; its effect is judged by its documented meaning and only while no packet is outstanding un-ACKed",
               "transfer_stream.ready liveness is judged only without flush or when nothing is pending (bound 24 cycles)",
               "the host never sends a token while the device is transmitting and answers only intact packets with ACK",
               "a flush pulse may legitimately be ignored unless it is held: only the final drain (flush held) is a liveness obligation",
               "manager harness: tokens are at least 2 cycles before ready_for_response, ACKs arrive >= 2 cycles after the last payload byte"]


DUE_MARGIN = 16   # cycles between "a complete packet has been accepted" and the IN token from which a NAK is no longer acceptable

# ---------------------------------------------------------------------------------------------- stimulus
def tagged(pos, salt):
    return (pos * 37 + (pos >> 8) * 11 + salt + ((pos >> 3) & 1) * 128) & 0xFF


def make_stream(rng, mps, nbytes, max_packets=36):
    """list of (byte, last, gap_before, aim) ; aim: hold this byte until the host's ACK cycle.  The stream ends after
    about `nbytes` bytes or `max_packets` packets, whichever comes first."""
    salt = rng.randrange(256)
    len_mode = rng.choice(["around_mps", "around_mps", "random", "tiny", "nolast", "multiples", "alllast"])
    gap_mode = rng.choice(["full", "full", "sparse", "bursty", "mixed", "aim"])
    max_packets = rng.randint(min(12, max_packets), max_packets)
    npk = 0
    out = []
    pos = 0
    while pos < nbytes and npk < max_packets:
        if len_mode == "around_mps":
            n = rng.choice([1, 2, mps - 1, mps, mps + 1, 2 * mps - 1, 2 * mps, 2 * mps + 1, 3 * mps, rng.randint(1, 3 * mps)])
        elif len_mode == "random":
            n = rng.randint(1, 4 * mps)
        elif len_mode == "tiny":
            n = rng.choice([1, 1, 2, 3, rng.randint(1, mps)])
        elif len_mode == "multiples":
            n = mps * rng.randint(1, 3)
        elif len_mode == "alllast":
            n = 1 if rng.random() < 0.9 else rng.randint(1, mps + 1)
        else:
            n = nbytes
        burst = 0
        mark_last = len_mode != "nolast"
        if not mark_last:
            n = min(nbytes - pos, max_packets * mps)
        npk += n // mps + 1
        for i in range(n):
            last = mark_last and (i == n - 1)
            if gap_mode == "full":
                g = 0 if rng.random() < 0.97 else rng.randint(1, 4)
            elif gap_mode == "sparse":
                g = rng.randint(0, 12)
            elif gap_mode == "bursty":
                if burst == 0:
                    g = rng.randint(5, 6 * mps)
                    burst = rng.randint(1, 2 * mps)
                else:
                    g = 0
                burst -= 1
            elif gap_mode == "mixed":
                g = rng.choice([0, 0, 0, 0, 1, 2, 5, rng.randint(0, 40)])
            else:
                g = 0 if rng.random() < 0.9 else rng.randint(1, 6)
            completing = last or ((i + 1) % mps == 0)
            aim = gap_mode == "aim" and completing and rng.random() < 0.7
            out.append((tagged(pos, salt), last, g, aim))
            pos += 1
    return out, len_mode, gap_mode


def producer(b, rng, stream_sigs, items, st, res):
    """drives a StreamInterface (valid, ready, payload, first, last) with `items`; st['aim_cycle'] is the cycle at which the
    host's ACK is expected to be seen by the endpoint."""
    valid, ready, payload, first, last = stream_sigs
    yield
    newxfer = True
    for (v, l, g, aim) in items:
        if aim:
            n = 0
            jitter = rng.choice([-1, 0, 0, 0, 1])
            # wait (bounded) for the host to schedule an ACK, then until that cycle; if no ACK is coming (the endpoint is
            # empty and this very byte is what it is waiting for) give up after a short while
            while n < 400 and not st.get("stop_producer"):
                ac = st.get("aim_cycle")
                if ac is None:
                    if n >= 40:
                        break
                elif b.cycle + 1 >= ac + jitter:
                    break
                n += 1
                yield
            st["aim_cycle"] = None
        else:
            for _ in range(g):
                if st.get("stop_producer"):
                    break
                yield
        if st.get("stop_producer"):
            break
        b.set(valid, 1); b.set(payload, v); b.set(last, l); b.set(first, newxfer and rng.random() < 0.8)
        n = 0
        stopped = False
        while True:
            yield
            if b.get(valid) and b.get(ready):
                break
            n += 1
            if n == 40:
                res.bin("input_stalled_both_buffers_full")
            if st.get("stop_producer"):
                stopped = True
                break
        b.set(valid, 0)
        if stopped:
            break
        newxfer = bool(l)
        if rng.random() < 0.3:
            b.set(payload, rng.randrange(256)); b.set(last, rng.random() < 0.5)
    st["producer_done"] = True


def flusher(b, rng, flush_sig, mode, st):
    """flush profile; in the drain phase (st['drain']) flush is held."""
    yield
    while True:
        if st.get("drain"):
            b.set(flush_sig, 1)
            yield
            continue
        if mode == "never":
            b.set(flush_sig, 0)
            yield
        elif mode == "always":
            b.set(flush_sig, 1)
            yield
        elif mode in ("pulses", "rare"):
            for _ in range(rng.randint(3, 60) if mode == "pulses" else rng.randint(100, 900)):
                if st.get("drain"):
                    break
                yield
            b.set(flush_sig, 1)
            for _ in range(rng.choice([1, 1, 1, 2, 3, 8])):
                yield
            b.set(flush_sig, 0)
        elif mode == "long":
            for _ in range(rng.randint(20, 400)):
                if st.get("drain"):
                    break
                yield
            b.set(flush_sig, 1)
            for _ in range(rng.randint(20, 300)):
                yield
            b.set(flush_sig, 0)
        else:   # "aim": a one-cycle flush on (or next to) the cycle of the ACK
            if st.get("aim_flush") is not None and b.cycle + 1 >= st["aim_flush"]:
                b.set(flush_sig, 1)
                st["aim_flush"] = None
                yield
                b.set(flush_sig, 0)
            else:
                yield


READY_WAIT = 24   # cycles an offered byte may wait although the double buffer has room


def input_side(orc, st, res, cyc, v, r, payload, last, discard, flush_never):
    """Common input-stream bookkeeping of both harnesses: discard episodes, accepted / dropped bytes, ready liveness."""
    if discard:
        if not st.get("in_discard"):
            st["in_discard"] = True
            if not orc.on_discard():
                res.unjudged += 1
        st["discard_cycles"] = st.get("discard_cycles", 0) + 1
    elif st.get("in_discard"):
        st["in_discard"] = False
        if st.get("last_dropped_cycle") == cyc - 1 and st.get("last_dropped_was_last"):
            res.bin("last_byte_dropped_on_final_discard_cycle")
            orc.end_flag_suspect = True
            orc.end_flag_cycle = cyc
    accepted = False
    if v and r:
        if discard:
            res.bin("byte_dropped_during_discard")
            st["last_dropped_cycle"] = cyc
            st["last_dropped_was_last"] = bool(last)
        else:
            orc.on_input(payload, last, cyc)
            accepted = True
        st["wait"] = 0
    elif v and not discard:
        w = st["wait"] = st.get("wait", 0) + 1
        if w == READY_WAIT and not orc.dead and not st.get("ack_pending") and cyc - st.get("last_ack_cycle", -99) >= READY_WAIT:
            nothing = orc.dev_len >= len(orc.inp) and not orc._zlp_owed_to_device() and (orc.prev is None or orc.prev["dev_acked"])
            if flush_never or nothing:
                res.bin("input_stall_judged")
                if orc.has_room() and (orc.prev is None or orc.prev["dev_acked"] or flush_never):
                    res.violation("discarded_last_byte_leaves_end_flag" if orc.end_flag_suspect else "input_stalled_although_buffer_space", "cyc=%d transfer_stream.valid has been high for %d cycles without ready although at most "
                                  "one packet is un-acknowledged (accepted %d, acknowledged %d, mps %d)" % (cyc, w, len(orc.inp), orc.dev_len, orc.mps))
    else:
        st["wait"] = 0
    return accepted


def choose_outcome(rng, host_mode):
    r = rng.random()
    if host_mode == "clean":
        return "ack" if r < 0.93 else ("none" if r < 0.97 else "lost")
    if host_mode == "flaky":
        return "ack" if r < 0.5 else ("none" if r < 0.75 else "lost")
    return "ack" if r < 0.8 else ("none" if r < 0.9 else "lost")


def gap_cycles(rng, pace, mps):
    if pace == "eager":
        return rng.randint(2, 8)
    if pace == "lazy":
        return rng.randint(10, 30 + 2 * mps)
    if pace == "bursts":
        return rng.choice([2, 3, 3, 5, rng.randint(60, 500)])
    return rng.randint(2, 80)


# ---------------------------------------------------------------------------------------------- harness A
def run_manager(rng, tier, res):
    from luna.gateware.usb.usb2.transfer import USBInTransferManager
    res.bin("harness_manager")
    mps = rng.choice([8, 8, 8, 16, 16, 16, 32, 32, 64, 64, rng.choice([1, 2, 3, 5, 13]), rng.choice([1, 2, 3, 5, 13]), 512])
    if mps in (8, 16, 32, 64, 512):
        res.bin("mps_%d" % mps)
    if mps == 512:
        nbytes = rng.randint(2 * mps, 5 * mps)
        items, len_mode, gap_mode = make_stream(rng, mps, nbytes, max_packets=14)
    else:
        nbytes = rng.randint(6 * mps, 22 * mps) if mps >= 8 else rng.randint(20, 80)
        items, len_mode, gap_mode = make_stream(rng, mps, min(nbytes, 900))
    discard_p = rng.choice([0, 0, 0.06, 0.12])
    flush_mode = rng.choice(["never", "never", "never", "pulses", "rare", "long", "always", "aim"])
    ready_prof = rng.choice(["always", "always", ("random", rng.choice([0.3, 0.6, 0.9])), ("every", rng.randint(2, 5)),
                             ("bursty", rng.randint(2, 15), rng.randint(1, 8))])
    host_mode = rng.choice(["clean", "normal", "normal", "flaky"])
    pace = rng.choice(["eager", "eager", "lazy", "bursts", "mixed"])
    dut = USBInTransferManager(mps)
    b = Bench(dut, domain="usb", freq=60e6, max_cycles=90000)
    ts, ps, tk = dut.transfer_stream, dut.packet_stream, dut.tokenizer
    sigs = [ts.valid, ts.ready, ts.payload, ts.first, ts.last, ps.valid, ps.ready, ps.payload, ps.first, ps.last, dut.data_pid,
            dut.flush, dut.active, tk.is_in, tk.ready_for_response, tk.new_token, dut.handshakes_in.ack, dut.handshakes_out.nak,
            dut.handshakes_out.ack, dut.handshakes_out.stall, dut.discard]
    b.watch(*sigs)
    res.desc = {"harness": "manager", "mps": mps, "bytes": len(items), "lengths": len_mode, "gaps": gap_mode, "flush": flush_mode,
                "tx_ready": ready_prof, "host": host_mode, "pace": pace, "discard_p": discard_p, "schedule": []}
    res.sig("A", mps, items, flush_mode, ready_prof, host_mode, pace, discard_p)
    orc = InOracle(mps, res.violation, res.bin, "manager")
    st = {"cons": "IDLE", "cur": None, "pid_wait": 0, "packets": [], "naks": [], "window_until": -1, "aim_cycle": None, "aim_flush": None,
          "burst": 0, "since_input": 999, "last_tok_in_ours": False}

    def draw_ready():
        p = ready_prof
        if p == "always":
            return 1
        if p[0] == "random":
            return 1 if rng.random() < p[1] else 0
        if p[0] == "every":
            return 1 if b.cycle % p[1] == 0 else 0
        # bursty
        if st["burst"] == 0:
            st["burst"] = -rng.randint(1, p[1]) if rng.random() < 0.5 else rng.randint(1, p[2])
        if st["burst"] < 0:
            st["burst"] += 1
            return 0
        st["burst"] -= 1
        return 1

    def monitor(b):
        res.event("cycles_monitored")
        g = b.get
        cyc = b.cycle
        # input side
        if input_side(orc, st, res, cyc, g(ts.valid), g(ts.ready), g(ts.payload), g(ts.last), g(dut.discard), flush_mode == "never"):
            res.event("input_bytes_accepted")
            st["since_input"] = 0
            if g(dut.handshakes_in.ack):
                res.bin("byte_accepted_on_ack_cycle")
            if st.get("retrying"):
                res.bin("retry_while_other_buffer_fills")
            if g(ts.last) and (len(orc.inp) - 1 == 0 or (len(orc.inp) - 1) in orc.lasts):
                res.bin("single_byte_transfer")
        else:
            st["since_input"] += 1
        if g(dut.flush):
            orc.on_flush(cyc)
            if g(dut.handshakes_in.ack):
                res.bin("flush_on_ack_cycle")
        # token / response window
        if g(tk.ready_for_response) and g(tk.is_in) and g(dut.active):
            st["window_until"] = cyc + 4
            st["rfr_cycle"] = cyc
            if st["since_input"] <= 1:
                res.bin("in_token_while_packet_completes")
        nak = g(dut.handshakes_out.nak)
        if nak:
            res.event("naks_seen")
            st["naks"].append(cyc)
            if cyc > st["window_until"]:
                res.violation("nak_without_in_token", "cyc=%d handshakes_out.nak without an IN token for this endpoint" % cyc)
        if g(dut.handshakes_out.ack) or g(dut.handshakes_out.stall):
            res.violation("unexpected_handshake_request", "cyc=%d IN transfer manager requests ACK/STALL" % cyc)
        # packet consumer (model of the data packet generator's stream side)
        v, r, first, last, pl = g(ps.valid), g(ps.ready), g(ps.first), g(ps.last), g(ps.payload)
        cons = st["cons"]
        if cons == "IDLE":
            if v:
                if cyc > st["window_until"]:
                    res.violation("data_without_in_token", "cyc=%d packet_stream.valid rises without an IN token for this endpoint" % cyc)
                pid = g(dut.data_pid)
                if pid > 1:
                    res.violation("data_pid_not_data0_data1", "data_pid=%d" % pid)
                if first:
                    st["cur"] = {"pid": pid & 1, "data": bytearray(), "start": cyc, "stalls": 0}
                    st["cons"] = "PID"
                    st["pid_wait"] = rng.choice([1, 1, 1, 2, 3, rng.randint(1, 12)])
                    b.set(ps.ready, 0)
                elif last:
                    st["packets"].append({"pid": pid & 1, "data": b"", "start": cyc, "end": cyc})
                    res.event("packets_seen")
                else:
                    res.violation("packet_stream_valid_without_first", "cyc=%d valid with neither first nor last while the transmitter is idle" % cyc)
        elif cons == "PID":
            if not v:
                res.violation("packet_stream_valid_dropped", "cyc=%d valid fell before the packet's last byte" % cyc)
                st["cons"] = "IDLE"
            else:
                st["pid_wait"] -= 1
                if st["pid_wait"] <= 0:
                    st["cons"] = "PAYLOAD"
                    b.set(ps.ready, draw_ready())
        else:
            cur = st["cur"]
            done = False
            if v and r:
                cur["data"].append(pl)
                if last:
                    done = True
                elif len(cur["data"]) > mps + 4:
                    res.violation("packet_never_ends", "cyc=%d more than mps+4 bytes without last" % cyc)
                    done = True
            elif v:
                cur["stalls"] += 1
                res.bin("tx_stalls")
            elif r:
                res.violation("packet_stream_valid_dropped", "cyc=%d valid fell before the packet's last byte (%d bytes so far)" % (cyc, len(cur["data"])))
                done = True
            if done:
                st["packets"].append({"pid": cur["pid"], "data": bytes(cur["data"]), "start": cur["start"], "end": cyc})
                res.event("packets_seen")
                st["cons"] = "IDLE"
                st["cur"] = None
                b.set(ps.ready, 0)
            else:
                b.set(ps.ready, draw_ready())

    def pulse(sig):
        b.set(sig, 1)
        yield
        b.set(sig, 0)

    def token(kind):
        ours = kind.endswith("ours")
        is_in = kind.startswith("in")
        b.set(dut.active, 1 if ours else 0)
        b.set(tk.is_in, 1 if is_in else 0)
        b.set(tk.is_out, 0 if is_in else 1)
        yield from pulse(tk.new_token)
        for _ in range(rng.choice([1, 2, 3, 3, 4, 6, 12])):
            yield
        yield from pulse(tk.ready_for_response)

    def in_ours(outcome, step):
        """returns 'data' | 'nak' | 'none'"""
        res.event("in_tokens")
        n_p, n_n = len(st["packets"]), len(st["naks"])
        empty_before = orc.device_has_nothing()
        due, t_tok = orc.data_due_cycle(), b.cycle
        yield from token("in_ours")
        for _ in range(6):
            if st["cons"] != "IDLE" or len(st["packets"]) > n_p or len(st["naks"]) > n_n:
                break
            yield
        n = 0
        while st["cons"] != "IDLE":
            n += 1
            if n > 40 * (mps + 8):
                res.violation("packet_never_completes", "packet started at cycle %r still running after %d cycles" % (st["cur"] and st["cur"]["start"], n))
                return "stuck"
            yield
        got_p, got_n = len(st["packets"]) - n_p, len(st["naks"]) - n_n
        if got_p and got_n:
            res.violation("nak_and_data_for_one_token", "IN token answered with NAK and with a data packet")
        if got_p > 1:
            res.violation("two_packets_for_one_token", "%d packets after one IN token" % got_p)
        if not got_p and not got_n:
            res.violation("no_response_to_in_token", "cyc=%d IN token for the endpoint: neither data nor NAK (endpoint %s)"
                          % (b.cycle, "had nothing to send" if empty_before else "had data"))
            return "none"
        if not got_p:
            if empty_before:
                res.bin("nak_when_empty")
            if not orc.on_nak(due, t_tok, DUE_MARGIN, b.cycle) and due is not None:
                res.unjudged += 1
            return "nak"
        pkt = st["packets"][-1]
        if st.get("token_in_discard") and not orc.dead:
            res.violation("packet_sent_while_discarding", "cyc=%d IN token while discard is high answered with DATA%d %s" % (b.cycle, pkt["pid"], pkt["data"].hex()))
            orc.dead = True
        if len(pkt["data"]) == 0 and st.get("last_unacked_zlp"):
            res.bin("zlp_retry")
        host_ok = outcome != "none"
        dev_acked = outcome == "ack"
        if outcome == "lost":
            res.bin("lost_ack")
        if dev_acked:
            st["ack_pending"] = True
        orc.on_packet(pkt["pid"], pkt["data"], host_ok, dev_acked, pkt["start"])
        if host_ok and len(orc.accepted) > st.get("n_acc", 0):
            st["n_acc"] = len(orc.accepted)
            res.event("host_packets_accepted")
            res.event("host_bytes_accepted", len(pkt["data"]))
        st["last_unacked_zlp"] = (len(pkt["data"]) == 0 and not dev_acked)
        st["retrying"] = not dev_acked
        pkt["resolved"] = True
        if dev_acked:
            d = rng.choice([2, 3, 4, 6, 10, rng.randint(2, 40)])
            st["aim_cycle"] = b.cycle + d + 1
            st["aim_flush"] = b.cycle + d + 1 + rng.choice([-1, 0, 0, 0, 1])
            for _ in range(d):
                yield
            yield from pulse(dut.handshakes_in.ack)
            st["ack_pending"] = False
            st["last_ack_cycle"] = b.cycle
            res.event("acks_delivered")
        else:
            for _ in range(rng.randint(4, 30)):
                yield
        return "data"

    def discard_episode():
        """discard between transactions.  Judged when no packet is outstanding un-ACKed (otherwise only hangs are judged)."""
        unacked = orc.prev is not None and not orc.prev["dev_acked"]
        if unacked:
            if rng.random() < 0.6:
                return
            res.bin("discard_with_unacked_packet")
        res.bin("discard")
        if orc.data_due_cycle() is not None:
            res.bin("discard_with_packet_ready")
        n = rng.choice([1, 1, 2, 3, 8, rng.randint(10, 90)])
        b.set(dut.discard, 1)
        if n >= 20 and rng.random() < 0.6:
            for _ in range(rng.randint(2, 6)):
                yield
            res.bin("in_token_during_discard")
            st["token_in_discard"] = True
            r = yield from in_ours("ack", -2)
            st["token_in_discard"] = False
            if r in ("stuck", "none"):
                b.set(dut.discard, 0)
                return r
        for _ in range(n):
            yield
        b.set(dut.discard, 0)
        for _ in range(rng.randint(1, 12)):
            yield

    def noise():
        k = rng.choice(["in_other", "in_other_ack", "out_ours", "out_other", "sof_gap", "foreign_device_ack"])
        if k == "foreign_device_ack":
            # what the token detector shows for an IN transaction of another device address: the PID is cleared (is_in and
            # is_out fall), no new_token, no ready_for_response; then the host's ACK for that device is detected
            res.bin("ack_for_other_device")
            if orc.prev is not None and not orc.prev["dev_acked"]:
                res.bin("ack_for_other_device_after_unacked_packet")
            b.set(tk.is_in, 0)
            b.set(tk.is_out, 0)
            for _ in range(rng.randint(8, 40)):
                yield
            yield from pulse(dut.handshakes_in.ack)
            orc.on_foreign_ack()
            for _ in range(rng.randint(2, 12)):
                yield
        elif k == "in_other":
            res.bin("token_for_other_endpoint")
            yield from token("in_other")
            for _ in range(rng.randint(3, 30)):
                yield
        elif k == "in_other_ack":
            res.bin("token_for_other_endpoint")
            res.bin("ack_for_other_endpoint")
            yield from token("in_other")
            for _ in range(rng.randint(5, 30)):
                yield
            yield from pulse(dut.handshakes_in.ack)
        elif k == "out_ours":
            res.bin("out_token_same_endpoint")
            yield from token("out_ours")
            for _ in range(rng.randint(3, 20)):
                yield
        elif k == "out_other":
            yield from token("out_other")
            for _ in range(rng.randint(3, 20)):
                yield
        else:
            for _ in range(rng.randint(5, 60)):
                yield

    def hostdrv():
        b.set(dut.generate_zlps, 1)
        b.set(ps.ready, 0)
        yield
        for _ in range(rng.randint(0, 3 * mps + 10)):
            yield
        steps = rng.randint(15, 40)
        i = 0
        while i < 400:
            i += 1
            if (i > steps and st.get("producer_done")) or b.cycle > 25000:
                break
            for _ in range(gap_cycles(rng, pace, mps)):
                yield
            if rng.random() < 0.18:
                yield from noise()
                continue
            if rng.random() < discard_p:
                r = yield from discard_episode()
                if r in ("stuck", "none"):
                    return
                continue
            outcome = choose_outcome(rng, host_mode)
            r = yield from in_ours(outcome, i)
            if len(res.desc["schedule"]) < 14:
                res.desc["schedule"].append((outcome, r))
            if r in ("stuck", "none"):
                return
        # drain: stop the producer, hold flush, poll with clean ACKs until the endpoint only NAKs
        st["stop_producer"] = True
        st["drain"] = True
        for _ in range(4):
            yield
        naks = 0
        for _ in range(60 + 4 * (len(orc.inp) // max(1, mps))):
            for _ in range(rng.randint(3, 10)):
                yield
            r = yield from in_ours("ack", -1)
            if r in ("stuck", "none"):
                return
            naks = naks + 1 if r == "nak" else 0
            if naks >= 3:
                break
        for _ in range(5):
            yield
        res.event("drains_completed")
        orc.finish(drained=True)

    b.add_monitor(monitor)
    b.add_driver(producer(b, rng, [ts.valid, ts.ready, ts.payload, ts.first, ts.last], items, st, res), main=False)
    b.add_driver(flusher(b, rng, dut.flush, flush_mode, st), main=False)
    b.add_driver(hostdrv())
    b.run()
    res.cycles = b.cycle
    if b.hit_max_cycles:
        res.violation("harness_max_cycles", "case did not finish in %d cycles" % b.max_cycles)
    return orc


# ---------------------------------------------------------------------------------------------- harness B
def run_device(rng, tier, res):
    from luna.gateware.interface.utmi import UTMIInterface
    from luna.gateware.usb.usb2.device import USBDevice
    from luna.gateware.usb.usb2.endpoints.stream import USBStreamInEndpoint
    from rv.usb2host import UTMIHost, init_device_signals
    from rv.ref import usb2 as U
    res.bin("harness_device")
    n_ep = rng.choice([1, 2, 2])
    numbers = rng.sample(range(1, 16), n_ep)
    utmi = UTMIInterface()
    dev = USBDevice(bus=utmi)
    fs60 = rng.random() < 0.3
    if fs60:
        # what USBDevice.__init__ sets for a ULPI-shaped bus: 60 MHz timing tables; full speed is forced by the input
        dev.always_fs = False
        dev.data_clock = 60e6
        res.bin("device_fs60")
    eps = []
    for n in numbers:
        mps = rng.choice([8, 8, 8, 16, 16, 32, 32, 64, 64, 512])
        res.bin("mps_%d" % mps)
        if mps == 512:
            res.bin("device_mps_512")
        ep = USBStreamInEndpoint(endpoint_number=n, max_packet_size=mps)
        dev.add_endpoint(ep)
        eps.append({"n": n, "mps": mps, "ep": ep})
    if n_ep == 2:
        res.bin("device_two_endpoints")
    b = Bench(dev, domain="usb", freq=60e6, max_cycles=90000)
    ready_prof = rng.choice(["always", "always", ("random", rng.choice([0.4, 0.8])), ("every", rng.randint(2, 4)), ("bursty", rng.randint(2, 10), rng.randint(1, 8))])
    host = UTMIHost(b, utmi, rng, timing="fs60" if fs60 else "fs12", ready_profile=ready_prof, gap_profile=rng.choice(["none", "none", "random"]))
    host_mode = rng.choice(["clean", "normal", "normal", "flaky"])
    pace = rng.choice(["eager", "eager", "lazy", "bursts", "mixed"])
    foreign_addr = rng.randint(1, 127)
    discard_p = rng.choice([0, 0, 0.05, 0.1])
    res.desc = {"harness": "device", "fs60": fs60, "discard_p": discard_p, "endpoints": [(e["n"], e["mps"]) for e in eps], "tx_ready": ready_prof, "host": host_mode, "pace": pace, "schedule": []}
    res.sig("B", numbers, ready_prof, host_mode, pace, fs60, discard_p)
    b.watch(utmi.rx_active)
    for e in eps:
        mps = e["mps"]
        if mps == 512:
            items, len_mode, gap_mode = make_stream(rng, mps, rng.randint(2 * mps, 4 * mps), max_packets=10)
        else:
            items, len_mode, gap_mode = make_stream(rng, mps, min(rng.randint(5 * mps, 14 * mps), 600), max_packets=22)
        e["flush_mode"] = rng.choice(["never", "never", "never", "pulses", "rare", "long", "always", "aim"])
        e["st"] = {"aim_cycle": None, "aim_flush": None}
        e["orc"] = InOracle(mps, res.violation, res.bin, "ep%d" % e["n"])
        s = e["ep"].stream
        e["sigs"] = [s.valid, s.ready, s.payload, s.first, s.last]
        b.watch(*e["sigs"], e["ep"].flush, e["ep"].discard)
        b.add_driver(producer(b, rng, e["sigs"], items, e["st"], res), main=False)
        b.add_driver(flusher(b, rng, e["ep"].flush, e["flush_mode"], e["st"]), main=False)
        res.desc["ep%d" % e["n"]] = {"bytes": len(items), "lengths": len_mode, "gaps": gap_mode, "flush": e["flush_mode"]}
        res.sig(items, e["flush_mode"])
    ackinfo = {"cycle": -10}

    def monitor(b):
        res.event("cycles_monitored")
        g = b.get
        cyc = b.cycle
        for e in eps:
            v, r, p, f, l = (g(x) for x in e["sigs"])
            if input_side(e["orc"], e["st"], res, cyc, v, r, p, l, g(e["ep"].discard), e["flush_mode"] == "never"):
                res.event("input_bytes_accepted")
                if ackinfo["cycle"] <= cyc <= ackinfo["cycle"] + 2 and ackinfo.get("ep") is e:
                    res.bin("byte_accepted_on_ack_cycle")
                if e["st"].get("retrying"):
                    res.bin("retry_while_other_buffer_fills")
                n = len(e["orc"].inp)
                if l and (n == 1 or (n - 1) in e["orc"].lasts):
                    res.bin("single_byte_transfer")
                e["st"]["since_input"] = 0
            else:
                e["st"]["since_input"] = e["st"].get("since_input", 99) + 1
            if g(e["ep"].flush):
                e["orc"].on_flush(cyc)
                if ackinfo["cycle"] <= cyc <= ackinfo["cycle"] + 2 and ackinfo.get("ep") is e:
                    res.bin("flush_on_ack_cycle")

    def in_ep(e, outcome):
        orc, st = e["orc"], e["st"]
        res.event("in_tokens")
        empty_before = orc.device_has_nothing()
        due, t_tok = orc.data_due_cycle(), b.cycle
        yield from host.token(U.IN, 0, e["n"])
        if st.get("since_input", 99) <= 3:
            res.bin("in_token_while_packet_completes")
        pkt = yield from host.wait_response()
        if pkt is None:
            res.violation("no_response_to_in_token", "cyc=%d IN to endpoint %d: neither data nor handshake on the wire (endpoint %s)"
                          % (b.cycle, e["n"], "had nothing to send" if empty_before else "had data"))
            return "none"
        if pkt.stalls:
            res.bin("tx_stalls")
        info = U.classify(pkt.data)
        if info["kind"] == "handshake":
            if info["pid"] == U.NAK:
                res.event("naks_seen")
                if empty_before:
                    res.bin("nak_when_empty")
                if not orc.on_nak(due, t_tok, DUE_MARGIN, b.cycle) and due is not None:
                    res.unjudged += 1
                return "nak"
            res.violation("unexpected_handshake", "IN to endpoint %d answered with %s" % (e["n"], U.PID_NAMES.get(info["pid"])))
            return "none"
        if info["kind"] != "data" or info["pid"] not in (U.DATA0, U.DATA1):
            res.violation("malformed_packet_on_wire", "IN to endpoint %d answered with %s (%r)" % (e["n"], bytes(pkt.data).hex(), info))
            return "none"
        res.event("packets_seen")
        payload = bytes(info["payload"])
        if len(payload) == 0 and st.get("last_unacked_zlp"):
            res.bin("zlp_retry")
        host_ok = outcome != "none"
        dev_acked = outcome == "ack"
        if outcome == "lost":
            res.bin("lost_ack")
        n_acc = len(orc.accepted)
        if st.get("token_in_discard") and not orc.dead:
            res.violation("packet_sent_while_discarding", "cyc=%d IN to endpoint %d while its discard is high answered with %s" % (b.cycle, e["n"], bytes(pkt.data).hex()))
            orc.dead = True
        if dev_acked:
            st["ack_pending"] = True
        orc.on_packet(0 if info["pid"] == U.DATA0 else 1, payload, host_ok, dev_acked, pkt.first_valid)
        if len(orc.accepted) > n_acc:
            res.event("host_packets_accepted")
            res.event("host_bytes_accepted", len(payload))
        st["last_unacked_zlp"] = (len(payload) == 0 and not dev_acked)
        st["retrying"] = not dev_acked
        if dev_acked:
            yield from host.turnaround()
            # the handshake detector reports the ACK about two cycles after the one-byte packet
            st["aim_cycle"] = b.cycle + 4
            st["aim_flush"] = b.cycle + 4 + rng.choice([-1, 0, 0, 1])
            ackinfo["cycle"] = b.cycle + 3
            ackinfo["ep"] = e
            yield from host.handshake(U.ACK)
            yield from host.idle(3)
            st["ack_pending"] = False
            st["last_ack_cycle"] = b.cycle
            res.event("acks_delivered")
        elif outcome == "lost" and rng.random() < 0.5:
            # the ACK is damaged on its way to the device (PID check nibble broken)
            yield from host.turnaround()
            yield from host.send_raw(bytes([U.pid_byte(U.ACK) ^ (1 << rng.randrange(8))]))
        else:
            yield from host.idle(rng.randint(6, 30))
        return "data"

    def discard_episode(e):
        orc, st = e["orc"], e["st"]
        unacked = orc.prev is not None and not orc.prev["dev_acked"]
        if unacked:
            if rng.random() < 0.6:
                return
            res.bin("discard_with_unacked_packet")
        res.bin("discard")
        if orc.data_due_cycle() is not None:
            res.bin("discard_with_packet_ready")
        n = rng.choice([1, 1, 2, 3, 8, rng.randint(10, 90)])
        b.set(e["ep"].discard, 1)
        if n >= 20 and rng.random() < 0.6:
            yield from host.idle(rng.randint(2, 6))
            res.bin("in_token_during_discard")
            st["token_in_discard"] = True
            r = yield from in_ep(e, "ack")
            st["token_in_discard"] = False
            if r == "none":
                b.set(e["ep"].discard, 0)
                return r
        yield from host.idle(n)
        b.set(e["ep"].discard, 0)
        yield from host.idle(rng.randint(1, 12))

    def expect_silence(what, gen):
        n0 = len(host.tx_packets)
        yield from gen
        yield from host.idle(rng.randint(20, 45))
        if len(host.tx_packets) > n0 or host._cur is not None:
            res.violation("response_to_foreign_traffic", "device transmitted %s after %s" % (host.tx_packets[-1] if host.tx_packets[n0:] else "(running)", what))

    def noise():
        k = rng.choice(["in_unused_ep", "out_same_number", "sof", "foreign_in", "foreign_in_ack", "foreign_out", "setup_ep0"])
        used = [e["n"] for e in eps]
        if k == "foreign_in_ack":
            # another full-speed device on the same bus segment is read by the host: this device sees the IN token (other
            # address), not the other device's upstream data, and then the host's ACK
            res.bin("ack_for_other_device")
            if any(e["orc"].prev is not None and not e["orc"].prev["dev_acked"] for e in eps):
                res.bin("ack_for_other_device_after_unacked_packet")

            def g():
                yield from host.token(U.IN, foreign_addr, rng.choice(used + [0]))
                yield from host.idle(rng.randint(12, 40))
                yield from host.handshake(U.ACK)
            yield from expect_silence("IN to address %d + host ACK" % foreign_addr, g())
            for e in eps:
                e["orc"].on_foreign_ack()
            return
        if k == "in_unused_ep":
            res.bin("token_for_other_endpoint")
            n = rng.choice([x for x in range(0, 16) if x not in used])
            yield from expect_silence("IN to unused endpoint %d" % n, host.token(U.IN, 0, n))
        elif k == "out_same_number":
            res.bin("out_token_same_endpoint")
            e = rng.choice(eps)

            def g():
                yield from host.token(U.OUT, 0, e["n"])
                yield from host.idle(rng.randint(1, 4))
                yield from host.data(rng.choice([U.DATA0, U.DATA1]), bytes(rng.randrange(256) for _ in range(rng.randint(0, 9))))
            yield from expect_silence("OUT to IN-only endpoint %d" % e["n"], g())
        elif k == "sof":
            yield from host.sof(rng.randrange(2048))
            yield from host.idle(rng.randint(2, 10))
        elif k == "foreign_in":
            yield from expect_silence("IN to address %d" % foreign_addr, host.token(U.IN, foreign_addr, rng.choice(used + [0])))
        elif k == "foreign_out":
            def g():
                yield from host.token(U.OUT, foreign_addr, rng.choice(used + [0]))
                yield from host.idle(rng.randint(1, 4))
                yield from host.data(U.DATA0, bytes(rng.randrange(256) for _ in range(rng.randint(0, 9))))
            yield from expect_silence("OUT to address %d" % foreign_addr, g())
        else:
            def g():
                yield from host.token(U.SETUP, 0, 0)
                yield from host.idle(rng.randint(1, 4))
                yield from host.data(U.DATA0, bytes(rng.randrange(256) for _ in range(8)))
            yield from expect_silence("SETUP to endpoint 0 (no control endpoint in this device)", g())

    def hostdrv():
        init_device_signals(b, dev, utmi)
        if fs60:
            b.set(dev.full_speed_only, 1)
        yield from host.idle(rng.randint(3, 60))
        steps = rng.randint(12, 30) * n_ep
        i = 0
        while i < 500:
            i += 1
            if (i > steps and all(e["st"].get("producer_done") for e in eps)) or b.cycle > 25000:
                break
            yield from host.idle(gap_cycles(rng, pace, eps[0]["mps"]))
            if rng.random() < 0.15:
                yield from noise()
                continue
            e = rng.choice(eps)
            if rng.random() < discard_p:
                r = yield from discard_episode(e)
                if r == "none":
                    return
                continue
            outcome = choose_outcome(rng, host_mode)
            r = yield from in_ep(e, outcome)
            if len(res.desc["schedule"]) < 14:
                res.desc["schedule"].append((e["n"], outcome, r))
            if r == "none":
                return
            if r == "data" and n_ep == 2 and rng.random() < 0.5:
                # the other endpoint's transaction right behind this one (its ACK must not be taken by the first endpoint)
                o = [x for x in eps if x is not e][0]
                yield from host.idle(rng.randint(2, 8))
                res.bin("token_for_other_endpoint")
                r2 = yield from in_ep(o, "ack")
                if r2 == "data":
                    res.bin("ack_for_other_endpoint")
                if r2 == "none":
                    return
        for e in eps:
            e["st"]["stop_producer"] = True
            e["st"]["drain"] = True
        yield from host.idle(4)
        ok = True
        for e in eps:
            naks = 0
            for _ in range(40 + 4 * (len(e["orc"].inp) // e["mps"])):
                yield from host.idle(rng.randint(3, 10))
                r = yield from in_ep(e, "ack")
                if r == "none":
                    return
                naks = naks + 1 if r == "nak" else 0
                if naks >= 3:
                    break
        yield from host.idle(5)
        res.event("drains_completed")
        for e in eps:
            e["orc"].finish(drained=True)

    b.add_monitor(monitor)
    b.add_driver(hostdrv())
    b.run()
    res.cycles = b.cycle
    if b.hit_max_cycles:
        res.violation("harness_max_cycles", "case did not finish in %d cycles" % b.max_cycles)
    if host.tx_during_rx:
        res.violation("transmit_while_host_packet_on_wire", "%d cycles" % host.tx_during_rx)
    return eps[0]["orc"]


def run_case(rng, tier, res):
    if rng.random() < 0.7:
        orc = run_manager(rng, tier, res)
    else:
        orc = run_device(rng, tier, res)
    bins = res.bins
    res.nontrivial = bool(bins.get("retry")) and bool(bins.get("zlp_after_full_packet") or bins.get("flushed_partial_packet")) and len(orc.accepted) >= 8
