"""C22 — ULPI receive translation yields exactly the PHY's packet bytes.

DUT (85 % of the cases): the real `UTMITranslator` on a ULPI record driven by the reference ULPI 1.1 PHY model
`rv/ref/c22_ulpiphy.py` (some cases with the `rst` pin = start-up counter, constant scaled down).
DUT (15 %): `ULPIRegisterWindow` + `ULPIRxEventDecoder` wired exactly as `UTMITranslator` wires them (a register *read*
cannot be triggered through the translator, it ties `read_request` to 0), for the "register-read responses never appear
as data / as RxCmd" clause.

Workload (one case = one session of 25-60 PHY activities, 600 - 2 500 cycles): receive packets started by DIR+NXT or by
an RxCmd with RxActive (DIR rising for it, or DIR already high), first data byte 0/1/2/3 cycles after the start, NXT
throttling (RxCmd cycles between data bytes), RxCmds mid-packet with changing LineState, RxError RxCmds, packets ended by
DIR falling or by an RxCmd with RxActive=0 (with further RxCmds behind it), several packets inside one DIR-high period,
zero-length receives, idle RxCmd updates (LineState / VbusState / ID / alt_int), DIR low for a single cycle between two
activities, garbage on the data lines in turnaround cycles and while DIR is low, data bytes that look like RxCmds; in half
of the sessions the UTMI control inputs are changed at random cycles so that register writes (and their aborts by DIR) run
concurrently with reception.  Payload bytes are neighbour-unique so that loss / duplication / reordering are distinguishable.

Monitors: every cycle the wires (DIR, NXT, DATA, what the PHY meant) and the UTMI outputs (rx_valid/rx_data/rx_active,
line_state, vbus_valid, session_valid, session_end) are recorded.

Oracle (written from ULPI 1.1 3.8.1/3.8.2, no luna code): a reference decoder walks the wire log: receive start = DIR
rising with NXT or RxCmd with RxActive; while a receive is open every NXT-qualified byte is a data byte; end = DIR falling
or RxCmd with RxActive=0.  Judged:
  * the sequence of (rx_valid, rx_data) equals the reference data bytes, in order, each once, each within 1..3 cycles of
    its wire cycle (no exact latency demanded); nothing else may appear (RxCmd / turnaround / register data as data);
  * rx_valid only while rx_active;
  * rx_active equals the reference RxActive whenever that has been stable for 3 cycles (current latencies are 1 and 2; one more pipeline register is tolerated);
  * line_state / vbus_valid / session_valid / session_end equal the decode of the most recent RxCmd whenever no RxCmd is
    younger than 3 cycles (before the first RxCmd nothing is judged);
  * read sub-case: read_data = PHY register content, one `done` per request, the register-data cycle is never taken as an
    RxCmd, RxCmds around the read are taken.

Known deviations of the unchanged tree are *classified*, not excused by the oracle: a second pass re-decodes the wire log
with the documented deviations switched on (description of the findings in findings/C22.md, using the observed
`ULPIRegisterWindow.busy`); a violation gets the finding's mechanism name only if the DUT output agrees with that pass at
the point of the violation, otherwise it gets a generic mechanism name and fails the run.

Not judged: rx_error / host_disconnect / id_digital (not in the statement); rx_data while rx_valid is low; behaviour for
PHY histories ULPI forbids (NXT-qualified bytes outside a receive are not generated).
"""
from rv.sim import Bench, Registry
from rv.ref.c22_ulpiphy import ULPIPhy, act_receive, act_rxcmds, decode_rxcmd, rxcmd

PROPERTY = "C22"
CASES = {"quick": 320, "thorough": 5000}
RULE = ("case = session of 25-60 PHY activities (receive packets with random start kind / first-byte gap / NXT throttling / "
        "mid-packet RxCmds / end kind, chained packets in one DIR period, idle RxCmd updates, 1-cycle DIR gaps), optionally "
        "with concurrent control-input changes (register writes), or a register-read session on window+decoder; "
        "non-trivial = >=1 packet of each start kind and >=1 mid-packet RxCmd (or >=3 reads); distinct = hash of all activities")
REQUIRED_BINS = ["start_dirnxt", "start_rxcmd_dir_rising", "start_rxcmd_dir_high", "first_byte_gap0_after_rxcmd_start",
                 "first_byte_gap0_after_dirnxt", "end_dir", "end_rxcmd", "end_rxcmd_then_more_rxcmds", "end_rxcmd_hostdisconnect_encoding", "mid_packet_rxcmd",
                 "nxt_throttled", "rx_error_rxcmd", "idle_rxcmd_update", "chained_packets_one_dir_period", "dir_low_one_cycle",
                 "zero_length_receive", "rxcmd_while_regwrite_busy", "receive_while_regwrite_busy", "regwrite_aborted_by_dir",
                 "stale_rxactive_then_rxcmd_start", "data_looks_like_rxcmd", "with_rst_pin", "read_then_rxcmd_dir_held",
                 "read_interrupted", "vbus_state_11", "line_state_change_only"]
REQUIRED_EVENTS = ["bytes_expected", "bytes_matched", "rxcmds_presented", "rx_active_cycles_judged", "status_cycles_judged",
                   "receives", "regwrites_committed", "reads_done", "read_data_compared", "rx_valid_strobes"]
ASSUMPTIONS = ["PHY histories are those of the reference ULPI 1.1 model: NXT-qualified bytes only inside a receive, turnaround on every DIR edge",
               "latency of the translation is not constrained beyond 1..3 cycles",
               "status flags are judged only from the first RxCmd on and only when no RxCmd is younger than 3 cycles",
               "register reads are exercised on ULPIRegisterWindow+ULPIRxEventDecoder wired as in UTMITranslator (the translator never reads)",
               "start-up counter (_CYCLES_1_MILLISECONDS) scaled to 10-80 cycles in the cases with a rst pin"]

W = 3


class Collector:
    """Per-case violation list: at most 2 witnesses per mechanism, unknown mechanisms first (Result keeps only 20)."""

    KNOWN = ()

    def __init__(self, res):
        self.res = res
        self.by_mech = {}

    def violation(self, mech, detail):
        self.by_mech.setdefault(mech, []).append(detail)

    def flush(self):
        order = sorted(self.by_mech, key=lambda m: (m in self.KNOWN, m))
        for m in order:
            lst = self.by_mech[m]
            for d in lst[:2]:
                self.res.violation(m, "%s [%d occurrences in this case]" % (d, len(lst)))


class ResProxy:
    """Result front-end that routes violations through a Collector (everything else is forwarded)."""

    def __init__(self, res):
        object.__setattr__(self, "_res", res)
        object.__setattr__(self, "_col", Collector(res))

    def violation(self, mech, detail):
        self._col.violation(mech, detail)

    def __getattr__(self, name):
        return getattr(self._res, name)

    def __setattr__(self, name, value):
        setattr(self._res, name, value)


STATUS_FIELDS = ("line_state", "vbus_valid", "session_valid", "session_end")

M_BUSY = "rxcmd_ignored_while_register_write_pending"
M_EDGE = "rxactive_rxcmd_ignored_without_change_of_previous_rxcmd"
M_LAT = "first_byte_directly_after_rxactive_rxcmd_lost"
M_SESS = "session_valid_low_while_vbus_valid"
Collector.KNOWN = (M_BUSY, M_EDGE, M_LAT)       # M_SESS was repaired in /repo (f9208f8): it is reported like any other violation


def make_ulpi(with_rst=False):
    import warnings
    with warnings.catch_warnings():
        warnings.simplefilter("ignore")
        from amaranth.hdl.rec import Record
        layout = [('data', [('i', 8), ('o', 8), ('oe', 1)]), ('nxt', [('i', 1)]), ('dir', [('i', 1)]), ('stp', [('o', 1)])]
        if with_rst:
            layout.append(('rst', [('o', 1)]))
        return Record(layout)


def function_control(c):
    """ULPI 1.1 Function Control (0x04): [1:0] XcvrSelect [2] TermSelect [4:3] OpMode [5] Reset [6] SuspendM."""
    return (c["xcvr_select"] & 3) | (c["term_select"] << 2) | ((c["op_mode"] & 3) << 3) | ((0 if c["suspend"] else 1) << 6)


def otg_control(c):
    """ULPI 1.1 OTG Control (0x0A): [0] IdPullup [1] DpPulldown [2] DmPulldown [3] DischrgVbus [4] ChrgVbus [7] UseExternalVbusIndicator."""
    return (c["id_pullup"] | (c["dp_pulldown"] << 1) | (c["dm_pulldown"] << 2) | (c["dischrg_vbus"] << 3) |
            (c["chrg_vbus"] << 4) | (c["use_external_vbus_indicator"] << 7))


CTL_FIELDS = [("xcvr_select", 2), ("term_select", 1), ("op_mode", 2), ("suspend", 1), ("id_pullup", 1), ("dp_pulldown", 1),
              ("dm_pulldown", 1), ("chrg_vbus", 1), ("dischrg_vbus", 1), ("use_external_vbus_indicator", 1)]
CTL_QUIET = {"xcvr_select": 1, "term_select": 0, "op_mode": 0, "suspend": 0, "id_pullup": 0, "dp_pulldown": 1, "dm_pulldown": 1,
             "chrg_vbus": 0, "dischrg_vbus": 0, "use_external_vbus_indicator": 0}


class Payloads:
    """Neighbour-unique byte source: any 8 consecutive bytes handed out are pairwise different."""

    def __init__(self, rng):
        self.rng = rng
        self.recent = []
        self.ctr = rng.randrange(256)

    def take(self, n, style):
        out = []
        for _ in range(n):
            for _try in range(50):
                if style == "counter":
                    self.ctr = (self.ctr + 37) & 0xFF
                    v = self.ctr
                elif style == "rxcmdlike":
                    v = self.rng.choice([0x1D, 0x0D, 0x2D, 0x3D, 0x5D, 0x10, 0x1C, 0x0C, 0x00, 0x11, 0x12, 0x4D, 0x9D, 0x15, 0x19])
                else:
                    v = self.rng.randrange(256)
                if v not in self.recent:
                    break
                style = "random" if _try > 10 else style
            out.append(v)
            self.recent = (self.recent + [v])[-8:]
        return out


# ---------------------------------------------------------------------------------------------- reference decoding

def reference_pass(wire, busy):
    """Walk the wire log.  wire[k] = (dir, nxt, byte, kind) for cycle k (index 0 unused).

    Reference pass (ULPI 1.1): per-cycle RxActive `s_act`, last RxCmd `s_cmd`, and for every NXT-qualified byte
    whether it belongs to a receive.  In the same walk a deviation-aware pass is kept (`q_act`, `q_cmd`), which
    applies the three documented deviations of the unchanged tree (findings/C22.md):
      BUSY  an RxCmd presented while the register window is busy is ignored;
      EDGE  an RxCmd changes RxActive only if its RxActive bit differs from the previous *accepted RxCmd*
            (DIR-based starts / ends do not update that memory);
      LAT   an RxCmd-signalled change of RxActive takes effect one cycle later than a DIR-signalled one.
    The deviation-aware pass is only used to *name* violations; `*_reason` say which deviation made it differ.
    Returns (s_act, s_cmd, q_act, q_cmd, act_reason, cmd_reason, data, notes) with
    data = [(cycle, byte, in_reference_receive, in_deviation_receive, cause)].
    """
    n = len(wire)
    s_act, s_cmd = [False] * n, [None] * n
    q_act, q_cmd = [False] * n, [None] * n
    act_reason, cmd_reason = [None] * n, [None] * n
    data, notes = [], []
    sa, sc = False, None
    qa, qc, q_rem = False, None, 0
    sched = []                # (cycle, value): pending changes of the deviation-aware RxActive
    reason_inactive = None    # why the deviation pass is not active although the reference is
    reason_active = None      # why it is active although the reference is not
    creason = None
    prev_dir = 0
    for k in range(1, n):
        d, nx, byte, kind = wire[k]
        keep = []
        for (c, v) in sched:
            if c <= k:
                qa = v
            else:
                keep.append((c, v))
        sched = keep
        if d:
            if not prev_dir:
                if nx:
                    sa = True
                    sched.append((k + 1, True))
            elif kind == "regdata":
                pass
            elif nx:
                data.append((k, byte, sa, qa, reason_inactive if (sa and not qa) else None))
            else:
                new = bool((byte >> 4) & 1)
                prev_true = sc if sc is not None else 0
                sc = byte
                ignored = bool(busy[k])
                old = bool((q_rem >> 4) & 1)
                memory_true = (q_rem == prev_true)     # the deviation pass remembers the true previous RxCmd
                if ignored:
                    creason = M_BUSY
                else:
                    qc = byte
                    q_rem = byte
                    creason = None
                    if new and not old:
                        sched.append((k + 2, True))
                    if old and not new:
                        sched.append((k + 2, False))
                if new and not sa:                      # reference: a receive starts here
                    if ignored:
                        reason_inactive = M_BUSY
                    elif old:
                        reason_inactive = M_EDGE if memory_true else M_BUSY
                        notes.append((k, "stale_rxactive_then_rxcmd_start" if memory_true else "stale_by_busy"))
                    else:
                        reason_inactive = M_LAT
                if (not new) and sa:                    # reference: the receive ends here
                    if ignored:
                        reason_active = M_BUSY
                    elif not old:
                        reason_active = M_EDGE if memory_true else M_BUSY
                    else:
                        reason_active = None
                sa = new
        else:
            if prev_dir:
                sa = False
                sched.append((k + 1, False))
        prev_dir = d
        s_act[k], s_cmd[k] = sa, sc
        q_act[k], q_cmd[k] = qa, qc
        if sa and not qa:
            act_reason[k] = reason_inactive
        elif qa and not sa:
            act_reason[k] = reason_active
        cmd_reason[k] = creason if qc != sc else None
    return s_act, s_cmd, q_act, q_cmd, act_reason, cmd_reason, data, notes


def match_bytes(data, observed):
    """Greedy in-order matching of wire data bytes to observed (cycle, value) strobes.

    Returns (matched flags per data entry, list of spurious observations, list of (entry index, observed value) corruptions)."""
    matched = [False] * len(data)
    spurious, corrupted = [], []
    j = 0
    for i, (k, v, _ins, _inq, _c) in enumerate(data):
        while j < len(observed) and observed[j][0] < k + 1:
            spurious.append(observed[j])
            j += 1
        if j >= len(observed):
            continue
        oc, ov = observed[j]
        if oc > k + W:
            continue
        if ov == v:
            matched[i] = True
            j += 1
            continue
        # value differs: observation of a later wire byte (this one was dropped), or a corrupted copy of this one?
        later = False
        for i2 in range(i + 1, min(i + 1 + W + 2, len(data))):
            k2, v2 = data[i2][0], data[i2][1]
            if k2 + 1 <= oc <= k2 + W and v2 == ov:
                later = True
                break
        if not later:
            corrupted.append((i, ov, oc))
            matched[i] = None
            j += 1
    while j < len(observed):
        spurious.append(observed[j])
        j += 1
    return matched, spurious, corrupted


# ---------------------------------------------------------------------------------------------- translator session

def run_translator_case(rng, tier, res):
    from luna.gateware.interface.ulpi import UTMITranslator, ULPIRegisterWindow
    with_rst = rng.random() < 0.2
    ctl_active = rng.random() < 0.5
    ulpi = make_ulpi(with_rst)
    dut = UTMITranslator(ulpi=ulpi, handle_clocking=False)
    startup = 0
    if with_rst:
        startup = rng.randint(10, 80)
        dut._CYCLES_1_MILLISECONDS = startup
        res.bin("with_rst_pin")
    with Registry(ULPIRegisterWindow) as reg:
        b = Bench(dut, domain="usb", freq=60e6, max_cycles=12000)
    win = reg.one(ULPIRegisterWindow)
    phy = ULPIPhy(b, ulpi, rng, cmd_latency=rng.choice([(0, 0), (0, 2), (0, 5)]),
                  reg_nxt=rng.choice(["always", ("random", 0.8), ("random", 0.4)]), garbage=rng.random() < 0.8)
    outs = [dut.rx_valid, dut.rx_data, dut.rx_active, dut.line_state, dut.vbus_valid, dut.session_valid, dut.session_end]
    b.watch(*outs)
    ctl_sigs = {name: getattr(dut, name) for name, _ in CTL_FIELDS}
    if win is not None:
        b.watch(win.busy)
    pay = Payloads(rng)
    gap_profile = rng.choice(["none", "none", ("random", 0.3), ("random", 0.6), ("fixed", 1), ("fixed", 3)])
    mid_cmd_p = rng.choice([0.0, 0.1, 0.3])
    res.desc = {"dut": "UTMITranslator", "with_rst": with_rst, "startup": startup, "ctl_changes": ctl_active,
                "gap_profile": gap_profile, "cmd_latency": phy.cmd_latency, "activities": []}
    res.sig("T", with_rst, startup, ctl_active, gap_profile)

    wire = [None]
    busy = [0]
    obs = [None]
    ctl = dict(CTL_QUIET)
    if ctl_active and rng.random() < 0.5:
        ctl = {name: rng.randrange(1 << w) for name, w in CTL_FIELDS}

    def monitor(b):
        u = ulpi
        wire.append((b.get(u.dir.i), b.get(u.nxt.i), b.get(u.data.i), phy.sampled_kind))
        busy.append(b.get(win.busy) if win is not None else 0)
        obs.append(tuple(b.get(s) for s in outs))

    state = {"vbus": rng.choice([3, 3, 2, 1, 0]), "ls": 1, "id": 0, "last_cmd_active": False, "done": False}

    def status_nibble():
        return (state["ls"] & 3) | (state["vbus"] << 2)

    def new_status():
        r = rng.random()
        if r < 0.5:
            state["ls"] = rng.randrange(4)
            res.bin("line_state_change_only")
        elif r < 0.8:
            state["vbus"] = rng.randrange(4)
        else:
            state["ls"] = rng.randrange(4)
            state["vbus"] = rng.randrange(4)
        if state["vbus"] == 3:
            res.bin("vbus_state_11")

    def idle_cmd():
        ev = 2 if rng.random() < 0.1 else 0
        return rxcmd(state["ls"], state["vbus"], ev, rng.random() < 0.2, rng.random() < 0.1)

    def build_packet(start, in_dir_high=False):
        """Returns the DIR-high cycles of one receive (without a leading turnaround when `in_dir_high`)."""
        n = rng.choice([0, 1, 1, 2, 3, 4, 8, rng.randint(1, 24), rng.randint(1, 70)])
        style = rng.choice(["counter", "counter", "random", "rxcmdlike"])
        if style == "rxcmdlike":
            res.bin("data_looks_like_rxcmd")
        payload = pay.take(n, style)
        first_gap = rng.choice([0, 0, 1, 1, 2, 3])
        end = rng.choice(["dir", "rxcmd"])
        tail = []
        end_event = 0
        if end == "rxcmd":
            if rng.random() < 0.2:
                end_event = 2           # the closing RxCmd carries RxEvent = 10 (HostDisconnect; RxActive is 0 in that encoding too)
                res.bin("end_rxcmd_hostdisconnect_encoding")
            new_status()
            for _ in range(rng.choice([0, 0, 1, 2, 6])):
                if rng.random() < 0.5:
                    new_status()
                tail.append(idle_cmd())
            res.bin("end_rxcmd")
            if tail:
                res.bin("end_rxcmd_then_more_rxcmds")
        else:
            res.bin("end_dir")
        g = gap_profile if rng.random() < 0.8 else "none"
        cyc = act_receive(rng, payload, start=start, status=status_nibble(), first_gap=first_gap, gap_profile=g,
                          mid_cmd_p=mid_cmd_p, end=end, tail_cmds=tail, idle_status=status_nibble(),
                          garbage=phy.garbage, end_event=end_event)
        if rng.random() < 0.15 and n >= 2:
            # an RxError RxCmd in the middle of the packet (RxActive stays high)
            idx = [i for i, c in enumerate(cyc) if c[2] == "data"]
            pos = idx[rng.randrange(1, len(idx))]
            cyc.insert(pos, (0, rxcmd(rng.randrange(4), state["vbus"], 3), "cmd"))
            res.bin("rx_error_rxcmd")
        if n == 0:
            res.bin("zero_length_receive")
        if in_dir_high:
            cyc = cyc[1:]
        return cyc, n, first_gap, end

    def driver():
        for name, sig in ctl_sigs.items():
            b.set(sig, ctl[name])
        yield
        for _ in range(rng.randint(2, 10) + (startup if rng.random() < 0.5 else 0)):
            yield
        n_act = rng.randint(25, 60)
        i = 0
        while i < n_act:
            kind = rng.choice(["dirnxt", "dirnxt", "rxcmd_rise", "rxcmd_rise", "chain", "chain", "update", "update"])
            batch = 1
            if kind == "update":
                cmds = []
                for _ in range(rng.choice([1, 1, 2, 3, 8])):
                    new_status()
                    cmds.append(idle_cmd())
                cyc = act_rxcmds(rng, cmds, garbage=phy.garbage)
                res.bin("idle_rxcmd_update")
            elif kind == "dirnxt":
                cyc, n, fg, end = build_packet("dirnxt")
                res.bin("start_dirnxt")
                if fg == 0 and n:
                    res.bin("first_byte_gap0_after_dirnxt")
            elif kind == "rxcmd_rise":
                cyc, n, fg, end = build_packet("rxcmd")
                res.bin("start_rxcmd_dir_rising")
                if fg == 0 and n:
                    res.bin("first_byte_gap0_after_rxcmd_start")
            else:
                # several packets (and idle RxCmds) within one DIR-high period
                first = rng.choice(["dirnxt", "rxcmd"])
                cyc, n, fg, end = build_packet(first)
                res.bin("start_dirnxt" if first == "dirnxt" else "start_rxcmd_dir_rising")
                parts = rng.randint(1, 3)
                for _ in range(parts):
                    if end != "rxcmd":
                        # the previous packet must be closed by an RxCmd before another one can follow in this DIR period
                        new_status()
                        cyc.append((0, idle_cmd() & 0xCF, "cmd"))
                    for _ in range(rng.choice([0, 0, 1, 3])):
                        cyc.append((0, idle_cmd(), "cmd"))
                    c2, n, fg, end = build_packet("rxcmd", in_dir_high=True)
                    cyc += c2
                    res.bin("start_rxcmd_dir_high")
                    res.bin("chained_packets_one_dir_period")
                    if fg == 0 and n:
                        res.bin("first_byte_gap0_after_rxcmd_start")
            delay = rng.choice([0, 0, 1, 2, 3, rng.randint(0, 12), rng.randint(0, 40)])
            if delay == 0 and i:
                res.bin("dir_low_one_cycle")
            phy.schedule(cyc, at=b.cycle + delay, name=kind)
            res.sig(kind, delay, tuple((c[0], c[1]) for c in cyc))
            if len(res.desc["activities"]) < 6:
                res.desc["activities"].append({"kind": kind, "delay": delay,
                                               "cycles": ["%s%02x" % ("D" if c[2] == "data" else "c" if c[2] == "cmd" else "t", c[1]) for c in cyc[:40]]})
            i += batch
            target = phy.played + 1
            waited = 0
            while phy.played < target:
                yield
                waited += 1
                if waited > 3000:
                    res.violation("harness_activity_never_played", "PHY activity %d not played within 3000 cycles" % i)
                    return
        for _ in range(12):
            yield
        state["done"] = True

    ctl_intervals = rng.choice([[3, 8, 15, 30, 60, 120], [40, 80, 150, 300], [100, 200, 400, 800]])

    def ctl_driver():
        # control-input changes at random cycles -> register writes concurrent with reception
        while not state["done"]:
            for _ in range(rng.choice(ctl_intervals)):
                yield
                if state["done"]:
                    return
            name, w = CTL_FIELDS[rng.randrange(len(CTL_FIELDS))]
            ctl[name] = (ctl[name] + rng.randint(1, (1 << w) - 1)) & ((1 << w) - 1) if w > 1 else ctl[name] ^ 1
            b.set(ctl_sigs[name], ctl[name])
            res.sig("ctl", b.cycle, name, ctl[name])

    b.add_monitor(monitor)
    b.add_driver(driver(), main=True)
    if ctl_active:
        b.add_driver(ctl_driver(), main=False)
    b.run()
    res.cycles = b.cycle
    if b.hit_max_cycles:
        res.violation("harness_max_cycles", "session did not finish in %d cycles" % b.max_cycles)
        return
    judge_receive(res, wire, busy, obs, phy, have_busy=win is not None)
    res.event("regwrites_committed", len(phy.reg_writes))
    if phy.aborts:
        res.bin("regwrite_aborted_by_dir", len(phy.aborts))
    res.nontrivial = all(res.bins.get(k) for k in ("start_dirnxt", "mid_packet_rxcmd")) and \
        (res.bins.get("start_rxcmd_dir_rising") or res.bins.get("start_rxcmd_dir_high"))


def judge_receive(res, wire, busy, obs, phy, have_busy=True):
    n = len(wire)
    s_act, s_cmd, q_act, q_cmd, act_reason, cmd_reason, data, notes = reference_pass(wire, busy)
    # harness self-check: the model's own reference bookkeeping must agree with this pass
    for k in range(1, n):
        if phy.ref_active.get(k) != s_act[k]:
            res.violation("harness_reference_disagreement", "cycle %d: model RxActive %s, check RxActive %s" % (k, phy.ref_active.get(k), s_act[k]))
            return
    # ---- bins derived from the wire log
    prev_dir, last_was_data = 0, False
    for k in range(1, n):
        d, nx, byte, kind = wire[k]
        if d and prev_dir and kind != "regdata":
            if nx:
                last_was_data = True
            else:
                res.event("rxcmds_presented")
                if busy[k]:
                    res.bin("rxcmd_while_regwrite_busy")
                if s_act[k - 1] and s_act[k]:
                    res.bin("mid_packet_rxcmd")
                    if last_was_data:
                        res.bin("nxt_throttled")
                last_was_data = False
        if s_act[k] and not s_act[k - 1]:
            res.event("receives")
            last_was_data = False
            if busy[k]:
                res.bin("receive_while_regwrite_busy")
        prev_dir = d
    for (k, tag) in notes:
        if tag == "stale_rxactive_then_rxcmd_start":
            res.bin(tag)

    # ---- data bytes
    observed = [(c, obs[c][1]) for c in range(1, n) if obs[c][0]]
    res.event("rx_valid_strobes", len(observed))
    matched, spurious, corrupted = match_bytes(data, observed)
    for i, (k, v, in_s, in_q, cause) in enumerate(data):
        if not in_s:
            res.unjudged += 1
            if matched[i]:
                res.violation("rx_byte_outside_receive_reported", "wire byte %#04x at cycle %d is outside any receive but was reported" % (v, k))
            continue
        res.event("bytes_expected")
        if matched[i]:
            res.event("bytes_matched")
            if not in_q:
                # the deviation-aware pass predicted a loss that did not happen: the classifier is out of date, not the DUT
                res.event("classifier_pessimistic")
        elif matched[i] is False:
            if not in_q and cause:
                res.violation(cause, "data byte %#04x presented with NXT at cycle %d (receive open since an earlier cycle) never appeared on rx_data/rx_valid; wire around: %s"
                              % (v, k, fmt_wire(wire, k - 6, k + 2)))
            else:
                res.violation("rx_byte_lost", "data byte %#04x presented with NXT at cycle %d never appeared on rx_data/rx_valid; wire around: %s"
                              % (v, k, fmt_wire(wire, k - 6, k + 2)))
    for (i, ov, oc) in corrupted:
        res.violation("rx_byte_corrupted", "wire byte %#04x at cycle %d was reported as %#04x at cycle %d" % (data[i][1], data[i][0], ov, oc))
    for (oc, ov) in spurious:
        d, nx, byte, kind = wire[oc - 1]
        if d and kind == "cmd":
            mech = "rxcmd_reported_as_data"
        elif d and kind == "ta":
            mech = "turnaround_cycle_reported_as_data"
        elif d and kind == "regdata":
            mech = "register_data_reported_as_data"
        elif not d:
            mech = "data_reported_while_dir_low"
        else:
            mech = "rx_byte_duplicated_or_spurious"
        res.violation(mech, "rx_valid at cycle %d with rx_data=%#04x has no wire data byte; wire around: %s" % (oc, ov, fmt_wire(wire, oc - 6, oc + 1)))

    # ---- rx_valid only inside rx_active; rx_active follows the reference
    for c in range(1, n):
        valid, _, active = obs[c][0], obs[c][1], obs[c][2]
        if valid and not active:
            res.violation("rx_valid_outside_rx_active", "cycle %d: rx_valid high while rx_active low" % c)
        lo = max(1, c - W)
        sset = set(s_act[lo:c + 1])
        if len(sset) == 1:
            res.event("rx_active_cycles_judged")
        if bool(active) not in sset:
            qset = set(q_act[lo:c + 1])
            reasons = [r for r in act_reason[lo:c + 1] if r]
            if bool(active) in qset and reasons:
                res.violation(reasons[0], "cycle %d: rx_active=%d but the PHY's RxCmd/DIR history says %d for the last %d cycles; wire around: %s"
                              % (c, active, s_act[c], W + 1, fmt_wire(wire, c - 8, c)))
            else:
                res.violation("rx_active_mismatch", "cycle %d: rx_active=%d but the PHY's RxCmd/DIR history says %d for the last %d cycles; wire around: %s"
                              % (c, active, s_act[c], W + 1, fmt_wire(wire, c - 8, c)))

    # ---- status flags
    for c in range(W + 2, n):
        cands = set(s_cmd[c - 1 - W:c])
        if None in cands:
            continue
        if len(cands) == 1:
            res.event("status_cycles_judged")
        qc = set(x for x in q_cmd[c - 1 - W:c] if x is not None) or {0}
        for fi, field in enumerate(STATUS_FIELDS):
            got = obs[c][3 + fi]
            exp = set(decode_rxcmd(x)[field] for x in cands)
            if got in exp:
                continue
            cmd = s_cmd[c - 1]
            # deviation-aware pass: the DUT may show the (correct, ULPI table 8) decode of a stale RxCmd because a newer one was
            # presented while a register write was pending.  (The former `session_valid == 0b10` deviation is repaired in /repo,
            # f9208f8, and is no longer part of this pass: a regression of that repair is reported under its own name below.)
            qexp = set(decode_rxcmd(x)[field] for x in qc)
            reasons = [r for r in cmd_reason[c - 1 - W:c] if r]
            if got in qexp and reasons:
                res.violation(reasons[0], "cycle %d: %s=%d but the most recent RxCmd (%#04x) says %s; that RxCmd was presented while a register write was pending; wire around: %s"
                              % (c, field, got, cmd, sorted(exp), fmt_wire(wire, c - 8, c)))
            elif field == "session_valid" and got == 0 and any(((x >> 2) & 3) == 3 for x in (qc if reasons else cands)):
                res.violation(M_SESS, "cycle %d: RxCmd %#04x has VbusState=11 (above VA_VBUS_VLD, so also above VA_SESS_VLD) but session_valid=0; wire around: %s"
                              % (c, cmd, fmt_wire(wire, c - 8, c)))
            else:
                res.violation("status_%s_mismatch" % field, "cycle %d: %s=%d but the most recent RxCmd (%#04x) says %s; wire around: %s"
                              % (c, field, got, cmd, sorted(exp), fmt_wire(wire, c - 8, c)))

def fmt_wire(wire, lo, hi):
    out = []
    for k in range(max(1, lo), min(len(wire) - 1, hi) + 1):
        d, nx, byte, kind = wire[k]
        if d:
            out.append("%d:%s%s%02x" % (k, "T" if kind == "ta" else "R" if kind == "regdata" else "D" if nx else "c", "+" if nx else "", byte))
        else:
            out.append("%d:-" % k)
    return " ".join(out)


# ---------------------------------------------------------------------------------------------- register-read session

def run_read_case(rng, tier, res):
    """ULPIRegisterWindow + ULPIRxEventDecoder wired as UTMITranslator wires them; reads and writes requested by the bench."""
    from amaranth import Module, Elaboratable
    from luna.gateware.interface.ulpi import ULPIRegisterWindow, ULPIRxEventDecoder
    ulpi = make_ulpi(False)

    class Harness(Elaboratable):
        def __init__(self):
            self.window = ULPIRegisterWindow()
            self.decoder = ULPIRxEventDecoder(ulpi_bus=ulpi)

        def elaborate(self, platform):
            m = Module()
            m.submodules.window = w = self.window
            m.submodules.decoder = dec = self.decoder
            m.d.comb += [
                ulpi.data.oe.eq(~ulpi.dir.i),
                ulpi.data.o.eq(w.ulpi_data_out),
                ulpi.stp.o.eq(w.ulpi_stop),
                w.ulpi_data_in.eq(ulpi.data.i),
                w.ulpi_dir.eq(ulpi.dir.i),
                w.ulpi_next.eq(ulpi.nxt.i),
                dec.register_operation_in_progress.eq(w.busy),
            ]
            return m

    h = Harness()
    b = Bench(h, domain="usb", freq=60e6, max_cycles=8000)
    w, dec = h.window, h.decoder
    # register values have bit 7 set, RxCmds of this session have bit 7 clear: a register value taken as RxCmd is recognisable
    regs = {a: 0x80 | rng.randrange(128) for a in range(0x20)}
    phy = ULPIPhy(b, ulpi, rng, cmd_latency=rng.choice([(0, 0), (0, 2), (0, 5)]), reg_nxt=rng.choice(["always", ("random", 0.6)]),
                  garbage=rng.random() < 0.8, regs=regs)
    phy.hold_dir_after_read = 1
    b.watch(w.busy, w.done, w.read_data, dec.last_rx_command, dec.line_state, dec.vbus_valid, dec.session_end)
    res.desc = {"dut": "ULPIRegisterWindow+ULPIRxEventDecoder", "ops": []}
    res.sig("R")
    wire, busy, obs = [None], [0], [None]
    dones = []

    def monitor(b):
        wire.append((b.get(ulpi.dir.i), b.get(ulpi.nxt.i), b.get(ulpi.data.i), phy.sampled_kind))
        busy.append(b.get(w.busy))
        obs.append((b.get(dec.last_rx_command), b.get(w.done), b.get(w.read_data)))
        if b.get(w.done):
            dones.append((b.cycle, b.get(w.read_data)))

    st = {"ls": 1, "vbus": 3}

    def a_cmd():
        st["ls"] = rng.randrange(4)
        if rng.random() < 0.3:
            st["vbus"] = rng.randrange(4)
        return rxcmd(st["ls"], st["vbus"], 0, rng.random() < 0.3, 0)

    expected = []      # per request: ("read", addr) / ("write", addr, value)

    def driver():
        yield
        yield
        for op in range(rng.randint(12, 30)):
            addr = rng.randrange(0x20)
            is_read = rng.random() < 0.75
            # RxCmd activity around the operation: before (interrupting the command), directly behind the read data, later
            pattern = rng.choice(["none", "before", "interrupt", "behind", "behind", "later"])
            if pattern == "before":
                phy.schedule(act_rxcmds(rng, [a_cmd() for _ in range(rng.randint(1, 3))], garbage=phy.garbage), at=b.cycle)
            b.set(w.address, addr)
            value = 0x80 | rng.randrange(128)
            b.set(w.write_data, value)
            for _ in range(rng.randint(0, 3)):
                yield
            n_done = len(dones)
            b.set(w.read_request if is_read else w.write_request, 1)
            yield
            b.set(w.read_request, 0)
            b.set(w.write_request, 0)
            if pattern == "interrupt":
                phy.schedule(act_rxcmds(rng, [a_cmd() for _ in range(rng.randint(1, 3))], garbage=phy.garbage), at=b.cycle + rng.randint(0, 4))
                res.bin("read_interrupted")
            if pattern == "behind" and is_read:
                # delivered by the model without releasing DIR after the register data (ULPI 1.1 3.8.3.1, back-to-back RxCmd)
                phy.schedule(act_rxcmds(rng, [a_cmd() for _ in range(rng.randint(1, 3))], garbage=phy.garbage), at=0)
                res.bin("read_then_rxcmd_dir_held")
            res.sig(op, addr, is_read, pattern, value)
            if len(res.desc["ops"]) < 8:
                res.desc["ops"].append(("read" if is_read else "write", addr, pattern))
            waited = 0
            while len(dones) == n_done:
                yield
                waited += 1
                if waited > 300:
                    res.violation("register_operation_never_done", "%s of register %#04x: no `done` within 300 cycles" % ("read" if is_read else "write", addr))
                    return
            if is_read:
                res.event("reads_done")
                res.event("read_data_compared")
                got = dones[-1][1]
                # the value the PHY actually put on the wires for this read
                want = phy.reg_reads[-1][2] if phy.reg_reads else None
                if want is None or phy.reg_reads[-1][1] != addr:
                    res.violation("read_command_wrong_address", "read of %#04x: PHY saw reads %s" % (addr, phy.reg_reads[-2:]))
                elif got != want:
                    res.violation("read_data_wrong", "read of %#04x: read_data=%#04x, PHY presented %#04x" % (addr, got, want))
            else:
                if phy.regs.get(addr) != value:
                    res.violation("window_write_not_committed", "write %#04x to %#04x done, PHY register holds %s" % (value, addr, phy.regs.get(addr)))
            if pattern == "later":
                phy.schedule(act_rxcmds(rng, [a_cmd() for _ in range(rng.randint(1, 2))], garbage=phy.garbage), at=b.cycle + rng.randint(0, 3))
            for _ in range(rng.randint(1, 12)):
                yield
            waited = 0
            while phy.rx_pending and waited < 200:
                yield
                waited += 1
        for _ in range(8):
            yield

    b.add_monitor(monitor)
    b.add_driver(driver())
    b.run()
    res.cycles = b.cycle
    if b.hit_max_cycles:
        res.violation("harness_max_cycles", "read session did not finish")
        return
    # last_rx_command must follow the RxCmds and never take the register data.  The gating of the decoder with
    # `window.busy` is this harness' own glue (copied from UTMITranslator), so RxCmds presented while the window is busy
    # are expected to be skipped here (their loss through the real wiring is judged in the translator sessions).
    n = len(wire)
    s_act, s_cmd, q_act, q_cmd, act_reason, cmd_reason, data, notes = reference_pass(wire, busy)
    for c in range(W + 2, n):
        cands = set(q_cmd[c - 1 - W:c])
        if None in cands:
            continue
        got = obs[c][0]
        if len(cands) == 1:
            res.event("status_cycles_judged")
        if got in cands:
            continue
        regvals = set(wire[k][2] for k in range(max(1, c - W - 1), c) if wire[k][3] == "regdata")
        if got in regvals:
            res.violation("register_data_taken_as_rxcmd", "cycle %d: last_rx_command=%#04x is the register-read data, most recent RxCmd is %#04x; wire: %s"
                          % (c, got, s_cmd[c - 1], fmt_wire(wire, c - 8, c)))
        else:
            res.violation("status_last_rx_command_mismatch", "cycle %d: last_rx_command=%#04x, most recent RxCmd outside a register operation %#04x; wire: %s"
                          % (c, got, q_cmd[c - 1], fmt_wire(wire, c - 8, c)))
    for k in range(1, n):
        d, nx, byte, kind = wire[k]
        if d and wire[k - 1] and wire[k - 1][0] and not nx and kind == "cmd":
            res.event("rxcmds_presented")
            if busy[k]:
                res.unjudged += 1
    res.nontrivial = res.events.get("reads_done", 0) >= 3


def run_case(rng, tier, res):
    proxy = ResProxy(res)
    try:
        if rng.random() < 0.15:
            run_read_case(rng, tier, proxy)
        else:
            run_translator_case(rng, tier, proxy)
    finally:
        proxy._col.flush()
