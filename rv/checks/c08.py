"""C08 - device address and configuration change only when their request completes.

DUT: the same real `USBDevice` as C07 (standard control endpoint with random descriptors, real bulk IN endpoint 1,
real bulk OUT endpoint 2) plus a passive spy endpoint (an object with an `EndpointInterface`, added through
`USBDevice.add_endpoint`) whose `active_address` / `active_config` inputs show the device registers.

Workload (host = rv/ref/c07_ctrl.py `Session`, protocol-level contradictions are left to C07 and only end the
session): a case is 20-28 episodes on up to 3 freshly elaborated devices.  Episodes: SET_ADDRESS / SET_CONFIGURATION
with wValue from {small, bit 7 set, 16-bit, equal to the current value, 0, one bit different from the current
value}; between SETUP and status stage and after completion 0-2 of: address probes (OUT to the bulk OUT endpoint at
the current address, at the pending/previous address, at a one-bit-different address), bulk IN with/without ACK,
bulk OUT, transactions of other devices with their ACKs, SOF; status ZLP left un-ACKed and fetched again; request
abandoned after SETUP or after the un-ACKed status ZLP and followed by other (ACK-carrying) transfers; other
complete control transfers (GET_DESCRIPTOR ...: many ACKs, none may change a register); bus reset (SE0 310-360
cycles) between transfers, right after a SETUP, and after an un-ACKed status ZLP; SE0 shorter than 2.5 us (no
reset); VBUS drop (`session_end`); bus reset whose SE0 starts 0-3 cycles after the host's status ACK (inside the
commit window: the value may be adopted, the reset then clears it).  Device configuration per session as in C07: 12 MHz
or 60 MHz full-speed timing tables (both tiers), endpoint-0 packet size {64, 8, 16, 32}, optional skiplist.

Monitor: every cycle `active_address`, `active_config`, `reset_detected` -> list of change events / reset strobes.
Oracle (independent, from USB 2.0 9.4.6 / 9.4.7 / 9.1.1 and the statement): a change of a register is legal only
  (a) to 0 within 4 cycles after a reset strobe (or while VBUS is absent), or
  (b) once, between the first byte of the host ACK that answers the status-stage ZLP of a SET_ADDRESS /
      SET_CONFIGURATION transfer and 16 cycles after that ACK, to wValue[6:0] / wValue[7:0] of that request.
Each completed request must produce its change (if the value differs) in that window; after SE0 >= 310 cycles or a
VBUS drop both registers are 0; a probe is answered iff it is addressed to the reference address (which changes
exactly at (b)).

Mechanism names are symptoms (`change_without_completed_request`, `commit_before_status_ack`, `wrong_value_committed`,
`no_change_after_status_ack`, `not_cleared_by_bus_reset`, `answers_at_wrong_address`, `silent_at_current_address`)
except two history patterns that were found as defects of the original tree (findings/C08.md; repaired in /repo,
`fixed` in known_findings.d/C08.json, so fatal if they reappear):
  commit_on_foreign_ack         - the change comes right after an ACK of another transaction while the request is
                                  between SETUP and status stage, with the request's value
  commit_by_stale_set_request   - a SET_ADDRESS/SET_CONFIGURATION was abandoned earlier on this device and the changed
                                  register is the one of that abandoned request, written with wValue of the latest SETUP
                                  (or the completed request did not change its own register for the same reason)

Not judged: protocol answers (C07), reset timing between 2.5 us and 5 us of SE0 (not generated; C19), SET_ADDRESS /
SET_CONFIGURATION with wLength != 0 or a recipient other than the device (USB 2.0 9.4.6/9.4.7 call the behaviour
undefined and the statement does not decide it: not generated), a reset strobe coinciding with the commit cycle (SE0
and a host packet cannot be on the wire together), behaviour after the first contradiction on a device.
"""
from rv.sim import Bench
from rv.usb2host import UTMIHost
from rv.ref import usb2 as U
from rv.ref import c07_ctrl as C
from rv.checks.c07 import build_device, start_device, draw_profiles, draw_config

PROPERTY = "C08"
CASES = {"quick": 272, "thorough": 4800}
RULE = ("case = 20-28 episodes on up to 3 devices: SET_ADDRESS/SET_CONFIGURATION with hostile wValue, probes and foreign "
        "ACK-carrying traffic between SETUP and status, un-ACKed status retries, abandoned requests followed by other "
        "transfers, bus resets / short SE0 / VBUS drops at chosen points; non-trivial = >=1 completed address change, "
        ">=1 completed configuration change and >=1 reset; distinct = hash of all wire-level steps")
REQUIRED_BINS = [
    "set_address_completed", "set_config_completed", "value_bit7_set", "value_16bit", "value_same_as_current",
    "value_one_bit_from_current", "status_zlp_unacked_then_retried", "foreign_ack_before_nodata_status",
    "probe_current_pending", "probe_new_pending", "probe_old_after_commit", "probe_current_idle", "probe_one_bit_off",
    "abandoned_after_setup", "abandoned_after_unacked_zlp", "other_transfer_with_acks", "reset_idle",
    "reset_after_setup", "reset_after_unacked_zlp", "reset_with_nonzero_address", "reset_with_nonzero_config",
    "short_se0", "vbus_drop", "bulk_ack_after_commit", "timing_fs60", "timing_fs12", "reset_right_after_status_ack",
]
REQUIRED_EVENTS = ["cycles_monitored", "address_changes_seen", "config_changes_seen", "reset_strobes_seen",
                   "commits_judged", "probes_judged", "resets_judged", "sessions"]
ASSUMPTIONS = [
    "a register change is attributed to a host ACK if it happens between the ACK's first cycle and 16 cycles after its last",
    "a reset strobe (reset_detected) justifies a change to 0 in the same or the following 4 cycles",
    "SE0 of 310-360 cycles is a reset, SE0 of 2-120 cycles is not; lengths in between are not generated",
    "protocol-level contradictions (C07) end the session unjudged",
    "the two history-based mechanism names are decided from the wire history and the observed register/value only",
]
TIMEOUT = {"quick": 3000, "thorough": 6 * 3600}      # generous: the machine may be heavily shared

ACK_WINDOW = 16
RESET_WINDOW = 4


class Judge:
    """Change-event oracle.  Fed by the per-cycle monitor and the reference log of the session."""

    def __init__(self, res, ses):
        self.res, self.ses = res, ses
        self.events = []           # (cycle, reg, old, new)
        self.resets = []           # cycles with reset_detected high
        self.vbus_low = []         # (start, end) of session_end periods
        self.done = 0              # events judged so far
        self.used = set()          # ids of commit marks already matched
        self.failed = False
        self.reg = {"addr": 0, "cfg": 0}

    def viol(self, mech, detail):
        if self.failed:
            return
        self.failed = True
        self.res.violation(mech, detail + " | last steps: %s" % (self.ses.steps[-14:],))

    # -- helpers over the reference log
    def _marks(self, kind):
        return [m for m in self.ses.ref.log if m["kind"] == kind]

    def _abandoned_set_request(self, before, reg):
        """An earlier SET request for `reg` on this device that never completed and was followed by another SETUP or reset."""
        want = "set_address" if reg == "addr" else "set_config"
        log = self.ses.ref.log
        for i, m in enumerate(log):
            if m["kind"] == "setup" and m["cycle"] < before and m["xfer"].kind == want and not m["xfer"].done:
                if any(n["kind"] in ("setup", "reset") and n["cycle"] <= before for n in log[i + 1:]):
                    return m
        return None

    def _latest_setup(self, before):
        out = None
        for m in self.ses.ref.log:
            if m["kind"] == "setup" and m["cycle"] <= before:
                out = m
        return out

    def judge_events(self):
        """Judge all change events seen so far (called at points where the reference log is complete)."""
        ref = self.ses.ref
        while self.done < len(self.events) and not self.failed:
            t, reg, old, new = self.events[self.done]
            self.done += 1
            want = "set_address" if reg == "addr" else "set_config"
            mask = 0x7F if reg == "addr" else 0xFF
            # (a) reset
            if new == 0 and (any(r <= t <= r + RESET_WINDOW for r in self.resets) or
                             any(a <= t <= b + RESET_WINDOW for a, b in self.vbus_low)):
                self.res.bin("change_by_reset")
                continue
            # (b) completed request
            ok = False
            for m in self._marks("commit"):
                x = m["xfer"]
                if x.kind == want and id(m) not in self.used and m["ack"][0] <= t <= m["ack"][1] + ACK_WINDOW:
                    self.used.add(id(m))
                    self.res.event("commits_judged")
                    if new != (x.value & mask):
                        self.viol("wrong_value_committed", "%s changed %d -> %d at cycle %d after %s (wValue 0x%04x)" % (
                            reg, old, new, t, x.name(), x.value))
                    ok = True
                    break
            if ok:
                continue
            # not justified: name the pattern
            latest = self._latest_setup(t)
            lx = latest["xfer"] if latest else None
            detail = "%s changed %d -> %d at cycle %d; latest SETUP %s" % (reg, old, new, t, lx.name() if lx else None)
            stale = self._abandoned_set_request(latest["cycle"] if latest else t, reg)
            fa = [m["cycle"] for m in self._marks("foreign_ack") if m["cycle"] - 2 <= t <= m["cycle"] + ACK_WINDOW]
            if stale is not None and lx is not None and new == (lx.value & mask) and not (lx.kind == want and lx.done):
                self.viol("commit_by_stale_set_request", detail + "; abandoned earlier: %s" % stale["xfer"].name())
            elif lx is not None and lx.kind == want and not lx.done and new == (lx.value & mask) and fa:
                self.viol("commit_on_foreign_ack", detail + "; foreign ACK ended at cycle %s, status stage not done" % fa)
            elif lx is not None and lx.kind == want and not lx.done and new == (lx.value & mask):
                self.viol("commit_before_status_ack", detail + "; status ZLP sent at %s, no host ACK yet" % lx.status_zlp_sent)
            else:
                self.viol("change_without_completed_request", detail)
        return not self.failed

    def judge_commit_liveness(self, now):
        """Every completed request whose ACK window has passed must have produced its change."""
        for m in self._marks("commit"):
            x = m["xfer"]
            if x.kind not in ("set_address", "set_config") or m.get("checked") or now <= m["ack"][1] + ACK_WINDOW + 2:
                continue
            m["checked"] = True
            reg = "addr" if x.kind == "set_address" else "cfg"
            mask = 0x7F if reg == "addr" else 0xFF
            if id(m) in self.used:
                continue
            if m["before"][reg] == (x.value & mask):
                self.res.event("commits_judged")        # same value: no event expected
                self.res.bin("commit_same_value_no_event")
                continue
            detail = "%s completed (ACK at %s) but %s stayed %d" % (x.name(), m["ack"], reg, self.reg[reg])
            if self._abandoned_set_request(m["cycle"], "addr") or self._abandoned_set_request(m["cycle"], "cfg"):
                self.viol("commit_by_stale_set_request", detail + "; an earlier SET request was abandoned on this device")
            else:
                self.viol("no_change_after_status_ack", detail)
        return not self.failed


def run_case(rng, tier, res):
    budget = rng.randint(20, 28)
    res.desc = {"sessions": []}
    for k in range(3):
        if budget < 3:
            break
        budget -= run_session(rng, res, budget, tier)
    res.nontrivial = bool(res.bins.get("set_address_completed") and res.bins.get("set_config_completed")
                          and res.events.get("resets_judged"))


def run_session(rng, res, n_episodes, tier):
    descs = C.make_descriptors(rng)
    fs60, ep0_mps, skip_get_config = draw_config(rng, res)
    dev, utmi, ctrl, ep_in, ep_out, spy = build_device(descs, fs60=fs60, ep0_mps=ep0_mps, skip_get_config=skip_get_config)
    b = Bench(dev, domain="usb", freq=60e6, max_cycles=90000)
    gap_profile, ready_profile = draw_profiles(rng)
    host = UTMIHost(b, utmi, rng, timing="fs60" if fs60 else "fs12", ready_profile=ready_profile, gap_profile=gap_profile)
    acks_in_windows = rng.random() < 0.6
    ses = C.Session(b, host, rng, res, descs, utmi, report=False, foreign_ack_in_windows=acks_in_windows,
                    resp_window=120 if fs60 else C.RESP_WINDOW, mps=ep0_mps,
                    get_config_override=0x5A if skip_get_config else None)
    ref = ses.ref
    jd = Judge(res, ses)
    p_inter = rng.choice([0.2, 0.4, 0.6, 0.8])
    p_abandon = rng.choice([0.0, 0.0, 0.15, 0.3])
    d = {"timing": "fs60" if fs60 else "fs12", "gap_profile": gap_profile, "ready_profile": ready_profile, "p_inter": p_inter, "foreign_acks_in_vulnerable_windows": acks_in_windows, "p_abandon": p_abandon,
         "episodes": n_episodes}
    res.desc["sessions"].append(d)
    res.sig(gap_profile, ready_profile)
    sig_addr, sig_cfg, sig_rst = spy.interface.active_address, spy.interface.active_config, dev.reset_detected
    b.watch(sig_addr, sig_cfg, sig_rst, utmi.session_end)
    state = {"vb": None, "prev_addr": None, "stop": False}

    def monitor(b):
        a, c, r, se = b.get(sig_addr), b.get(sig_cfg), b.get(sig_rst), b.get(utmi.session_end)
        res.event("cycles_monitored")
        if r:
            jd.resets.append(b.cycle)
            res.event("reset_strobes_seen")
        if se:
            if state["vb"] is None:
                state["vb"] = b.cycle
                jd.vbus_low.append((b.cycle, b.cycle))
            else:
                jd.vbus_low[-1] = (state["vb"], b.cycle)
        else:
            state["vb"] = None
        if a != jd.reg["addr"]:
            jd.events.append((b.cycle, "addr", jd.reg["addr"], a))
            jd.reg["addr"] = a
            res.event("address_changes_seen")
        if c != jd.reg["cfg"]:
            jd.events.append((b.cycle, "cfg", jd.reg["cfg"], c))
            jd.reg["cfg"] = c
            res.event("config_changes_seen")

    # remember the register values at the time a request completes (for "same value" requests)
    orig_mark = ref._mark

    def mark(kind, **kw):
        if kind == "commit":
            kw["before"] = dict(state["before_commit"])
        orig_mark(kind, **kw)
    ref._mark = mark

    def checkpoint():
        """Judge what has been observed so far; returns False if the session must stop."""
        ok = jd.judge_events() and jd.judge_commit_liveness(b.cycle)
        return ok and not ses.episode_failed

    # ---------------------------------------------------------------- probes (hooked into Session.foreign)
    def probe(addr, name):
        if not checkpoint():
            return
        ses.step("PROBE", addr, name)
        res.bin(name)
        pay = bytes(rng.randrange(256) for _ in range(rng.choice([0, 1, 8])))
        yield from host.token(U.OUT, addr, C.Session.BULK_OUT_EP)
        yield from host.idle(rng.randint(1, 4))
        yield from host.data(U.DATA1 if ses.out_toggle else U.DATA0, pay)
        r = yield from ses._response()
        yield from host.gap()
        if not checkpoint():
            return
        res.event("probes_judged")
        answered = r["kind"] != "timeout"
        if addr == ref.addr:
            ses.out_toggle ^= 1
            if not answered:
                jd.viol("silent_at_current_address", "OUT to bulk endpoint at address %d (reference address) not answered" % addr)
        elif answered:
            jd.viol("answers_at_wrong_address", "OUT to bulk endpoint at address %d answered with %s, reference address is %d" % (
                addr, C.brief(r), ref.addr))

    def probe_current():
        x = ref.cur
        pending = x is not None and not x.done and x.kind == "set_address"
        yield from probe(ref.addr, "probe_current_pending" if pending else "probe_current_idle")

    def probe_other():
        x = ref.cur
        if x is not None and not x.done and x.kind == "set_address" and (x.value & 0x7F) != ref.addr:
            yield from probe(x.value & 0x7F, "probe_new_pending")
        elif state["prev_addr"] is not None and state["prev_addr"] != ref.addr and rng.random() < 0.6:
            yield from probe(state["prev_addr"], "probe_old_after_commit")
        else:
            yield from probe(ref.addr ^ (1 << rng.randrange(7)), "probe_one_bit_off")

    ses.extra_foreign = [probe_current, probe_other]

    # ---------------------------------------------------------------- episodes
    def draw_value(reg):
        cur = ref.addr if reg == "addr" else ref.cfg
        k = rng.choice(["small", "small", "bit7", "wide", "same", "onebit", "zero"])
        if k == "small":
            return rng.randrange(1, 128 if reg == "addr" else 256)
        if k == "bit7":
            res.bin("value_bit7_set")
            return 0x80 | rng.randrange(128)
        if k == "wide":
            res.bin("value_16bit")
            return (rng.randrange(1, 256) << 8) | rng.randrange(256)
        if k == "same":
            res.bin("value_same_as_current")
            return cur
        if k == "onebit":
            res.bin("value_one_bit_from_current")
            return cur ^ (1 << rng.randrange(7))
        return 0

    def set_request(reg):
        v = draw_value(reg)
        s8 = C.SET_ADDRESS(v) if reg == "addr" else C.SET_CONFIGURATION(v)
        old_addr = ref.addr
        state["before_commit"] = dict(jd.reg)
        fate = "complete"
        if rng.random() < p_abandon:
            fate = rng.choice(["abandon_after_setup", "abandon_after_zlp", "reset_after_setup", "reset_after_zlp"])
        if fate == "complete" and rng.random() < 0.12:
            # bus reset starting 0-3 cycles after the host's status ACK (inside the commit window): the request's value
            # may be adopted, the reset then clears it
            a = ref.addr
            ok = yield from ses.w_setup(a, s8)
            if not ok:
                return
            ok, r = yield from ses.w_in(a, 0, "ack", gap=False)
            res.bin("reset_right_after_status_ack")
            yield from do_reset("se0", pre=rng.randint(0, 3))
            return
        if fate == "complete":
            ok = yield from ses.transfer_nodata(s8, p_inter=p_inter, p_noack=0.25)
            if ok and checkpoint():
                res.bin("set_address_completed" if reg == "addr" else "set_config_completed")
                if reg == "addr" and old_addr != ref.addr:
                    state["prev_addr"] = old_addr
                # ACK-carrying traffic right after completion: must not change anything any more
                if rng.random() < 0.5:
                    yield from ses.foreign("bulk_in_ack")
                    res.bin("bulk_ack_after_commit")
                yield from ses.interleave("after_commit", p_inter)
            return
        a = ref.addr
        ok = yield from ses.w_setup(a, s8)
        if not ok:
            return
        yield from ses.interleave("after_setup_nodata", p_inter)
        if fate.endswith("after_zlp"):
            yield from ses.w_in(a, 0, "none")
            yield from ses.interleave("before_status_retry", p_inter)
        if fate.startswith("reset"):
            res.bin("reset_after_setup" if fate == "reset_after_setup" else "reset_after_unacked_zlp")
            yield from do_reset()
        else:
            res.bin("abandoned_after_setup" if fate == "abandon_after_setup" else "abandoned_after_unacked_zlp")

    def do_reset(kind=None, pre=3):
        kind = kind or rng.choice(["se0", "se0", "se0", "vbus"])
        if jd.reg["addr"]:
            res.bin("reset_with_nonzero_address")
        if jd.reg["cfg"]:
            res.bin("reset_with_nonzero_config")
        if kind == "se0":
            yield from ses.bus_reset(pre=pre)
        else:
            res.bin("vbus_drop")
            yield from ses.vbus_drop()
        state["prev_addr"] = None
        if not checkpoint():
            return
        res.event("resets_judged")
        if jd.reg["addr"] != 0:
            jd.viol("not_cleared_by_bus_reset", "address is %d after %s" % (jd.reg["addr"], ses.steps[-1],))
        elif jd.reg["cfg"] != 0:
            jd.viol("not_cleared_by_bus_reset", "configuration is %d after %s" % (jd.reg["cfg"], ses.steps[-1],))

    def other_transfer():
        res.bin("other_transfer_with_acks")
        while True:
            s8, shape, name = ses.random_supported()
            if s8[1] not in (5, 9):
                break
        state["before_commit"] = dict(jd.reg)
        if shape == "in":
            yield from ses.transfer_in(s8, p_inter=p_inter)
        elif shape == "out":
            yield from ses.transfer_out(s8, p_inter=p_inter)
        else:
            yield from ses.transfer_nodata(s8, p_inter=p_inter)

    done = [0]

    def driver():
        start_device(b, dev, utmi, ep_in, ep_out, fs60)
        state["before_commit"] = dict(jd.reg)
        yield from host.idle(8)
        for _ in range(n_episodes):
            done[0] += 1
            r = rng.random()
            if r < 0.36:
                yield from set_request("addr")
            elif r < 0.64:
                yield from set_request("cfg")
            elif r < 0.78:
                yield from other_transfer()
            elif r < 0.9:
                res.bin("reset_idle")
                yield from do_reset()
            elif r < 0.95:
                res.bin("short_se0")
                yield from ses.short_se0()
            else:
                yield from ses.foreign()
            if not checkpoint():
                return
        yield from host.idle(ACK_WINDOW + 6)
        checkpoint()

    b.add_monitor(monitor)
    b.add_driver(driver())
    b.run()
    jd.judge_events()
    jd.judge_commit_liveness(b.cycle + 1000)
    res.cycles += b.cycle
    res.event("sessions")
    if ses.muted:
        res.unjudged += 1
        d["left_to_c07"] = ses.muted[0][0]
    d["steps"] = [list(s) if isinstance(s, tuple) else s for s in ses.steps[:30]]
    if b.hit_max_cycles:
        res.violation("harness_max_cycles", "session did not finish in %d cycles" % b.max_cycles)
    return done[0]
