"""C53 - HyperRAM transactions use the correct command word and never contend the bus.

DUT: luna.gateware.interface.psram.HyperRAMInterface on a HyperBusPHY record (2:1 PHY view: one sync
     cycle = one HyperBus clock = two bytes; dq[15:8] is the byte of the rising edge, dq[7:0] the byte
     of the falling edge; a clock pulse is emitted in every cycle with clk_en = 1).

Workload: 20..36 requests per case - register/memory reads and writes, random / walking-bit / boundary
     addresses, linear and wrapped burst, burst lengths 1..8 with `final_word` raised exactly for the
     last word (and toggled at random while no word can be transferred), `start_transfer` held 1..8
     cycles (as the interface documents) with the request inputs scrambled after the first cycle, a new
     request 0..6 cycles after `idle`.  A HyperRAM memory model written for this check sits on the PHY
     record: it counts clock pulses while CS is asserted, decodes the command word, drives RWDS high
     during the command (fixed 2x latency device) and low afterwards with the falling edge at a random
     half cycle, returns read data with RWDS strobes after a PHY round trip of 1..4 cycles in either
     clock alignment (whole word in one cycle, or split over two cycles), optionally pauses RWDS between
     words (page crossing), and puts garbage on every line it does not drive.

Reference (HyperBus specification / W956x8MBYA, S27KL0641 data sheets, never luna code):
     CA[47] = R/W# (1 = read), CA[46] = address space (1 = register), CA[45] = burst type (1 = linear),
     CA[44:16] = A[31:3], CA[15:3] = 0, CA[2:0] = A[2:0]; CA is transferred in the first three clocks
     after CS is asserted.  The latency count starts with the third clock; with the default latency of
     7 clocks and fixed 2x latency the first data word of a memory write travels with clock 3 + 14 = 17.
     Register writes have zero latency: the data word travels with clock 4 and the master never drives
     RWDS.  The memory drives RWDS during CA of every transaction and during the whole of a read; it
     drives DQ from clock 17 of a read until CS is released.

Monitors / oracle (all on sampled record signals, every cycle):
  * request accepted = `start_transfer` and `idle` sampled in the same cycle; each accepted request must
    produce exactly one CS-framed bus transaction (CS rises within 6 cycles), nothing else may;
  * the three command clocks carry the reference CA word of the request latched at acceptance, with dq.e;
  * CS stays asserted until the transaction has ended (register write: data clock; memory write: the
    word presented with `final_word` has been clocked; read: `read_ready` with `final_word`), then is
    released within 8 cycles, and is low for at least one cycle before the next transaction's clocks;
  * memory write: data word j (the `write_data` sampled with the j-th `write_ready`) travels with clock
    17 + j, dq.e = 1, rwds.e = 1, rwds.o = 0, no word lost/added, nothing clocked after the last word;
  * register write: data with clock 4, no further clock;
  * dq.e is 0 outside command / write-data clocks (latency, read, idle), rwds.e is 0 outside memory-write
    data clocks; in cycles without a clock pulse the drive allowed is that of either neighbouring phase;
  * read: every `read_ready` returns the next word the memory model sent, no strobe without a word
    (the RWDS fall after the command must not be taken for data), no word skipped.

Not judged: PHY-level skew (HyperRAMPHY uses vendor primitives), `phy.reset`, the 4:1 DQS variant
(HyperRAMDQSInterface: its DATAVALID/BURSTDET come from vendor primitives), variable-latency devices
(the block documents a fixed-latency part), clock pauses inside a transaction (legal on HyperBus),
start strobes while the interface is not idle other than the documented 1..8 cycle hold.
"""
from rv.sim import Bench

PROPERTY = "C53"
CASES = {"quick": 128, "thorough": 2000}
RULE = ("case = (PHY round trip 1..4, read alignment whole/split, 20..36 requests: kind, address pattern, burst type, "
        "burst length 1..8, start hold 1..8, gap after idle 0..6, input scramble after acceptance, final_word glitches, "
        "RWDS fall offset/shape, RWDS pauses); non-trivial = all four kinds of transaction and a multi-word burst were "
        "completed; distinct = hash of configuration + request script")
REQUIRED_BINS = ["reg_write", "reg_read", "mem_write", "mem_read", "burst_1", "burst_2_4", "burst_5_8",
                 "hold_1", "hold_2_6", "hold_7_8", "align_whole", "align_split", "rt_1", "rt_4",
                 "wrapped_burst", "linear_burst", "addr_low3_nonzero", "addr_bit31", "scrambled_after_accept",
                 "final_word_glitch", "rwds_pause", "rwds_fall_midcycle", "request_first_idle_cycle",
                 "mem_write_multiword", "mem_read_multiword"]
REQUIRED_EVENTS = ["requests_accepted", "transactions_closed", "ca_words_checked", "write_words_checked",
                   "read_words_checked", "latency_clocks_checked", "drive_cycles_checked", "cs_gaps_checked"]
ASSUMPTIONS = ["device in fixed 2x latency mode with the default latency count 7 (14 clocks, data with clock 17)",
               "PHY round trip (clock pulse -> data at phy.dq.i) of 1..4 sync cycles",
               "request inputs are valid in the first cycle start_transfer is seen together with idle",
               "write_data/final_word valid in every cycle write_ready may be raised; final_word valid with every read_ready"]

REF_LATENCY = 14            # 2 x 7 clocks
FIRST_DATA_CLOCK = 3 + REF_LATENCY
END_BOUND = 8
START_BOUND = 6


def ref_ca(write, reg, single_page, addr):
    rw = 0 if write else 1
    burst = 0 if single_page else 1
    ca = (rw << 47) | ((1 if reg else 0) << 46) | (burst << 45) | (((addr >> 3) & 0x1FFFFFFF) << 16) | (addr & 7)
    return [(ca >> 32) & 0xFFFF, (ca >> 16) & 0xFFFF, ca & 0xFFFF]


class Txn:
    def __init__(self, req, plan):
        self.req = req
        self.plan = plan
        self.npulse = 0
        self.ca = []
        self.consumed = []          # (word, final) taken with write_ready
        self.data_pulses = 0
        self.sent = []              # read: (word, arrival_done_cycle)
        self.got = 0
        self.ended_logically = None  # cycle at which the transaction's end condition occurred
        self.broken = False         # stop judging after the first structural violation (cascade)
        self.cs_rise = None
        self.p3 = None
        self.rw_high_until = None
        self.next_word_pulse = FIRST_DATA_CLOCK
        self.words_sent = 0


def run_case(rng, tier, res):
    from luna.gateware.interface.psram import HyperBusPHY, HyperRAMInterface

    phy = HyperBusPHY()
    dut = HyperRAMInterface(phy=phy)
    rt = rng.choice([1, 1, 2, 3, 4, 4])
    split = rng.random() < 0.5
    nreq = rng.randint(20, 36)
    res.bin("rt_%d" % rt)
    res.bin("align_split" if split else "align_whole")

    b = Bench(dut, domain="sync", freq=60e6, max_cycles=nreq * 400 + 500)
    ins = [dut.address, dut.register_space, dut.perform_write, dut.single_page, dut.start_transfer, dut.final_word,
           dut.write_data, phy.dq.i, phy.rwds.i]
    outs = [dut.idle, dut.read_ready, dut.write_ready, dut.read_data, phy.clk_en, phy.cs, phy.dq.o, phy.dq.e,
            phy.rwds.o, phy.rwds.e]
    b.watch(*ins, *outs)

    def rnd_addr():
        r = rng.random()
        if r < 0.35:
            return rng.getrandbits(32)
        if r < 0.55:
            return 1 << rng.randrange(32)
        if r < 0.7:
            return 0xFFFFFFFF ^ (1 << rng.randrange(32))
        if r < 0.8:
            return rng.choice([0, 7, 8, 0xFFFFFFFF, 0x80000000, 0x7FFFFFF8, 0x00BBCCDD, 0x0000FFF8, 0xFFFF0007])
        return (rng.getrandbits(29) << 3) | rng.randint(1, 7)

    def rnd_word():
        r = rng.random()
        if r < 0.6:
            return rng.getrandbits(16)
        if r < 0.8:
            return 1 << rng.randrange(16)
        return rng.choice([0, 0xFFFF, 0x00FF, 0xFF00, 0x8001, 0xA55A])

    # ------------------------------------------------------------------------------ request script
    script = []
    for i in range(nreq):
        kind = rng.choice(["reg_write", "reg_read", "mem_write", "mem_write", "mem_read", "mem_read"])
        r = rng.random()
        n = 1 if r < 0.3 else rng.randint(2, 4) if r < 0.7 else rng.randint(5, 8)
        if kind == "reg_read" and rng.random() < 0.7:
            n = 1
        script.append({
            "kind": kind, "addr": rnd_addr(), "single": rng.random() < 0.4, "n": n,
            "hold": rng.choice([1, 1, 2, 3, 4, 5, 6, 7, 7, 8, 8]), "gap": rng.choice([0, 0, 0, 1, 2, rng.randint(0, 6)]),
            "scramble": rng.random() < 0.5, "words": [rnd_word() for _ in range(8)],
        })
    res.desc = {"rt": rt, "split": split, "requests": [{k: v for k, v in s.items() if k != "words"} for s in script[:6]]}
    res.sig(rt, split, [(s["kind"], s["addr"], s["single"], s["n"], s["hold"], s["gap"], s["scramble"], s["words"]) for s in script])

    st = {
        "pending": [],          # accepted requests without a bus transaction yet
        "cur": None,            # open bus transaction
        "prev_cs": 0,
        "sched": {},            # cycle -> dict(r1, r0, dhi, dlo)
        "open_requests": 0,     # accepted and not yet closed on the bus
        "last_accept": None,
        "cs_low_run": 0,
        "closed_kinds": set(),
        "multi": 0,
        "gap_after_final": None,
        "script_i": -1,         # index of the script entry whose start is currently being driven
        "accepted_for": set(),
        "tail_until": -1, "tail_read": False,
    }

    def new_plan(req):
        """Per-transaction behaviour of the user side and of the memory, drawn at acceptance."""
        s = req["script"]
        n = s["n"]
        plan = {"n": n, "words": list(s["words"]),
                "fall_d": rng.randint(0, 2), "fall_mid": rng.random() < 0.5,
                "glitch": rng.random() < 0.5,
                "pauses": {}}
        if rng.random() < 0.35:
            for j in range(1, n):
                if rng.random() < 0.4:
                    plan["pauses"][j] = rng.randint(1, 4)
        if rng.random() < 0.1:
            plan["pauses"][0] = rng.randint(1, 3)       # memory is a little late with the first word
        plan["rdata"] = [rnd_word() for _ in range(n + 6)]
        return plan

    def sched(c):
        return st["sched"].setdefault(c, {})

    def violation(t, mech, detail):
        if t is not None:
            if t.broken:
                return
            t.broken = True
        res.violation(mech, "cyc=%d %s" % (b.cycle, detail))

    # ------------------------------------------------------------------------------ per-cycle monitor
    def monitor(b):
        g = b.get
        cyc = b.cycle
        start, idle = g(dut.start_transfer), g(dut.idle)
        cs, clk_en = g(phy.cs), g(phy.clk_en)
        dq_o, dq_e = g(phy.dq.o), g(phy.dq.e)
        rw_o, rw_e = g(phy.rwds.o), g(phy.rwds.e)
        write_ready, read_ready = g(dut.write_ready), g(dut.read_ready)
        final = g(dut.final_word)
        cur = st["cur"]

        # ---- request acceptance
        if start and idle:
            req = {"write": g(dut.perform_write), "reg": g(dut.register_space), "single": g(dut.single_page),
                   "addr": g(dut.address), "cyc": cyc, "script": script[max(st["script_i"], 0)]}
            req["kind"] = ("reg_" if req["reg"] else "mem_") + ("write" if req["write"] else "read")
            req["plan"] = new_plan(req)
            st["pending"].append(req)
            st["open_requests"] += 1
            res.event("requests_accepted")
            if st["script_i"] in st["accepted_for"]:
                res.bin("start_held_past_completion")
            st["accepted_for"].add(st["script_i"])

        # ---- CS framing
        if not cs:
            st["cs_low_run"] += 1
            if st["prev_cs"] and cur is not None:
                close(cur, cyc)
                cur = st["cur"] = None
            if dq_e:
                res.violation("dq_driven_while_cs_released", "cyc=%d dq.e=1 with cs=0" % cyc)
            if rw_e:
                res.violation("rwds_driven_while_cs_released", "cyc=%d rwds.e=1 with cs=0" % cyc)
            res.event("drive_cycles_checked")
            if st["pending"] and cyc - st["pending"][0]["cyc"] > START_BOUND:
                res.violation("request_accepted_but_cs_never_asserted", "request of cyc=%d" % st["pending"][0]["cyc"])
                st["pending"].pop(0)
                st["open_requests"] -= 1
        else:
            if not st["prev_cs"]:
                cur = open_txn(cyc)
                if cur is not None:
                    res.event("cs_gaps_checked")
            elif cur is not None and clk_en and txn_complete(cur) and st["pending"]:
                # clocks continue for a new request although CS was never released
                violation(None, "cs_not_released_between_transactions_after_" + cur.req["kind"],
                          "previous %s ended, next request accepted at cyc=%d, clock pulse with cs still high"
                          % (cur.req["kind"], st["pending"][0]["cyc"]))
                close(cur, cyc)
                cur = open_txn(cyc)
            st["cs_low_run"] = 0
            if cur is not None:
                bus_cycle(cur, cyc, clk_en, dq_o, dq_e, rw_o, rw_e)
        st["prev_cs"] = cs

        # ---- user side: write words taken, read words returned
        if write_ready:
            if cur is None or not cur.req["write"]:
                res.violation("write_ready_outside_write_transaction", "cyc=%d" % cyc)
            else:
                cur.consumed.append((g(dut.write_data), final))
                if (cur.req["reg"] or final) and cur.ended_logically is None:
                    cur.ended_logically = cyc
        if read_ready:
            if cur is None or cur.req["write"]:
                res.violation("read_ready_outside_read_transaction", "cyc=%d" % cyc)
            elif cur.ended_logically is not None and not cur.broken:
                violation(cur, "read_ready_after_final_word", "word strobe after the final word")
            elif not cur.broken:
                j = cur.got
                if j >= len(cur.sent) or cyc < cur.sent[j][1]:
                    violation(cur, "read_ready_without_memory_word",
                              "%s strobe %d at cyc=%d but memory has sent %d words (next complete at %s) clocks=%d"
                              % (cur.req["kind"], j, cyc, len(cur.sent), cur.sent[j][1] if j < len(cur.sent) else None, cur.npulse))
                else:
                    res.event("read_words_checked")
                    rd = g(dut.read_data)
                    if rd != cur.sent[j][0]:
                        violation(cur, "read_data_wrong", "word %d read %#06x memory sent %#06x split=%d" % (j, rd, cur.sent[j][0], split))
                    cur.got += 1
                    if final:
                        cur.ended_logically = cyc
                        if cur.got != cur.plan["n"]:
                            res.unjudged += 1
        if cur is not None and not cur.req["write"] and not cur.broken and cur.ended_logically is None:
            j = cur.got
            if j < len(cur.sent) and cyc > cur.sent[j][1] + 4:
                violation(cur, "read_word_not_reported", "memory word %d complete at cyc=%d never strobed" % (j, cur.sent[j][1]))
        if cur is not None and cur.ended_logically is not None and cyc - cur.ended_logically > END_BOUND and not cur.broken:
            violation(cur, "cs_not_released_after_transaction_end", "%s ended at cyc=%d" % (cur.req["kind"], cur.ended_logically))
        if cur is not None and cur.ended_logically is None and cyc - cur.cs_rise > 60 + 12 * cur.plan["n"] and not cur.broken:
            violation(cur, "transaction_never_ends", "%s opened at cyc=%d clocks=%d" % (cur.req["kind"], cur.cs_rise, cur.npulse))

        # ---- inputs for the next cycle
        drive_user(cur)
        drive_memory(cur, cyc, rw_o, rw_e)

    def txn_complete(t):
        if t.req["write"] and t.req["reg"]:
            return t.npulse >= 4
        if t.req["write"]:
            return t.ended_logically is not None and t.data_pulses >= len(t.consumed)
        return t.ended_logically is not None

    def open_txn(cyc):
        if not st["pending"]:
            res.violation("unrequested_transaction", "cyc=%d cs asserted without an accepted request" % cyc)
            return None
        req = st["pending"].pop(0)
        t = Txn(req, req["plan"])
        t.cs_rise = cyc
        st["cur"] = t
        res.bin(req["kind"])
        n = t.plan["n"]
        if not (req["write"] and req["reg"]):
            res.bin("burst_1" if n == 1 else "burst_2_4" if n <= 4 else "burst_5_8")
        res.bin("wrapped_burst" if req["single"] else "linear_burst")
        if req["addr"] & 7:
            res.bin("addr_low3_nonzero")
        if req["addr"] >> 31:
            res.bin("addr_bit31")
        return t

    def close(t, cyc):
        """CS fell: was the transaction complete?"""
        st["open_requests"] -= 1
        res.event("transactions_closed")
        st["tail_until"] = cyc + rt + 1
        st["tail_read"] = not t.req["write"]
        if t.broken:
            return
        k = t.req["kind"]
        if t.npulse < 3:
            return violation(t, "cs_released_inside_command", "%s only %d clocks" % (k, t.npulse))
        if k == "reg_write":
            if t.npulse < 4:
                return violation(t, "register_write_data_not_clocked", "clocks=%d" % t.npulse)
        elif k == "mem_write":
            if not t.consumed or not t.consumed[-1][1]:
                return violation(t, "cs_released_before_final_write_word", "words taken=%d clocks=%d" % (len(t.consumed), t.npulse))
            if t.data_pulses < len(t.consumed):
                return violation(t, "write_word_taken_but_not_clocked", "taken=%d clocked=%d" % (len(t.consumed), t.data_pulses))
            if len(t.consumed) > 1:
                res.bin("mem_write_multiword")
        else:
            if t.ended_logically is None:
                return violation(t, "cs_released_before_final_read_word", "%s words returned=%d of %d clocks=%d" % (k, t.got, t.plan["n"], t.npulse))
            if k == "mem_read" and t.got > 1:
                res.bin("mem_read_multiword")
        st["closed_kinds"].add(k)
        if t.plan["n"] > 1 and k in ("mem_read", "mem_write"):
            st["multi"] += 1

    def bus_cycle(t, cyc, clk_en, dq_o, dq_e, rw_o, rw_e):
        """One cycle with CS asserted.  Phase of clock k: 1..3 command; reg write: 4 data; mem write: 4..16 latency,
        17.. data; read: 4.. (memory owns RWDS all the time and DQ from clock 17)."""
        if t.broken:
            return
        k = t.req["kind"]
        write, reg = t.req["write"], t.req["reg"]

        def phase(n):
            if n <= 0:
                return "pre"
            if n <= 3:
                return "ca"
            if write and reg:
                return "wdata" if n == 4 else "post"
            if write:
                if n < FIRST_DATA_CLOCK:
                    return "lat"
                return "wdata" if (n - FIRST_DATA_CLOCK) < max(len(t.consumed), 1) or t.ended_logically is None else "post"
            return "read"

        if clk_en:
            t.npulse += 1
            n = t.npulse
            ph = [phase(n)]
        else:
            n = t.npulse
            ph = [phase(n), phase(n + 1)]
        res.event("drive_cycles_checked")
        dq_ok = any(p in ("pre", "ca", "wdata") for p in ph) or (not clk_en and "post" in ph)
        rw_ok = any(p == "wdata" for p in ph) and not reg or (not clk_en and "post" in ph and write and not reg)
        if dq_e and not dq_ok:
            if "read" in ph:
                mech = "dq_driven_in_read_after_command" if n < FIRST_DATA_CLOCK else "dq_driven_while_memory_drives_read_data"
            elif "lat" in ph:
                mech = "dq_driven_in_write_latency"
            else:
                mech = "dq_driven_after_last_write_word"
            return violation(t, mech, "%s clock=%d pulse=%d" % (k, n, clk_en))
        if rw_e and not rw_ok:
            if "ca" in ph or "pre" in ph:
                mech = "rwds_driven_in_command_phase"
            elif "read" in ph:
                mech = "rwds_driven_in_read"
            elif reg:
                mech = "rwds_driven_in_register_write"
            elif "lat" in ph:
                mech = "rwds_driven_in_write_latency"
            else:
                mech = "rwds_driven_after_last_write_word"
            return violation(t, mech, "%s clock=%d pulse=%d" % (k, n, clk_en))
        if not clk_en:
            return
        # ---- a clock pulse
        if n <= 3:
            if not dq_e:
                return violation(t, "command_word_not_driven", "%s clock %d dq.e=0" % (k, n))
            t.ca.append(dq_o)
            if n == 3:
                t.p3 = cyc
                t.rw_high_until = cyc + rt + t.plan["fall_d"]
                exp = ref_ca(write, reg, t.req["single"], t.req["addr"])
                res.event("ca_words_checked")
                if t.ca != exp:
                    got = (t.ca[0] << 32) | (t.ca[1] << 16) | t.ca[2]
                    ref = (exp[0] << 32) | (exp[1] << 16) | exp[2]
                    diff = got ^ ref
                    if diff >> 47:
                        mech = "ca_read_write_bit_wrong"
                    elif (diff >> 46) & 1:
                        mech = "ca_address_space_bit_wrong"
                    elif (diff >> 45) & 1:
                        mech = "ca_burst_type_bit_wrong"
                    elif diff & 0xFFF8:
                        mech = "ca_reserved_bits_nonzero"
                    else:
                        mech = "ca_address_wrong"
                    return violation(t, mech, "%s addr=%#010x single=%d CA=%012x expected=%012x" % (k, t.req["addr"], t.req["single"], got, ref))
            return
        if write and reg:
            if n == 4:
                res.event("latency_clocks_checked")
                if not dq_e:
                    return violation(t, "register_write_data_not_driven", "clock 4 dq.e=0")
                if not t.consumed:
                    return violation(t, "write_data_clocked_before_write_ready", "register write clock 4")
                res.event("write_words_checked")
                if dq_o != t.consumed[0][0]:
                    return violation(t, "register_write_data_wrong", "bus=%#06x taken=%#06x" % (dq_o, t.consumed[0][0]))
            else:
                if st["pending"]:
                    return          # handled by cs_not_released_between_transactions
                return violation(t, "clock_after_register_write_data", "clock %d with cs high" % n)
            return
        if write:
            if n < FIRST_DATA_CLOCK:
                return
            j = n - FIRST_DATA_CLOCK
            if j == 0:
                res.event("latency_clocks_checked")
            if j >= len(t.consumed):
                if t.consumed and t.consumed[-1][1]:
                    return violation(t, "clock_after_final_write_word", "clock %d, %d words taken" % (n, len(t.consumed)))
                if j == 0:
                    return violation(t, "write_data_late_latency_too_long", "clock %d (first data clock) no word taken yet, dq.e=%d" % (n, dq_e))
                return violation(t, "write_clock_without_word", "clock %d word %d not taken yet" % (n, j))
            if not dq_e:
                if j == 0:
                    return violation(t, "write_data_late_latency_too_long", "clock %d is the first data clock, dq.e=0" % n)
                return violation(t, "write_data_not_driven", "clock %d word %d dq.e=0" % (n, j))
            if not rw_e or rw_o != 0:
                return violation(t, "write_data_masked_or_rwds_undriven", "clock %d rwds.e=%d rwds.o=%d" % (n, rw_e, rw_o))
            t.data_pulses += 1
            res.event("write_words_checked")
            if dq_o != t.consumed[j][0]:
                nxt = t.consumed[j + 1][0] if j + 1 < len(t.consumed) else None
                mech = "write_data_early_latency_too_short" if dq_o == nxt else "write_data_wrong"
                return violation(t, mech, "clock %d word %d bus=%#06x taken=%#06x" % (n, j, dq_o, t.consumed[j][0]))
            return
        # ---- read: memory returns data for this clock
        if n >= t.next_word_pulse and st["cur"] is t:
            j = t.words_sent
            pause = t.plan["pauses"].get(j, 0) if n == t.next_word_pulse and not t.plan.get("_paused") == j else 0
            if pause:
                t.plan["_paused"] = j
                t.next_word_pulse = n + pause
                res.bin("rwds_pause")
                return
            if j < len(t.plan["rdata"]):
                w = t.plan["rdata"][j]
                a = cyc + rt
                if split:
                    s0 = sched(a)
                    s0["r0"] = 1
                    s0["dlo"] = w >> 8
                    s1 = sched(a + 1)
                    s1["r1"] = 0
                    s1["dhi"] = w & 0xFF
                    t.sent.append((w, a + 1))
                else:
                    s0 = sched(a)
                    s0["r1"], s0["r0"], s0["dhi"], s0["dlo"] = 1, 0, w >> 8, w & 0xFF
                    t.sent.append((w, a))
                t.words_sent += 1
                t.next_word_pulse = n + 1

    def drive_user(cur):
        """write_data / final_word for the next cycle."""
        if cur is None:
            if rng.random() < 0.3:
                b.set(dut.final_word, rng.randint(0, 1))
            return
        p = cur.plan
        if cur.req["write"]:
            j = len(cur.consumed)
            w = p["words"][j] if j < len(p["words"]) else rng.getrandbits(16)
            fw = 1 if j >= p["n"] - 1 else 0
            if cur.req["reg"]:
                fw = rng.randint(0, 1)
            elif p["glitch"] and cur.npulse <= 10:
                fw = rng.randint(0, 1)
                res.bin("final_word_glitch")
            b.set(dut.write_data, w)
            b.set(dut.final_word, fw)
        else:
            fw = 1 if cur.got >= p["n"] - 1 else 0
            if p["glitch"] and cur.npulse <= 12 and not cur.sent:
                fw = rng.randint(0, 1)
                res.bin("final_word_glitch")
            b.set(dut.final_word, fw)
            b.set(dut.write_data, rng.getrandbits(16))

    def drive_memory(cur, cyc, rw_o, rw_e):
        """phy.dq.i / phy.rwds.i for cycle cyc+1."""
        c = cyc + 1
        s = st["sched"].pop(c, {})
        dhi, dlo = rng.getrandbits(8), rng.getrandbits(8)
        r1 = r0 = None
        if cur is not None:
            if cur.rw_high_until is None or c <= cur.rw_high_until:
                r1 = r0 = 1                      # RWDS high during the command: 2x latency
            elif not cur.req["write"]:
                r1 = r0 = 0                      # read: memory holds RWDS low until it strobes data
                if c == cur.rw_high_until + 1 and cur.plan["fall_mid"]:
                    r1 = 1                       # RWDS falls in the middle of this cycle
                    res.bin("rwds_fall_midcycle")
            elif rw_e:
                r1, r0 = (rw_o >> 1) & 1, rw_o & 1
        elif c <= st["tail_until"] and st["tail_read"]:
            r1 = r0 = 0
        if r1 is None:
            r1, r0 = rng.randint(0, 1), rng.randint(0, 1)
        r1, r0 = s.get("r1", r1), s.get("r0", r0)
        dhi, dlo = s.get("dhi", dhi), s.get("dlo", dlo)
        b.set(phy.rwds.i, (r1 << 1) | r0)
        b.set(phy.dq.i, (dhi << 8) | dlo)

    # ------------------------------------------------------------------------------ request driver
    def driver():
        b.set(dut.start_transfer, 0)
        for _ in range(rng.randint(2, 12)):
            yield
        for i, s in enumerate(script):
            # wait for idle (bounded)
            waited = 0
            while not b.get(dut.idle):
                waited += 1
                if waited > 400:
                    res.violation("interface_never_idle_again", "request %d cyc=%d" % (i, b.cycle))
                    return
                yield
            if s["gap"] == 0 and waited > 0:
                res.bin("request_first_idle_cycle")
            for _ in range(s["gap"]):
                yield
            st["script_i"] = i
            write = s["kind"].endswith("write")
            reg = s["kind"].startswith("reg")
            b.set(dut.address, s["addr"])
            b.set(dut.register_space, reg)
            b.set(dut.perform_write, write)
            b.set(dut.single_page, s["single"])
            b.set(dut.start_transfer, 1)
            h = s["hold"]
            res.bin("hold_1" if h == 1 else "hold_2_6" if h <= 6 else "hold_7_8")
            for c in range(h):
                yield
                if c == 0 and s["scramble"] and h > 1:
                    # the request was latched in the first cycle; the inputs may change while start is still held
                    b.set(dut.address, rnd_addr())
                    b.set(dut.single_page, rng.randint(0, 1))
                    if rng.random() < 0.5:
                        b.set(dut.register_space, rng.randint(0, 1))
                        b.set(dut.perform_write, rng.randint(0, 1))
                    res.bin("scrambled_after_accept")
            b.set(dut.start_transfer, 0)
            yield
            if i not in st["accepted_for"]:
                res.violation("request_not_accepted_while_idle", "request %d kind=%s cyc=%d" % (i, s["kind"], b.cycle))
        # let the last transaction finish
        waited = 0
        while st["open_requests"] > 0 or b.get(phy.cs):
            waited += 1
            if waited > 400:
                res.violation("interface_never_idle_again", "after the last request cyc=%d" % b.cycle)
                return
            yield
        for _ in range(6):
            yield

    b.add_monitor(monitor)
    b.add_driver(driver())
    b.run()
    res.cycles = b.cycle
    if b.hit_max_cycles:
        res.violation("case_did_not_finish", "max cycles reached")
    res.nontrivial = len(st["closed_kinds"]) == 4 and st["multi"] > 0
