"""C56 — the ILA captures exactly the samples following a trigger.

DUT: two real `IntegratedLogicAnalyzer`s (luna/gateware/debug/ila.py) with different (sample_depth 1..70,
samples_pretrigger 0..4; after the coverage audit also depth 71..300, pre-trigger 5..12 and the constructor default)
configurations inside a trivial wrapper; both observe the same 1-3 input signals
(total width 14..48), each with its own trigger / read-back port.  Domain "sync" or "usb".

Workload: the inputs carry an injective function of the cycle number (odd multiplier + salt), so a stored
sample identifies the cycle it was taken in.  Per analyzer an independent driver runs 2..7 captures: a
trigger after a random gap (also zero gap = the first cycle `complete` is visible, and a trigger held for many
cycles), then disturbance triggers at chosen offsets after the accepted one (biased to offsets 1, depth-1,
depth = completion cycle, depth+1 = first idle cycle, and "all of them"), then a read-back of the memory
through `captured_sample_number` in a random order (each address held 3 cycles, value taken at the end, so
the read latency is not constrained), sometimes cut short by the next trigger.

Monitors / oracle (reference model written from the statement; no luna code):
  * every sampled `trigger` is classified with the `sampling` output of the same cycle: sampling low -> the
    trigger is accepted (a new capture with trigger cycle T), sampling high -> it must change nothing;
  * `sampling` must be low before the first trigger, rise within 3 cycles of an accepted trigger, and each
    high run must last exactly `depth` cycles ("records exactly sample_depth consecutive samples");
  * `complete` must be low before the first capture, low during a sampling run (from its 2nd cycle), high
    at the latest one cycle after the first idle cycle and then stay high until the next accepted trigger;
  * content: read-back value of address n == input at cycle T + 1 - pretrigger + n for every n read (the samples
    *following* the trigger, delayed by the pre-trigger count: sample 0 of a pre-trigger-0 analyzer is the input of the
    cycle after the trigger cycle).  The offset is pinned (an earlier version accepted a uniform offset 0..2);
    a capture that matches another uniform offset is reported as capture_shifted_early/late;
  * bounded progress: `complete` within depth + pretrigger + 12 cycles of an accepted trigger.

Not judged: the value of `captured_sample` while a capture is running; samples whose source cycle lies before
the first simulated cycle; read latency (only "<= 3 cycles"; the statement gives none); the transport wrappers
SyncSerialILA / AsyncSerialILA / StreamILA and the host-side frontends (the statement is about the analyzer core: trigger,
capture, complete, read-back by sample number; SPI/UART/stream framing is outside it).
"""
from rv.sim import Bench

PROPERTY = "C56"
CASES = {"quick": 420, "thorough": 6400}
RULE = ("case = 2 analyzers (depth from {1,2,3,4,5,7,8,9,15,16,17,31,32,33,63,64,70,random 1..70}, pretrigger 0..4, "
        "different pretrigger where possible) over 1-3 signals carrying an injective function of the cycle number; "
        "2..7 captures each with disturbance triggers at chosen offsets and random-order read-back; non-trivial = "
        ">=1 ignored trigger during a capture and >=2 fully read captures; distinct = hash of configuration + trigger/read schedule")
REQUIRED_BINS = ["trigger_during_capture", "trigger_on_completion_cycle", "trigger_first_idle_cycle", "trigger_cycle_after_accept",
                 "trigger_held", "recapture_nonpow2_depth", "recapture_pow2_depth", "depth_1", "depth_pow2", "depth_ge_33",
                 "pretrigger_0", "pretrigger_1", "pretrigger_2", "pretrigger_ge_3", "pretrigger_ge_5", "pretrigger_default", "depth_gt_70", "read_address_ge_64", "read_last_sample", "read_first_sample",
                 "capture_abandoned_by_retrigger", "domain_usb", "domain_sync", "three_signals"]
REQUIRED_EVENTS = ["captures_judged", "samples_compared", "triggers_accepted", "triggers_ignored", "sampling_runs",
                   "complete_rises", "cycles_monitored"]
ASSUMPTIONS = ["a trigger is 'during capture' iff the analyzer's own `sampling` output is high in that cycle",
               "sample n = input of cycle T + 1 - pretrigger + n (T = cycle in which the accepted trigger is sampled); default pretrigger = 1 as documented",
               "sampling run length exactly depth; complete at the latest one cycle after the first idle cycle",
               "depth > 70: only the corners, the addresses around powers of two and 10-30 random addresses are read back",
               "read-back judged only while the analyzer is idle and complete"]

DEPTHS = [1, 2, 3, 4, 5, 7, 8, 9, 15, 16, 17, 31, 32, 33, 63, 64, 70]
BIG_DEPTHS = [71, 100, 127, 128, 129, 200, 255, 256, 257, 300]
KSET = (1,)


def _build(cfgs, widths, domain):
    from amaranth import Elaboratable, Module, Signal
    from luna.gateware.debug.ila import IntegratedLogicAnalyzer

    sigs = [Signal(w, name="in%d" % i) for i, w in enumerate(widths)]
    ilas = [IntegratedLogicAnalyzer(signals=sigs, sample_depth=d, domain=domain, **({} if p is None else {"samples_pretrigger": p}))
            for d, p in cfgs]

    class Wrap(Elaboratable):
        def elaborate(self, platform):
            m = Module()
            for i, ila in enumerate(ilas):
                m.submodules["ila%d" % i] = ila
            return m

    return Wrap(), sigs, ilas


class Mon:
    """Per-analyzer monitor + reference bookkeeping."""

    def __init__(self, name, ila, depth, pre, res, inp, shared):
        self.name, self.ila, self.D, self.P, self.res, self.inp, self.shared = name, ila, depth, pre, res, inp, shared
        self.cap = None            # current capture dict
        self.ncap = 0
        self.prev_sampling = 0
        self.prev_complete = 0
        self.run_start = None

    def ctx(self, c):
        return "%s depth=%d pre=%d cyc=%d T=%s" % (self.name, self.D, self.P, c, self.cap and self.cap["T"])

    def step(self, b):
        res, ila, c = self.res, self.ila, b.cycle
        trig, smp, comp = b.get(ila.trigger), b.get(ila.sampling), b.get(ila.complete)
        cap = self.cap
        # ---- sampling runs
        if smp and not self.prev_sampling:
            res.event("sampling_runs")
            self.run_start = c
            if cap is None or cap["rise"] is not None:
                res.violation("sampling_without_trigger", self.ctx(c))
            else:
                cap["rise"] = c
        if not smp and self.prev_sampling and self.run_start is not None:
            L = c - self.run_start
            if cap is not None and cap["rise"] == self.run_start:
                cap["end"] = c
                # an ignored trigger in the last sampling cycle = trigger on the completion cycle
                if (c - 1) in cap["ignored"]:
                    res.bin("trigger_on_completion_cycle")
            if L != self.D:
                res.violation("sampling_duration_short" if L < self.D else "sampling_duration_long",
                              "%s run=%d cycles" % (self.ctx(c), L))
        if cap is not None and cap["rise"] is None and not smp and c - cap["T"] >= 3:
            res.violation("trigger_not_started", self.ctx(c))
            cap["rise"] = -1
        # ---- complete
        if comp and not self.prev_complete:
            res.event("complete_rises")
        if cap is None:
            if comp:
                res.violation("complete_before_capture", self.ctx(c))
        else:
            if smp and self.run_start is not None and c > self.run_start and comp:
                res.violation("complete_high_while_sampling", self.ctx(c))
            if cap["end"] is not None and not cap["reported"]:
                if comp:
                    if cap["comp_at"] is None:
                        cap["comp_at"] = c
                elif cap["comp_at"] is not None:
                    res.violation("complete_dropped_without_trigger", self.ctx(c))
                    cap["reported"] = True
                elif c - cap["end"] >= 2:
                    res.violation("complete_not_raised", self.ctx(c))
                    cap["reported"] = True
            elif cap["end"] is None and cap["rise"] is not None and c - cap["T"] > self.D + self.P + 12 and not cap["reported"]:
                cap["reported"] = True
                res.violation("capture_never_completes", self.ctx(c))
        # ---- triggers
        if trig:
            if smp:
                res.event("triggers_ignored")
                res.bin("trigger_during_capture")
                if cap is not None:
                    cap["ignored"].append(c)
                    if c == cap["T"] + 1:
                        res.bin("trigger_cycle_after_accept")
            else:
                res.event("triggers_accepted")
                if cap is not None:
                    if cap["end"] is not None and c == cap["end"]:
                        res.bin("trigger_first_idle_cycle")
                    if not cap["judged"]:
                        res.bin("capture_abandoned_by_retrigger")
                    if cap["rise"] is None:
                        # accepted again before sampling rose (only possible if the analyzer starts late)
                        res.unjudged += 1
                self.ncap += 1
                if self.ncap >= 2:
                    res.bin("recapture_pow2_depth" if self.D & (self.D - 1) == 0 else "recapture_nonpow2_depth")
                self.cap = {"T": c, "rise": None, "end": None, "comp_at": None, "ignored": [], "judged": False, "n": self.ncap, "reported": False}
        self.prev_sampling, self.prev_complete = smp, comp

    # called by the driver once a read-back finished (got: {address: value})
    def judge(self, cap, got, c):
        res, D, P, inp = self.res, self.D, self.P, self.inp
        res.event("captures_judged")
        cap["judged"] = True
        ok_k = []
        for k in KSET:
            good = True
            for a, v in got.items():
                e = inp.get(cap["T"] + k - P + a)
                if e is not None and e != v:
                    good = False
                    break
            if good:
                ok_k.append(k)
        for a in got:
            if inp.get(cap["T"] + 1 - P + a) is None:
                res.unjudged += 1
            else:
                res.event("samples_compared")
        if 0 in got:
            res.bin("read_first_sample")
        if any(a >= 64 for a in got):
            res.bin("read_address_ge_64")
        if D - 1 in got:
            res.bin("read_last_sample")
        K = self.shared["K"]
        if ok_k:
            newK = [k for k in K if k in ok_k]
            if not newK:
                res.violation("pretrigger_offset_inconsistent",
                              "%s capture matches offset(s) %s but earlier captures of this case fixed %s (analyzers %s)"
                              % (self.ctx(c), ok_k, K, self.shared["cfg"]))
            else:
                self.shared["K"] = newK
            return
        # classify the mismatch against the documented offset (k = 1)
        base = cap["T"] + 1 - P
        exp = {a: inp.get(base + a) for a in got}
        judged = [a for a in got if exp[a] is not None]
        bad = sorted(a for a in judged if exp[a] != got[a])
        inv = self.shared["inv"]
        src = {a: inv.get(got[a]) for a in bad}       # cycle the wrong value was really sampled in (None: never an input value)
        known = [a for a in bad if src[a] is not None]
        mech = "captured_samples_wrong"
        if bad and len(known) == len(bad):
            shifts = set(src[a] - (base + a) for a in bad)
            if any(all(src[a] == t + 1 - P + a for a in bad) for t in cap["ignored"]):
                mech = "capture_restarted_by_trigger_during_capture"
            elif len(shifts) == 1 and len(bad) == len(judged):
                mech = "capture_shifted_late" if min(shifts) > 0 else "capture_shifted_early"
            elif all(src[a] < base for a in bad):
                mech = "sample_not_recorded_stale_value"
            elif all(src[a] > base + a for a in bad):
                mech = "sample_overwritten_or_recorded_late"
        elif bad and not known:
            mech = "sample_not_recorded_stale_value"
        a0 = bad[0] if bad else -1
        res.violation(mech, "%s bad addresses %s of %d read; first: addr=%d got=%#x expected=%#x (really sampled at cycle %s, expected cycle %d); ignored triggers at %s"
                      % (self.ctx(c), bad[:8], len(got), a0, got.get(a0, 0), exp.get(a0) or 0, src.get(a0), base + a0, cap["ignored"][:6]))


def run_case(rng, tier, res):
    nsig = rng.choice([1, 2, 2, 3, 3])
    total = rng.randint(14, 48)
    widths = []
    left = total
    for i in range(nsig - 1):
        w = rng.choice([1, 1, 2, 3, 8, rng.randint(1, max(1, left - (nsig - 1 - i)))])
        w = max(1, min(w, left - (nsig - 1 - i)))
        widths.append(w)
        left -= w
    widths.append(left)
    rng.shuffle(widths)
    domain = rng.choice(["sync", "usb"])
    cfgs = []
    pres = rng.sample(range(5), 2)
    for i in range(2):
        d = rng.choice(DEPTHS + [rng.randint(1, 70), rng.randint(1, 12)])
        cfgs.append((d, pres[i]))
    r = rng.random()
    if r < 0.12:
        cfgs[0] = (rng.choice(BIG_DEPTHS + [rng.randint(71, 300)]), cfgs[0][1])          # sample_depth > 70
    elif r < 0.24:
        cfgs[0] = (cfgs[0][0], rng.choice([5, 5, 6, 7, 8, rng.randint(5, 12)]))           # long pre-trigger pipelines
    elif r < 0.34:
        cfgs[0] = (cfgs[0][0], None)                                                      # constructor default (documented: 1)
        if cfgs[1][1] == 1:
            cfgs[1] = (cfgs[1][0], rng.choice([0, 2, 3]))
    dut, sigs, ilas = _build(cfgs, widths, domain)
    b = Bench(dut, domain=domain, freq=60e6, max_cycles=30000)
    for ila in ilas:
        b.watch(ila.trigger, ila.sampling, ila.complete, ila.captured_sample, ila.captured_sample_number)
    b.watch(*sigs)
    mask = (1 << total) - 1
    mult = rng.randrange(1 << total) | 1
    salt = rng.randrange(1 << total)
    res.desc = {"widths": widths, "domain": domain, "analyzers": [{"depth": d, "pretrigger": p} for d, p in cfgs], "schedule": []}
    res.sig(widths, domain, cfgs, mult, salt)
    res.bin("domain_" + domain)
    if nsig == 3:
        res.bin("three_signals")
    for d, p in cfgs:
        res.bin("depth_1" if d == 1 else "depth_gt_70" if d > 70 else "depth_ge_33" if d >= 33 else "depth_mid")
        if d & (d - 1) == 0:
            res.bin("depth_pow2")
        res.bin("pretrigger_default" if p is None else "pretrigger_%d" % p if p < 3 else "pretrigger_ge_5" if p >= 5 else "pretrigger_ge_3")
    DEFAULT_PRETRIGGER = 1        # documented default of the constructor
    cfgs = [(d, DEFAULT_PRETRIGGER if p is None else p) for d, p in cfgs]

    inp = {}          # cycle -> sampled concatenated input value
    inv = {}          # value -> cycle
    shared = {"K": list(KSET), "inv": inv, "cfg": cfgs}
    mons = [Mon("ila%d" % i, ila, cfgs[i][0], cfgs[i][1], res, inp, shared) for i, ila in enumerate(ilas)]
    alive = {"n": 2}

    def f(n):
        return (n * mult + salt) & mask

    def input_driver():
        n = 0
        while True:
            n += 1
            v = f(n)
            for s, w in zip(sigs, widths):
                b.set(s, v & ((1 << w) - 1))
                v >>= w
            yield

    def monitor(b):
        res.event("cycles_monitored")
        v, sh = 0, 0
        for s, w in zip(sigs, widths):
            v |= b.get(s) << sh
            sh += w
        inp[b.cycle] = v
        inv[v] = b.cycle
        for m in mons:
            m.step(b)

    def driver(mon, ila, D, P, idx):
        ncap = rng.randint(2, 7)
        sched_log = []
        res.desc["schedule"].append(sched_log)
        yield from (None for _ in range(rng.choice([0, 0, 1, 2, P, P + 3, rng.randint(0, 12)])))
        done = 0
        guard = 0
        while done < ncap and guard < 40:
            guard += 1
            # ---- trigger (possibly held)
            hold = 1
            r = rng.random()
            if r < 0.12:
                hold = rng.randint(2, D + 4)
                res.bin("trigger_held")
            # disturbance offsets relative to the accepted trigger
            offs = set()
            r = rng.random()
            if r < 0.15:
                pass
            elif r < 0.30:
                offs = set(range(1, D + 3))
            else:
                for _ in range(rng.randint(1, 4)):
                    offs.add(rng.choice([1, 2, D - 1, D, D, D + 1, D + 1, D + 2, rng.randint(1, D + 2), max(1, D // 2)]))
            offs = set(o for o in offs if o >= 1)
            for o in range(1, hold):
                offs.add(o)
            sched_log.append({"hold": hold, "offsets": sorted(offs)[:12]})
            res.sig(idx, hold, sorted(offs))
            before = mon.ncap
            b.set(ila.trigger, 1)
            yield
            last = max(offs) if offs else 0
            for o in range(1, last + 1):
                b.set(ila.trigger, 1 if o in offs else 0)
                yield
            b.set(ila.trigger, 0)
            yield
            if mon.ncap == before:
                # trigger was not accepted (can only happen if the analyzer was still sampling) -> try again
                for _ in range(D + 8):
                    if not b.get(ila.sampling):
                        break
                    yield
                continue
            # ---- wait for complete of the *latest* accepted capture (bounded)
            cap = mon.cap
            waited = 0
            while not (cap["comp_at"] is not None and not b.get(ila.sampling)) and waited < D + P + 40:
                waited += 1
                yield
                cap = mon.cap
            if cap["comp_at"] is None:
                if not cap["reported"]:
                    cap["reported"] = True
                    res.violation("capture_never_completes", mon.ctx(b.cycle))
                done += 1
                continue
            done += mon.ncap - before
            # ---- read-back, random order, 3 cycles per address
            addrs = list(range(D))
            rng.shuffle(addrs)
            r = rng.random()
            if D > 70:
                # large buffers: the corners, the addresses around every power of two, and a random sample
                keep = set(addrs[:rng.randint(10, 30)]) | {0, 1, D - 2, D - 1}
                for pw in (32, 64, 128, 256):
                    keep |= {a for a in (pw - 1, pw, pw + 1) if a < D}
                addrs = [a for a in addrs if a in keep]
            elif r < 0.25 and D > 6:
                keep = set(addrs[:rng.randint(3, D // 2)]) | {0, D - 1}
                addrs = [a for a in addrs if a in keep]
            if rng.random() < 0.5 and D > 1:
                # read the last-written sample first (its write must have landed before `complete`)
                addrs.remove(D - 1)
                addrs.insert(0, D - 1)
            abort_at = None
            if rng.random() < 0.15 and done < ncap:
                abort_at = rng.randint(0, len(addrs))
            res.sig(idx, addrs[:16], abort_at)
            got = {}
            for i, a in enumerate(addrs):
                if abort_at is not None and i == abort_at:
                    break
                b.set(ila.captured_sample_number, a)
                yield
                yield
                yield
                if mon.cap is not cap:
                    break
                got[a] = b.get(ila.captured_sample)
            if got and mon.cap is cap:
                mon.judge(cap, got, b.cycle)
            # gap before the next trigger (0 = trigger sampled right after the last read)
            for _ in range(rng.choice([0, 0, 1, 2, 3, rng.randint(0, 10)])):
                yield
        alive["n"] -= 1
        while alive["n"] > 0:
            yield

    b.add_driver(input_driver(), main=False)
    for i, (mon, ila) in enumerate(zip(mons, ilas)):
        b.add_driver(driver(mon, ila, cfgs[i][0], cfgs[i][1], i), main=True)
    b.add_monitor(monitor)
    b.run()
    if b.hit_max_cycles:
        res.violation("case_did_not_finish", "max_cycles reached; analyzers %s" % (cfgs,))
    res.cycles = b.cycle
    res.desc["offset_k"] = shared["K"]
    res.nontrivial = bool(res.bins.get("trigger_during_capture")) and res.events.get("captures_judged", 0) >= 2
