"""C52 - the I2C initiator follows the I2C bus protocol.

DUT: luna.gateware.interface.i2c.I2CInitiator (with its I2CBusDriver) inside a small wrapper that models
     the open-drain bus: line = (initiator releases) AND (target releases), for SCL and SDA.  Configurations:
     period_cyc 4..255 (mostly 8..40), clk_stretch True/False, open-drain SCL pad or push-pull SCL-only pad, pads
     given as a record with scl/sda (I2CBus) or as an object with scl_t/sda_t members.

Workload: 10..22 operations per case: realistic transfers (start, address write, data writes / repeated
     start, reads with ack, last read with nak, stop) mixed with arbitrary operation sequences (read or write
     without start, stop on an idle bus, start after start, ...).  A strobe is given 0..2q cycles after
     `busy` is seen low, or (30 % of the operations) by a combinational user `strobe = want & ~busy` placed in the
     wrapper, i.e. in the very first cycle busy is low; data_i / ack_i are valid only in the strobe cycle and
     scrambled afterwards; further
     strobes (any combination) are fired while the operation is running (they must be ignored).
     An I2C target model written for this check follows the bus from the resolved lines only: it counts SCL
     edges, ACKs/NAKs written bytes, presents read data MSB first (with the complement/garbage on SDA during
     the early part of the SCL low phase, the real bit at the latest one cycle before it lets SCL rise),
     releases SDA for the initiator's bits, and stretches SCL after any falling edge (also inside start and
     stop) for 1..3 cycles (synchroniser scale), around a quarter period, 5..60 or occasionally 150 cycles.
     The target changes SDA only while SCL is low and it never pulls SCL low while SCL is high - except the
     "idle SCL low" cases: before some start/stop strobes SCL is pulled low from outside while the initiator is
     idle and released 3..40 cycles after the strobe (reaches the block's SCL-low branches in IDLE).

Oracle (I2C-bus specification UM10204, from the resolved lines and the initiator's own drive m_sda):
  * an operation is accepted iff its strobe is sampled together with busy = 0;
  * initiator-driven SDA changes in a cycle in which SCL is high (or rises) only as the single falling edge
    of a requested START or the single rising edge of a requested STOP; never in write/read/idle;
  * start: exactly one START condition, no STOP; stop: exactly one STOP, no START, bus released afterwards;
  * write: exactly 9 SCL pulses, SDA at rising edges 1..8 = data_i MSB first, initiator releases SDA in the
    9th pulse, ack_o = not SDA(9th pulse) when busy falls;
  * read: exactly 9 SCL pulses, initiator releases SDA for 8 pulses, data_o = the bits the target presented
    (MSB first), 9th pulse: initiator drives SDA low iff ack_i was 1;
  * clock stretching (clk_stretch=True): every SCL high phase on the line lasts >= period_cyc/4 cycles and no
    pulse is lost - an initiator that does not wait for a stretched SCL produces a short or missing pulse;
  * busy: when busy falls every bus event of the accepted operation has happened (so busy low => idle), an
    accepted operation finishes within a bound, no SCL/SDA activity from the initiator while idle, strobes
    sampled with busy = 1 (in the part of the operation where the block is certainly not finished) have no
    effect.

Not judged: SDA changes in the very cycle SCL falls (hold time 0 is legal in I2C), exact SCL frequency,
simultaneous strobes with busy low (priority is not part of the statement), a strobe in the last busy cycle
(the block's FSM is already idle there; the statement only constrains busy = 0), ack_o/data_o while busy, target stretching with
clk_stretch=False (documented as unsupported), multi-master arbitration, I2CRegisterInterface.

Finding on the unchanged tree (findings/C52.md): a start accepted in the first cycle busy is low after a completed
start still sees the synchronised sda_i high, takes the idle-bus branch and generates nothing: mechanism
repeated_start_lost_when_strobed_in_first_idle_cycle_after_start (known finding; narrow: zero gap after a start,
SDA already driven low at acceptance, SCL never moved).

Deviation from DESIGN section 7: "SCL high phases never start while the target holds SCL low" is a tautology on
a wired-AND line; it is judged as "no pulse lost, no high phase shorter than a quarter period, data/ack sampled
correctly although the target changes SDA until one cycle before it releases SCL".  A free-running quarter timer
during a stretch (high phase after the stretch between one and two quarter periods) is accepted.
"""
from rv.sim import Bench

PROPERTY = "C52"
CASES = {"quick": 144, "thorough": 2400}
RULE = ("case = (period_cyc 8..40, clk_stretch, SCL pad kind, 10..22 operations from transfer templates and random "
        "sequences, per-operation data/ack, gaps, spurious strobes while busy, target ack/data, per-edge clock stretch "
        "lengths and SDA timing); non-trivial = at least one write and one read with a stretched bit and a repeated "
        "start; distinct = hash of configuration + operation script + target script")
REQUIRED_BINS = ["op_start", "op_stop", "op_write", "op_read", "repeated_start", "start_on_idle_bus", "stop_after_read_ack",
                 "stop_on_idle_bus", "write_acked", "write_nacked", "read_ack", "read_nak", "stretch_1_3", "stretch_quarter",
                 "stretch_long", "stretch_in_data_bit", "stretch_in_ack_bit", "stretch_in_start_or_stop", "late_target_data",
                 "spurious_strobe_while_busy", "gap_0", "clk_stretch_off", "pushpull_scl", "period_8", "period_ge_32", "period_lt_8", "period_gt_40",
                 "pads_t_style", "idle_scl_low_start_judged", "idle_scl_low_stop_judged",
                 "write_without_start", "data_scrambled_after_strobe", "strobe_first_cycle_busy_low", "zero_gap_write_after_start",
                 "zero_gap_start_after_write", "zero_gap_start_after_stop", "zero_gap_stop_after_start", "zero_gap_read_after_read", "zero_gap_start_after_start", "read_data_msb_lsb_differ", "write_data_msb_lsb_differ"]
REQUIRED_EVENTS = ["ops_accepted", "ops_completed", "scl_rising_edges", "write_bits_checked", "read_bits_checked",
                   "ack_o_checked", "data_o_checked", "start_conditions", "stop_conditions", "high_phases_checked",
                   "idle_cycles_checked", "sda_high_cycles_checked"]
ASSUMPTIONS = ["SCL pulled low from outside while the initiator is idle is judged only for start with SDA high and stop with SDA driven low by the initiator (wait for SCL, then move SDA); the other combinations are counted as unjudged",
               "target changes SDA only while SCL is low and >= 1 cycle before SCL can rise; it only holds SCL low after a falling edge",
               "one strobe at a time while busy is low; data_i/ack_i valid in the strobe cycle",
               "no clock stretching by the target when the initiator is built with clk_stretch=False or an output-only SCL pad"]


def run_case(rng, tier, res):
    from amaranth import Elaboratable, Module, Signal
    from amaranth.hdl.rec import Record, DIR_FANIN, DIR_FANOUT
    from luna.gateware.interface.i2c import I2CBus, I2CInitiator

    period = rng.choice([8, 8, 8, 9, 10, 12, 13, 16, 16, 20, 24, 30, 32, 37, 40, rng.randint(8, 40),
                         rng.choice([4, 5, 6, 7]), rng.choice([4, 5, 6, 7]), rng.choice([4, 6, 7]),
                         rng.choice([48, 64, 100, 127, 255]), rng.choice([41, 44, 48, 63, 64, 65]), rng.choice([41, 42, 45, 50])])
    q = period // 4
    r = rng.random()
    pushpull = r < 0.16
    clk_stretch = (r >= 0.31) if not pushpull else (rng.random() < 0.5)
    can_stretch = clk_stretch and not pushpull
    res.bin("period_lt_8" if period < 8 else "period_8" if period == 8 else "period_gt_40" if period > 40 else
            "period_ge_32" if period >= 32 else "period_mid")
    t_style = rng.random() < 0.3          # pads object with scl_t / sda_t members instead of scl / sda
    if t_style:
        res.bin("pads_t_style")
    if not clk_stretch:
        res.bin("clk_stretch_off")
    if pushpull:
        res.bin("pushpull_scl")

    class Harness(Elaboratable):
        def __init__(self):
            tri = [("i", 1, DIR_FANIN), ("o", 1, DIR_FANOUT), ("oe", 1, DIR_FANOUT)]
            scl_layout = [("o", 1, DIR_FANOUT)] if pushpull else tri
            if t_style:
                class _Pads:
                    pass
                self.pads = _Pads()
                self.pads.scl_t = Record(scl_layout, name="scl_t")
                self.pads.sda_t = Record(tri, name="sda_t")
                self.p_scl, self.p_sda = self.pads.scl_t, self.pads.sda_t
            elif pushpull:
                self.pads = Record([("scl", scl_layout), ("sda", tri)])
                self.p_scl, self.p_sda = self.pads.scl, self.pads.sda
            else:
                self.pads = I2CBus()
                self.p_scl, self.p_sda = self.pads.scl, self.pads.sda
            self.dut = I2CInitiator(self.pads, period, clk_stretch)
            self.tgt_scl = Signal(init=1)
            self.tgt_sda = Signal(init=1)
            self.scl = Signal()
            self.sda = Signal()
            self.m_scl = Signal()
            self.m_sda = Signal()
            # user side: s_* = one-cycle strobes from the test driver, w_* = "want" levels of a user that reacts
            # combinationally to busy (strobe = want & ~busy), which a clocked test driver cannot do itself
            self.s = [Signal(name="s_%s" % n) for n in ("start", "stop", "write", "read")]
            self.w = [Signal(name="w_%s" % n) for n in ("start", "stop", "write", "read")]

        def elaborate(self, platform):
            m = Module()
            m.submodules.dut = self.dut
            scl_p, sda_p = self.p_scl, self.p_sda
            d = self.dut
            for i_, port in enumerate([d.start, d.stop, d.write, d.read]):
                m.d.comb += port.eq(self.s[i_] | (self.w[i_] & ~d.busy))
            if pushpull:
                m.d.comb += [self.m_scl.eq(scl_p.o), self.scl.eq(self.m_scl)]
            else:
                m.d.comb += [self.m_scl.eq(scl_p.o | ~scl_p.oe), self.scl.eq(self.m_scl & self.tgt_scl), scl_p.i.eq(self.scl)]
            m.d.comb += [self.m_sda.eq(sda_p.o | ~sda_p.oe), self.sda.eq(self.m_sda & self.tgt_sda), sda_p.i.eq(self.sda)]
            return m

    h = Harness()
    dut = h.dut

    # ------------------------------------------------------------------------------ operation script
    def byte():
        x = rng.random()
        if x < 0.4:
            return rng.getrandbits(8)
        if x < 0.6:
            return 1 << rng.randrange(8)
        if x < 0.75:
            return 0xFF ^ (1 << rng.randrange(8))
        return rng.choice([0x00, 0xFF, 0x80, 0x01, 0x7F, 0xFE, 0xA5, 0x5A, 0x0F, 0xF0, 0xD2])

    def stretch_len():
        if not can_stretch:
            return 0
        x = rng.random()
        if x < 0.45:
            return 0
        if x < 0.62:
            return rng.randint(1, 3)
        if x < 0.78:
            return max(1, q + rng.randint(-2, 3))
        if x < 0.97:
            return rng.randint(5, 60)
        return 150

    def mk(kind, **kw):
        op = {"kind": kind, "gap": rng.choice([0, 0, 0, 1, 2, rng.randint(0, 2 * q + 2)]),
              "stretch": [stretch_len() for _ in range(11)],
              "delay": [rng.random() for _ in range(11)], "garbage": [rng.choice(["none", "compl", "rand"]) for _ in range(11)],
              "spurious": rng.random() < 0.5, "comb": rng.random() < 0.3,
              "idle_low": (rng.randint(3, 40) if (can_stretch and kind in ("start", "stop") and rng.random() < (0.45 if kind == "stop" else 0.2)) else 0), "spur_at": rng.randint(1, 7), "scramble": rng.random() < 0.7}
        if kind == "write":
            op["data"] = byte()
            op["tack"] = rng.random() < 0.7          # target acknowledges
        if kind == "read":
            op["tdata"] = byte()                      # byte the target presents
            op["ack"] = rng.random() < 0.6
        op.update(kw)
        return op

    ops = []
    nops = rng.randint(10, 22) if period <= 40 else rng.randint(4, 8) if period <= 100 else rng.randint(3, 5)
    while len(ops) < nops:
        x = rng.random()
        if x < 0.45:
            # register-style transfer
            ops.append(mk("start"))
            ops.append(mk("write", tack=rng.random() < 0.85))
            for _ in range(rng.randint(0, 2)):
                ops.append(mk("write"))
            if rng.random() < 0.6:
                ops.append(mk("start"))
                ops.append(mk("write", tack=True))
                n = rng.randint(1, 3)
                for i in range(n):
                    ops.append(mk("read", ack=(i < n - 1) if rng.random() < 0.8 else rng.random() < 0.5))
            if rng.random() < 0.85:
                ops.append(mk("stop"))
        elif x < 0.6:
            ops.append(mk("start"))
            ops.append(mk(rng.choice(["start", "stop", "stop", "read", "write"]), comb=rng.random() < 0.6))
        elif x < 0.66:
            ops.append(mk("read", ack=True))
            ops.append(mk("stop"))
        else:
            ops.append(mk(rng.choice(["start", "stop", "stop", "write", "read", "read"])))
    res.desc = {"period_cyc": period, "clk_stretch": clk_stretch, "pushpull_scl": pushpull,
                "ops": [{k: v for k, v in o.items() if k in ("kind", "data", "tack", "tdata", "ack", "gap")} for o in ops[:10]]}
    res.sig(period, clk_stretch, pushpull, [sorted(o.items()) for o in ops])

    total_stretch = sum(sum(o["stretch"]) for o in ops)
    b = Bench(h, domain="sync", freq=60e6, max_cycles=len(ops) * 14 * (period + 10) + 2 * total_stretch + 2000)
    strobes = [dut.start, dut.stop, dut.write, dut.read]
    b.watch(h.scl, h.sda, h.m_scl, h.m_sda, h.tgt_scl, h.tgt_sda, dut.busy, dut.data_i, dut.ack_i, dut.ack_o, dut.data_o, *strobes,
            *h.s, *h.w)

    OP_BOUND = 14 * (period + 10) + 60
    MIN_HIGH = max(2, q)

    st = {
        "op": None,               # accepted, running operation (dict with runtime fields)
        "next_i": 0,              # index of the next scripted operation
        "prev": None,             # previous cycle's (scl, sda, m_scl, m_sda)
        "rise_cyc": None,
        "hold_scl_until": -1,
        "actions": {},            # cycle -> tgt_sda value to apply (effective in that cycle)
        "tgt_sda": 1,
        "last_done": None,        # last completed op (for ack_o/data_o stability)
        "idle_ref": None,
        "strobed": None,          # script index the driver is currently strobing
        "stats": {"w_str": 0, "r_str": 0, "rep": 0},
        "spur_live": False,
        "bus_free": True,         # no START since the last STOP (as far as the lines show)
        "last_kind": None, "last_ack": None, "idle_low_now": 0,
    }

    def bits_msb(x):
        return [(x >> (7 - i)) & 1 for i in range(8)]

    def desired_target_sda(op):
        """Value the target wants on SDA for the bit that the next SCL pulse will carry."""
        if op is None:
            return 1
        k, r_ = op["kind"], op["rises"]
        if k == "write":
            if r_ == 8:
                return 0 if op["tack"] else 1
            return 1
        if k == "read":
            if r_ < 8:
                return bits_msb(op["tdata"])[r_]
            return 1
        return 1

    def finish(op, cyc, why):
        """busy fell (or bound hit): judge the operation as a whole."""
        k = op["kind"]
        res.event("ops_completed")
        st["last_done"] = None
        g = b.get
        ctx = "op#%d %s accepted cyc=%d done cyc=%d period=%d stretch=%s" % (op["i"], k, op["t_acc"], cyc, period, op["stretch"][:10])
        if op["bad"]:
            return
        if op["idle_low_unjudged"]:
            res.unjudged += 1
            return
        if k == "start":
            if op["starts"] != 1 or op["stops"] != 0:
                mech = "busy_low_before_start_condition" if op["starts"] == 0 and op["stops"] == 0 else "start_op_wrong_bus_conditions"
                if mech == "busy_low_before_start_condition" and op["zero_gap_after"] == "start" and op["m_sda_acc"] == 0 and op["scl_edges"] == 0:
                    # accepted in the very first cycle busy was low after a START, SDA still driven low by the initiator,
                    # and the initiator did not move SCL at all
                    mech = "repeated_start_lost_when_strobed_in_first_idle_cycle_after_start"
                res.violation(mech, "%s START seen=%d STOP seen=%d" % (ctx, op["starts"], op["stops"]))
        elif k == "stop":
            if op["stops"] != 1 or op["starts"] != 0:
                mech = "busy_low_before_stop_condition" if op["starts"] == 0 and op["stops"] == 0 else "stop_op_wrong_bus_conditions"
                res.violation(mech, "%s START seen=%d STOP seen=%d" % (ctx, op["starts"], op["stops"]))
            elif not (g(h.m_scl) and g(h.m_sda)):
                res.violation("bus_not_released_after_stop", ctx)
        else:
            if op["starts"] or op["stops"]:
                res.violation("start_or_stop_condition_inside_%s" % k, "%s START=%d STOP=%d" % (ctx, op["starts"], op["stops"]))
                return
            if op["rises"] != 9:
                if op["rises"] < 9:
                    mech = ("scl_pulse_lost_%s" % k) if op["stretched"] else ("busy_low_before_%s_finished" % k)
                else:
                    mech = "too_many_scl_pulses_%s" % k
                res.violation(mech, "%s pulses=%d bits=%s" % (ctx, op["rises"], op["bits"]))
                return
            if k == "write":
                exp = bits_msb(op["data"])
                res.event("write_bits_checked", 8)
                if op["bits"][:8] != exp:
                    got = op["bits"][:8]
                    if got == exp[::-1] and got != exp:
                        mech = "write_bits_lsb_first"
                    elif got[1:] == exp[:-1] or got[:-1] == exp[1:]:
                        mech = "write_bits_shifted_by_one"
                    else:
                        mech = "write_bits_wrong"
                    res.violation(mech, "%s data_i=%#04x line bits=%s" % (ctx, op["data"], got))
                    return
                if op["m_sda_at"][8] != 1:
                    res.violation("sda_not_released_in_write_ack_slot", ctx)
                    return
                res.event("ack_o_checked")
                exp_ack = 1 if op["bits"][8] == 0 else 0
                if g(dut.ack_o) != exp_ack:
                    res.violation("ack_o_wrong", "%s SDA in ack slot=%d ack_o=%d" % (ctx, op["bits"][8], g(dut.ack_o)))
                res.bin("write_acked" if exp_ack else "write_nacked")
                if exp != exp[::-1]:
                    res.bin("write_data_msb_lsb_differ")
            else:
                if any(v != 1 for v in op["m_sda_at"][:8]):
                    res.violation("sda_driven_by_initiator_during_read_data", "%s m_sda=%s" % (ctx, op["m_sda_at"]))
                    return
                exp = bits_msb(op["tdata"])
                res.event("read_bits_checked", 8)
                if op["bits"][:8] != exp:
                    res.violation("harness_target_bits_wrong", "%s line=%s target=%s" % (ctx, op["bits"], exp))   # self-check
                    return
                res.event("data_o_checked")
                d = g(dut.data_o)
                if d != op["tdata"]:
                    got = bits_msb(d)
                    if got == exp[::-1]:
                        mech = "read_data_lsb_first"
                    elif got[1:] == exp[:-1] or got[:-1] == exp[1:]:
                        mech = "read_data_shifted_by_one"
                    elif op["late"]:
                        mech = "read_data_wrong_with_late_target_data"
                    else:
                        mech = "read_data_wrong"
                    res.violation(mech, "%s target sent %#04x data_o=%#04x" % (ctx, op["tdata"], d))
                    return
                want = 0 if op["ack"] else 1
                if op["m_sda_at"][8] != want:
                    res.violation("read_ack_bit_wrong", "%s ack_i=%d initiator SDA drive in 9th pulse=%d" % (ctx, op["ack"], op["m_sda_at"][8]))
                    return
                res.bin("read_ack" if op["ack"] else "read_nak")
                if exp != exp[::-1]:
                    res.bin("read_data_msb_lsb_differ")
            if op["stretched_data"]:
                st["stats"]["w_str" if k == "write" else "r_str"] += 1
        st["last_done"] = (k, g(dut.ack_o), g(dut.data_o))
        st["last_kind"], st["last_ack"] = k, op.get("ack")

    def monitor(b):
        g = b.get
        cyc = b.cycle
        scl, sda, m_scl, m_sda = g(h.scl), g(h.sda), g(h.m_scl), g(h.m_sda)
        busy = g(dut.busy)
        sv = [g(s) for s in strobes]
        op = st["op"]
        prev = st["prev"]
        just_finished = None

        # ---- bus events of this cycle
        if prev is not None:
            pscl, psda, pm_scl, pm_sda = prev
            start_c = pscl and scl and psda and not sda
            stop_c = pscl and scl and (not psda) and sda
            rising = (not pscl) and scl
            falling = pscl and not scl
            if scl:
                res.event("sda_high_cycles_checked")
            if m_sda != pm_sda and scl:
                # initiator changed its SDA drive in a cycle with SCL high
                kind = op["kind"] if op is not None else "idle"
                if not pscl:
                    res.violation("sda_changes_as_scl_rises_in_%s" % kind, "cyc=%d m_sda %d->%d" % (cyc, pm_sda, m_sda))
                    if op:
                        op["bad"] = True
                elif kind == "start" and m_sda == 0 and op["sda_moves"] == 0:
                    op["sda_moves"] += 1
                elif kind == "stop" and m_sda == 1 and op["sda_moves"] == 0:
                    op["sda_moves"] += 1
                else:
                    res.violation("sda_changes_while_scl_high_in_%s" % kind, "cyc=%d m_sda %d->%d op=%s" % (cyc, pm_sda, m_sda, op and op["i"]))
                    if op:
                        op["bad"] = True
            if start_c:
                res.event("start_conditions")
                if op is not None:
                    op["starts"] += 1
                    if op["kind"] == "start":
                        res.bin("start_on_idle_bus" if st["bus_free"] else "repeated_start")
                        if not st["bus_free"]:
                            st["stats"]["rep"] += 1
                st["bus_free"] = False
            if stop_c:
                res.event("stop_conditions")
                if op is not None:
                    op["stops"] += 1
                st["bus_free"] = True
            if op is not None and m_scl != pm_scl:
                op["scl_edges"] += 1
            if rising:
                res.event("scl_rising_edges")
                st["rise_cyc"] = cyc
                if op is not None:
                    op["bits"].append(sda)
                    op["m_sda_at"].append(m_sda)
                    op["rises"] += 1
            if falling:
                if st["rise_cyc"] is not None and (op is not None):
                    res.event("high_phases_checked")
                    if cyc - st["rise_cyc"] < MIN_HIGH and not op["bad"]:
                        res.violation("scl_high_phase_too_short", "cyc=%d high for %d cycles (period_cyc=%d) op#%d %s pulses=%d stretched=%s"
                                      % (cyc, cyc - st["rise_cyc"], period, op["i"], op["kind"], op["rises"], op["stretched"]))
                        op["bad"] = True
                target_on_fall(op, cyc)
            if op is None:
                # idle: the initiator must leave the bus alone
                res.event("idle_cycles_checked")
                if (m_scl, m_sda) != (pm_scl, pm_sda):
                    res.violation("bus_activity_while_idle", "cyc=%d m_scl %d->%d m_sda %d->%d" % (cyc, pm_scl, m_scl, pm_sda, m_sda))
                ld = st["last_done"]
                if ld is not None and ((ld[0] == "write" and g(dut.ack_o) != ld[1]) or (ld[0] == "read" and g(dut.data_o) != ld[2])):
                    res.violation("result_changes_while_idle", "cyc=%d %s" % (cyc, ld))
                    st["last_done"] = None
        # ---- completion: busy sampled low with an operation open
        if op is not None and not busy:
            finish(op, cyc, "busy_low")
            just_finished = op["kind"]
            op = st["op"] = None
            st["idle_ref"] = (m_scl, m_sda)
        elif op is not None and cyc - op["t_acc"] > OP_BOUND + 2 * sum(op["stretch"]):
            if not op["bad"]:
                res.violation("busy_stuck_high_operation_never_finishes", "op#%d %s accepted cyc=%d pulses=%d" % (op["i"], op["kind"], op["t_acc"], op["rises"]))
            op["bad"] = True
            b.stop()

        st["prev"] = (scl, sda, m_scl, m_sda)

        # ---- acceptance
        if not busy and any(sv):
            if sum(sv) > 1:
                res.unjudged += 1
            i = st["strobed"]
            if i is None or i != st["next_i"]:
                res.violation("strobe_seen_with_busy_low_inside_operation", "cyc=%d" % cyc)
            else:
                o = ops[i]
                new = dict(o)
                new.update({"i": i, "t_acc": cyc, "rises": 0, "bits": [], "m_sda_at": [], "starts": 0, "stops": 0, "sda_moves": 0,
                            "falls": 0, "zero_gap_after": just_finished, "m_sda_acc": m_sda, "scl_edges": 0, "bad": False, "stretched": False, "stretched_data": False, "late": False})
                kind = ["start", "stop", "write", "read"][sv.index(1)]
                assert kind == o["kind"]
                if kind == "write":
                    new["data"] = g(dut.data_i)
                    if st["bus_free"]:
                        res.bin("write_without_start")
                if kind == "read":
                    new["ack"] = g(dut.ack_i)
                if kind == "stop":
                    if st["bus_free"]:
                        res.bin("stop_on_idle_bus")
                    elif st["last_kind"] == "read" and st["last_ack"]:
                        res.bin("stop_after_read_ack")
                # SCL held low by somebody else while the initiator is idle (not a legal clock stretch): the statement
                # decides only the cases in which waiting for SCL and then moving SDA yields the requested condition
                low = bool(st["idle_low_now"])
                new["idle_low_unjudged"] = low and not ((kind == "start" and m_sda == 1 and sda == 1) or (kind == "stop" and m_sda == 0))
                if low and not new["idle_low_unjudged"]:
                    res.bin("idle_scl_low_%s_judged" % kind)
                st["idle_low_now"] = 0
                st["op"] = new
                st["next_i"] = i + 1
                res.event("ops_accepted")
                res.bin("op_" + kind)
                if not scl:
                    target_on_fall(new, cyc)       # operation starts with SCL already low
        elif busy and any(sv) and st["spur_live"]:
            res.bin("spurious_strobe_while_busy")

        # ---- target outputs for the next cycle
        nxt = cyc + 1
        if nxt in st["actions"]:
            st["tgt_sda"] = st["actions"].pop(nxt)
        b.set(h.tgt_sda, st["tgt_sda"])
        b.set(h.tgt_scl, 0 if nxt <= st["hold_scl_until"] else 1)

    def target_on_fall(op, cyc):
        """SCL was seen low in cycle `cyc` after being high (or the operation begins with SCL low): decide clock
        stretching and the SDA value for the next pulse.  Effects start in cycle cyc + 1."""
        want = desired_target_sda(op)
        L = 0
        f = 0
        if op is not None:
            f = min(op["falls"], 10)
            op["falls"] += 1
            L = op["stretch"][f]
        if L:
            st["hold_scl_until"] = cyc + L
            res.bin("stretch_1_3" if L <= 3 else "stretch_long" if L > q + 3 else "stretch_quarter")
            op["stretched"] = True
            if op["kind"] in ("start", "stop"):
                res.bin("stretch_in_start_or_stop")
            elif op["rises"] == 8:
                res.bin("stretch_in_ack_bit")
                op["stretched_data"] = True
            else:
                res.bin("stretch_in_data_bit")
                op["stretched_data"] = True
        # latest cycle in which the final value may become effective
        last = cyc + L if L else cyc + max(1, q - 1)
        first = cyc + 1
        frac = op["delay"][f] if op is not None else 0.0
        at = first + int(frac * (last - first + 0.999))
        at = max(first, min(at, last))
        garbage = op["garbage"][f] if op is not None else "none"
        target_drives = op is not None and ((op["kind"] == "read" and op["rises"] < 8) or (op["kind"] == "write" and op["rises"] == 8))
        st["actions"] = {}
        if target_drives and garbage != "none" and at > first:
            for c in range(first, at):
                st["actions"][c] = (1 - want) if garbage == "compl" else rng.randint(0, 1)
            if op["kind"] == "read" and at >= last - 1:
                res.bin("late_target_data")
                op["late"] = True
        st["actions"][at] = want

    # ------------------------------------------------------------------------------ driver
    sig_of = dict(zip(["start", "stop", "write", "read"], h.s))
    want_of = dict(zip(["start", "stop", "write", "read"], h.w))

    def spurious_burst():
        x = rng.random()
        if x < 0.5:
            pick = [rng.choice(h.s)]
        else:
            pick = [s for s in h.s if rng.random() < 0.5] or [h.s[2]]
        for s in pick:
            b.set(s, 1)
        b.set(dut.data_i, rng.getrandbits(8))
        b.set(dut.ack_i, rng.randint(0, 1))
        return pick

    def driver():
        for s in h.s + h.w:
            b.set(s, 0)
        yield
        for i, o in enumerate(ops):
            attempts = 0
            if o["comb"] and st["op"] is not None and st["op"]["i"] == i - 1:
                # a user whose strobe is `want & ~busy`: the request is raised while the previous operation is still
                # running and is taken in the first cycle busy is low
                res.bin("strobe_first_cycle_busy_low")
                prev_kind = st["op"]["kind"]
                st["strobed"] = i
                b.set(want_of[o["kind"]], 1)
                if o["kind"] == "write":
                    b.set(dut.data_i, o["data"])
                if o["kind"] == "read":
                    b.set(dut.ack_i, o["ack"])
                waited = 0
                while not (st["op"] is not None and st["op"]["i"] == i):
                    waited += 1
                    if waited > OP_BOUND + 2 * 11 * 150 + 100:
                        b.set(want_of[o["kind"]], 0)
                        res.violation("request_never_accepted", "op#%d %s after %s cyc=%d" % (i, o["kind"], prev_kind, b.cycle))
                        return
                    yield
                b.set(want_of[o["kind"]], 0)
                res.bin("zero_gap_%s_after_%s" % (o["kind"], prev_kind))
                if o["scramble"]:
                    b.set(dut.data_i, rng.getrandbits(8))
                    b.set(dut.ack_i, rng.randint(0, 1) if o["kind"] != "read" else 1 - o["ack"])
                attempts = -1
            while attempts >= 0:
                waited = 0
                while b.get(dut.busy) or st["op"] is not None:
                    waited += 1
                    if waited > OP_BOUND + 2 * 11 * 150 + 100:
                        if st["op"] is None:
                            res.violation("busy_stuck_high_while_idle", "before op#%d cyc=%d" % (i, b.cycle))
                        return
                    yield
                if o["gap"] == 0:
                    res.bin("gap_0")
                for _ in range(o["gap"]):
                    yield
                if o["idle_low"] and attempts == 0 and b.get(h.scl):
                    st["hold_scl_until"] = b.cycle + 100000
                    st["idle_low_now"] = o["idle_low"]
                    for _ in range(max(4, q + 2)):
                        yield
                st["strobed"] = i
                b.set(sig_of[o["kind"]], 1)
                if o["kind"] == "write":
                    b.set(dut.data_i, o["data"])
                if o["kind"] == "read":
                    b.set(dut.ack_i, o["ack"])
                yield                                   # edge A: strobe sampled (with busy low if nothing is wrong)
                b.set(sig_of[o["kind"]], 0)
                if o["scramble"]:
                    b.set(dut.data_i, rng.getrandbits(8) if rng.random() < 0.5 else (o.get("data", 0) ^ 0xFF))
                    b.set(dut.ack_i, rng.randint(0, 1) if o["kind"] != "read" else 1 - o["ack"])
                    res.bin("data_scrambled_after_strobe")
                if st["op"] is not None and st["op"]["i"] == i:
                    if o["idle_low"] and st["hold_scl_until"] > b.cycle + 50000:
                        st["hold_scl_until"] = b.cycle + o["idle_low"]
                    break
                # busy was high again at the strobe edge although it had been seen low: not an acceptance; try again
                attempts += 1
                if attempts > 3:
                    res.violation("busy_toggles_without_operation", "op#%d %s cyc=%d" % (i, o["kind"], b.cycle))
                    return
                yield
            if o["spurious"]:
                # strobes in the two cycles after acceptance: every operation lasts longer than that
                st["spur_live"] = True
                pick = spurious_burst()
                yield
                for s in pick:
                    b.set(s, 0)
                yield
                st["spur_live"] = False
                if o["kind"] in ("write", "read"):
                    # and once more in the middle of the byte
                    waited = 0
                    while st["op"] is not None and st["op"]["rises"] < o["spur_at"] and waited < OP_BOUND + 1700:
                        waited += 1
                        yield
                    if st["op"] is not None and st["op"]["i"] == i and st["op"]["rises"] < 8:
                        st["spur_live"] = True
                        pick = spurious_burst()
                        yield
                        for s in pick:
                            b.set(s, 0)
                        yield
                        st["spur_live"] = False
            else:
                yield
        # wait for the last operation
        waited = 0
        while b.get(dut.busy) or st["op"] is not None:
            waited += 1
            if waited > OP_BOUND + 2 * 11 * 150 + 100:
                return
            yield
        for _ in range(2 * q + 6):
            yield

    b.add_monitor(monitor)
    b.add_driver(driver())
    b.run()
    res.cycles = b.cycle
    if b.hit_max_cycles:
        res.violation("case_did_not_finish", "max cycles reached at op %d" % st["next_i"])
    if st["next_i"] < len(ops) and not res.violations:
        res.violation("case_did_not_finish", "only %d of %d operations were accepted" % (st["next_i"], len(ops)))
    s = st["stats"]
    res.nontrivial = (s["rep"] > 0 and (not can_stretch or (s["w_str"] > 0 and s["r_str"] > 0)))
