"""C05 -- inter-packet response timing matches the selected bus speed.

DUTs (all real luna objects, elaborated per case):
  timer   USBInterpacketTimer stand-alone, configurations (60 MHz, all speeds), (60 MHz, fs_only), (12 MHz, fs_only),
          1-3 InterpacketTimerInterface attached (any of them may start the timer, all must see the same strobes).
  tokdet  USBTokenDetector(domain_clock, fs_only) stand-alone: `interface.ready_for_response` measured black-box from
          the end of a well-formed token for the detector's address (the cycle rx_active is first sampled low).
  rxdata  USBDataPacketReceiver wired to a real USBDataPacketCRC and a real USBInterpacketTimer(domain_clock, fs_only)
          the way device.py wires them (thin wrapper), with a second timer interface that restarts the shared timer
          inside the receiver's waiting window: `ready_for_response` measured from the most recent start.
  device  real USBDevice (12 MHz FS-only tables as built by USBDevice(bus=UTMIInterface()); 60 MHz tables at full speed
          and, with low_speed_only, at low speed) with one test endpoint whose only activity is strobing
          `interface.timer.start`.  It observes the device's shared timer (`interface.timer.*`), the token detector's
          `tokenizer.ready_for_response` and `rx_ready_for_response`: decides that device.py hands the clock / fs_only
          parameters and the speed to all timers.  Two of the five device configurations go through the real
          constructor branch for a ULPI-shaped bus (UTMITranslator in front, always_fs / data_clock as __init__ sets
          them; bus idle, timers exercised by the test endpoint and by their start at reset); the other three use the
          UTMI branch, with the 60 MHz attributes set from the harness so that packets can be injected at UTMI level.
Workload: start strobes at adversarial distances (restart one cycle before / exactly at / after each strobe, back to
  back, held for several cycles, one cycle apart, simultaneous on two interfaces), speed changes between (and,
  unjudged, inside) measurements, packets with every rx byte-gap profile, lead-in and trailing cycles, damaged /
  foreign packets before good ones.
Oracle: per-cycle reference model written from USB 2.0 7.1.18 / the statement.  cnt(t) = number of clock edges since
  the edge that took the most recent start (reset = start at cycle 0); a strobe is expected in exactly the cycles in
  which cnt == N(speed), N from the table below (cycles = bit times * clock / bit rate):
      60 MHz: HS (1, 24, 92)   FS (10, 32, 80)   LS (80, 260, 640)        12 MHz: FS (2, 6|7, 16)
  Rounding rule for the 6.5-bit-time deadline: a maximum must not be exceeded, so the strobe belongs to the last clock
  edge not later than 6.5 bit times = floor(6.5 * cycles per bit) (32 at 60 MHz, the figure ULPI 1.1 gives; 33 is a
  violation).  Only at 12 MHz, where one bit time is one clock period and the half bit cannot be resolved, 6 and 7 are
  both accepted (the statement does not decide; 7 -> 6 would move to the safe side of the limit).
  Latency rule: where the start strobe itself is observed (stand-alone timer, in-device timer on the ULPI path) the
  offset is exactly N: the strobe is sampled high at the (N+1)-th edge after the edge that sampled the start, nothing
  else is accepted ("all strobes one cycle late" is a violation).  Where only the end of a packet is observed (token
  detector, data receiver, packet-started in-device timers) the statement does not fix the latency from rx_active
  falling to the internal start: hypotheses L=0 / L=1 are evaluated and ONE must explain every strobe of the case.
  In all cases each strobe appears exactly once per start and never if restarted earlier.
Not judged: speeds other than FS in fs_only configurations (the statement excludes them); speed value 3; strobes of
  a measurement during which the speed input changed; whether damaged / foreign / SOF packets start a timer (after
  such a packet nothing is judged until the next known start); the receiver's ready strobe outside the window that
  follows a valid data packet.  Host packets that arrive inside the device's response window are not generated.
Monitors: one per-cycle judge per observed output group (timer strobes; token ready; receiver ready, modelled with the
  receiver's arm/disarm gating), fed with the sampled start events and the sampled speed; all interfaces of one timer
  must show identical strobes.
Finding (original tree; fixed in /repo by commit 13804e4): at speed LOW the timer used the HIGH-speed table
  (findings/C05.md).  Classifier, kept for regression: a
  second judge whose table differs only in "LS row := HS row" runs beside the specification judge; the mechanism
  `<where>ls_follows_hs_table` is reported only when the specification judge is contradicted at speed LOW while the second
  judge still explains every judged cycle; anything else keeps `<where><strobe>_{spurious,missing}_<speed>`.
Long idle periods (1-2x the next power of two above the longest timeout) are generated in every configuration so that a
  counter which wraps instead of saturating repeats its strobes inside a judged window.
Not covered: the raw-I/O (GatewarePHY) constructor branch (needs a 48 MHz bit-level line model), in-device high speed.
Deviation from DESIGN section 7: latency L is required to be constant per case (cases are independent processes), not
  per run.  High-speed in-device operation (needs the 300 k-cycle chirp handshake) is covered at block level only.
"""
from rv.sim import Bench
from rv.ref import usb2 as U

PROPERTY = "C05"
CASES = {"quick": 400, "thorough": 6000}
RULE = ("case = one DUT kind (timer 45% / tokdet 20% / rxdata 20% / device 15%) x configuration (60 MHz all speeds, "
        "60 MHz fs_only, 12 MHz fs_only) x a script of 30-150 timer starts or 15-60 packets with adversarial spacing and "
        "speed changes; every cycle judged against the reference counter; non-trivial = >=10 judged strobes and >=1 "
        "restart before expiry (timer) / >=5 judged ready strobes (others); distinct = hash of configuration + script")
REQUIRED_BINS = [
    "timer_60_hs", "timer_60_fs", "timer_60_ls", "timer_60fs_fs", "timer_12fs_fs",
    "restart_just_before_allowed", "restart_at_allowed", "restart_just_before_timeout", "restart_at_timeout",
    "restart_just_before_rxto", "restart_at_rxto", "full_measurement", "start_adjacent_cycles", "start_one_cycle_apart",
    "wait_past_counter_range_60", "wait_past_counter_range_60fs", "wait_past_counter_range_12fs",
    "device_ulpi_fs", "device_ulpi_ls",
    "start_held", "simultaneous_starts", "multi_interface", "speed_change_between", "speed_change_same_cycle_as_start",
    "tokdet_60_hs", "tokdet_60_fs", "tokdet_60_ls", "tokdet_60fs_fs", "tokdet_12fs_fs", "tokdet_noise_before_good",
    "rxdata_60_hs", "rxdata_60_fs", "rxdata_60_ls", "rxdata_60fs_fs", "rxdata_12fs_fs", "rxdata_restart_in_window",
    "rxdata_bad_before_good", "rxdata_zlp",
    "device_12fs_fs", "device_60_fs", "device_60_ls", "device_spy_restart",
]
REQUIRED_EVENTS = ["cycles_judged", "tx_allowed_seen", "tx_timeout_seen", "rx_timeout_seen", "starts",
                   "tokdet_ready_seen", "rxdata_ready_seen", "device_token_ready_seen", "device_rx_ready_seen",
                   "device_timer_strobes_seen"]
ASSUMPTIONS = [
    "a strobe 'at N' means: sampled high at the (N+1)-th clock edge after the edge that sampled the start (the counter is "
    "0 in the first cycle after that edge); one additional register (L=1, uniform) is tolerated only for outputs measured "
    "from the end of a packet, never where the start strobe itself is observed",
    "6.5 bit times = floor(6.5 * cycles per bit) cycles (32 at 60 MHz); at 12 MHz, where the clock cannot resolve half a bit, 6 or 7",
    "fs_only configurations are judged at full speed only; mid-measurement speed changes are generated but not judged",
    "the end of a packet is the first cycle in which rx_active is sampled low",
]

HS, FS, LS = 0, 1, 2
SPEEDNAME = {HS: "hs", FS: "fs", LS: "ls", 3: "s3"}
STROBES = ("tx_allowed", "tx_timeout", "rx_timeout")

# speed -> (min, (max roundings), receive timeout) in cycles, from bit times:
#   FS bit = clk/12e6 cycles, LS bit = clk/1.5e6 cycles, HS: 8 bit times per 60 MHz cycle.
#   min = 2 bit times (HS: 8 bit times = 1 cycle), max = 6.5 bit times (HS: 24 cycles), rx timeout = 16 (HS: 736) bit times


def spec_table(clock, fs_only):
    def fsls(bit):
        # rounding rule for the 6.5-bit-time deadline: a maximum must not be exceeded, so the strobe belongs to the last
        # clock edge that is not later than 6.5 bit times = floor(6.5 * cycles_per_bit): 32 at 60 MHz FS (also the figure
        # ULPI 1.1 gives), 260 at LS.  Only when a bit time is a single clock period (12 MHz) the half bit cannot be
        # resolved by the clock at all: there 6 and the next edge 7 are both accepted (genuinely undecided).
        lo = int(6.5 * bit)
        alts = (lo, lo + 1) if bit == 1 else (lo,)
        return (2 * bit, alts, 16 * bit)
    t = {FS: fsls(int(round(clock / 12e6)))}
    if not fs_only:
        assert clock == 60e6
        t[LS] = fsls(40)
        t[HS] = (1, (24,), 736 // 8)
    return t


class Judge:
    """Per-cycle reference counter + hypothesis filter.  `observed` = indices of STROBES that are compared."""

    def __init__(self, table, observed=(0, 1, 2), t0_known=True, gated=False, lats=(0, 1)):
        self.table = table
        self.observed = observed
        self.lats = lats                # admissible output latencies (see module docstring)
        self.gated = gated              # receiver-style output: tx_allowed is passed on only while `armed`
        self.armed = False              # armed by step(arm=1); disarmed by the first expected strobe
        self.alive = [(L, alt) for L in lats for alt in (0, 1)]
        self.first = {}                 # hypothesis -> first mismatch
        self.last_start = 0             # latest start sampled at a cycle < t
        self.rel_start = 0              # latest start sampled at a cycle <= t-2
        self.last_inval = 0 if t0_known else 1
        self.prev_speed = None
        self.xprev = None
        self.death = None               # (cycle, mismatch) when the last hypothesis died
        self.judged = 0
        self.seen = [0, 0, 0]

    def invalidate(self, t):
        self.last_inval = max(self.last_inval, t)

    def expected(self, speed, cnt):
        e = self.table.get(speed)
        if e is None:
            return None
        nmin, alts, nrx = e
        out = []
        for alt in (0, 1):
            nmax = alts[min(alt, len(alts) - 1)]
            out.append((int(cnt == nmin), int(cnt == nmax), int(cnt == nrx)))
        return out

    def step(self, t, start, speed, obs, arm=0):
        """obs = tuple of 3 sampled strobes (unobserved entries ignored); returns True if the cycle was judged."""
        if self.prev_speed is not None and speed != self.prev_speed:
            self.last_inval = max(self.last_inval, t)
        self.prev_speed = speed
        cnt = t - self.last_start - 1
        x = self.expected(speed, cnt)
        if self.gated and x is not None:
            if not self.armed:
                x = [(0, 0, 0), (0, 0, 0)]
            elif x[0][0]:
                self.armed = False
        if arm:
            self.armed = True
        judged = x is not None and self.xprev is not None and self.last_inval <= self.rel_start
        if judged and self.alive:
            self.judged += 1
            for i in self.observed:
                if obs[i]:
                    self.seen[i] += 1
            still = []
            for hyp in self.alive:
                L, alt = hyp
                exp = x[alt] if L == 0 else self.xprev[alt]
                bad = None
                for i in self.observed:
                    if obs[i] != exp[i]:
                        bad = {"cycle": t, "strobe": STROBES[i], "speed": speed, "observed": obs[i], "expected": exp[i],
                               "cycles_since_start_edge": cnt, "L": L, "rounding": alt}
                        break
                if bad is None:
                    still.append(hyp)
                else:
                    self.first[hyp] = bad
            if not still:
                # report the hypothesis that survived longest; prefer the combinational one
                cand = sorted(self.alive)[0]
                self.death = (t, self.first[cand])
            self.alive = still
        self.xprev = x
        self.rel_start = self.last_start
        if start:
            self.last_start = t
        return judged

    @property
    def dead(self):
        return self.death is not None

    def mechanism(self, prefix=""):
        m = self.death[1]
        return "%s%s_%s_%s" % (prefix, m["strobe"], "spurious" if m["observed"] else "missing", SPEEDNAME[m["speed"]])


def ls_as_hs(table):
    t = dict(table)
    if LS in t and HS in t:
        t[LS] = t[HS]
    return t


class DualJudge:
    """Primary judge (specification table) plus a shadow judge whose low-speed row is replaced by the high-speed row.

    The shadow exists only to *classify* a failure narrowly: a violation is named `<prefix>ls_follows_hs_table` iff the
    specification model died at low speed while the shadow model (which differs in nothing else) still explained
    every cycle.  Any behaviour that the shadow cannot explain either is reported under its own mechanism name.
    """

    def __init__(self, table, observed=(0, 1, 2), t0_known=True, gated=False, lats=(0, 1)):
        self.p = Judge(table, observed, t0_known, gated, lats)
        self.s = Judge(ls_as_hs(table), observed, t0_known, gated, lats)

    def invalidate(self, t):
        self.p.invalidate(t)
        self.s.invalidate(t)

    def step(self, t, start, speed, obs, arm=0):
        j = self.p.step(t, start, speed, obs, arm)
        self.s.step(t, start, speed, obs, arm)
        return j

    def verdict(self, res, prefix, ctx):
        p, s = self.p, self.s
        if not p.dead:
            return
        pt, pm = p.death
        if pm["speed"] == LS and (not s.dead or s.death[0] > pt):
            res.violation(prefix + "ls_follows_hs_table",
                          "%s: at low speed the strobes appear at the high-speed offsets; first contradiction with the "
                          "specification table: %s" % (ctx, pm))
            if s.dead:
                res.violation(s.mechanism(prefix), "%s: %s" % (ctx, s.death[1]))
        else:
            res.violation(p.mechanism(prefix), "%s: %s" % (ctx, pm))


CONFIGS = {"60": (60e6, False), "60fs": (60e6, True), "12fs": (12e6, True)}


def pick_config(rng):
    return rng.choice(["60", "60", "60", "60fs", "12fs"])


def judged_speeds(cfg):
    return [HS, FS, LS] if cfg == "60" else [FS]


# ====================================================================================== timer

def case_timer(rng, tier, res):
    from luna.gateware.usb.usb2.packet import USBInterpacketTimer, InterpacketTimerInterface
    cfg = pick_config(rng)
    clock, fs_only = CONFIGS[cfg]
    n_if = rng.choice([1, 1, 2, 3])
    dut = USBInterpacketTimer(domain_clock=clock, fs_only=fs_only)
    ifs = [InterpacketTimerInterface() for _ in range(n_if)]
    for i in ifs:
        dut.add_interface(i)
    table = spec_table(clock, fs_only)
    budget = rng.randint(2500, 6000)
    b = Bench(dut, domain="usb", freq=clock, max_cycles=budget + 4000)
    b.watch(dut.speed)
    for i in ifs:
        b.watch(i.start, i.tx_allowed, i.tx_timeout, i.rx_timeout)
    judge = DualJudge(table, lats=(0,))     # the start is observed directly: the offset is exactly N, no latency slack
    res.desc = {"kind": "timer", "config": cfg, "interfaces": n_if, "script": []}
    res.sig("timer", cfg, n_if)
    if n_if > 1:
        res.bin("multi_interface")
    st = {"prev_start": 0, "restarts": 0, "speed": None}

    def monitor(b):
        t = b.cycle
        speed = b.get(dut.speed)
        if speed != st["speed"]:
            st["speed"] = speed
            st["speed_since"] = t
        starts = [b.get(i.start) for i in ifs]
        start = int(any(starts))
        obs = tuple(b.get(s) for s in (ifs[0].tx_allowed, ifs[0].tx_timeout, ifs[0].rx_timeout))
        for k, i in enumerate(ifs[1:]):
            o2 = (b.get(i.tx_allowed), b.get(i.tx_timeout), b.get(i.rx_timeout))
            if o2 != obs:
                res.violation("timer_interfaces_disagree", "cycle %d interface0=%s interface%d=%s" % (t, obs, k + 1, o2))
        if judge.step(t, start, speed, obs):
            res.event("cycles_judged")
            for k, o in enumerate(obs):
                if o:
                    res.event(STROBES[k] + "_seen")
        if start:
            res.event("starts")
            if sum(starts) > 1:
                res.bin("simultaneous_starts")
            e = table.get(speed)
            reached = t - st["prev_start"] - 1          # largest counter value of the measurement that just ended
            if e is not None and st["speed_since"] <= st["prev_start"]:
                nmin, alts, nrx = e
                if reached == 0:
                    res.bin("start_adjacent_cycles")
                elif reached == 1:
                    res.bin("start_one_cycle_apart")
                for name, n in (("allowed", nmin), ("timeout", alts[0]), ("rxto", nrx)):
                    if reached == n - 1:
                        res.bin("restart_just_before_" + name)
                    elif reached == n:
                        res.bin("restart_at_" + name)
                if reached > nrx + 1:
                    res.bin("full_measurement")
                else:
                    st["restarts"] += 1
                res.bin("timer_%s_%s" % (cfg, SPEEDNAME[speed]))
            if st["speed_since"] == t:
                res.bin("speed_change_same_cycle_as_start")
            st["prev_start"] = t

    st["speed_since"] = 0

    def driver():
        speeds = judged_speeds(cfg)
        speed = rng.choice(speeds)
        b.set(dut.speed, speed)
        yield
        first = True
        while b.cycle < budget:
            e = table[speed] if speed in table else table[FS]
            nmin, alts, nrx = e
            # speed change between measurements
            r = rng.random()
            if r < 0.30 and not first:
                if cfg == "60":
                    new = rng.choice([s for s in speeds if s != speed])
                else:
                    new = rng.choice([HS, LS, 3, FS, FS])      # unjudged excursions in fs_only configurations
                if new != speed:
                    speed = new
                    b.set(dut.speed, speed)
                    res.bin("speed_change_between")
                    res.sig("speed", speed)
                    for _ in range(rng.choice([0, 0, 1, 2, 3, 7])):
                        yield
                    e = table[speed] if speed in table else table[FS]
                    nmin, alts, nrx = e
            first = False
            # start pulse
            hold = 1 if rng.random() < 0.8 else rng.randint(2, 5)
            if hold > 1:
                res.bin("start_held")
            who = [rng.randrange(n_if)]
            if n_if > 1 and rng.random() < 0.15:
                who = list(range(n_if)) if rng.random() < 0.5 else rng.sample(range(n_if), 2)
            for h in range(hold):
                for k in who:
                    b.set(ifs[k].start, 1)
                yield
                for k in who:
                    b.set(ifs[k].start, 0)
                if n_if > 1 and h + 1 < hold:
                    who = [rng.randrange(n_if)]
            # distance to the next start (cycles with start low in between)
            r = rng.random()
            if r < 0.45:
                n = rng.choice([nmin, alts[0], alts[-1], nrx])
                d = max(0, n + rng.choice([-2, -1, -1, 0, 0, 1, 2]))
            elif r < 0.55:
                d = rng.choice([0, 0, 1, 1, 2, 3])
            elif r < 0.75:
                d = rng.randint(0, nrx + 10)
            else:
                d = nrx + rng.randint(2, 40)
            if rng.random() < 0.05:
                # very long idle: 1-2x the next power of two above the longest timeout of this configuration, so that a
                # counter that wraps instead of saturating shows its strobes again
                longest = max(e_[2] for e_ in table.values())
                p2 = 1
                while p2 < longest + 2:
                    p2 *= 2
                d = rng.choice([1, 1, 2]) * p2 + rng.randint(0, longest + 5)
                res.bin("wait_past_counter_range_%s" % cfg)
            if len(res.desc["script"]) < 5:
                res.desc["script"].append({"speed": SPEEDNAME[speed], "hold": hold, "ifaces": who, "wait": d})
            res.sig(hold, tuple(who), d)
            # optional unjudged speed glitch inside the measurement
            glitch_at = rng.randrange(d) if (d > 4 and rng.random() < 0.06 and cfg == "60") else None
            for c in range(d):
                if glitch_at is not None and c == glitch_at:
                    speed = rng.choice([s for s in speeds if s != speed])
                    b.set(dut.speed, speed)
                    res.unjudged += 1
                yield
        for _ in range(nrx + 6):
            yield

    b.add_monitor(monitor)
    b.add_driver(driver())
    b.run()
    res.cycles = b.cycle
    judge.verdict(res, "", "timer config=%s interfaces=%d" % (cfg, n_if))
    res.nontrivial = sum(judge.p.seen) + sum(judge.s.seen) >= 10 and st["restarts"] >= 1


# ====================================================================================== packet helpers

def send_packet(b, utmi, rng, data, gap_profile, lead=None, trail=0):
    """Legal UTMI receive packet: rx_active >= 1 cycle before the first rx_valid, rx_valid only inside rx_active."""
    n = len(data)
    if gap_profile == "none":
        gaps = [0] * n
    elif gap_profile == "fixed4":
        gaps = [4] * n
    elif gap_profile == "random":
        gaps = [rng.choice([0, 0, 1, 2, 3, 6]) for _ in range(n)]
    elif gap_profile == "onestall":
        gaps = [0] * n
        if n:
            gaps[rng.randrange(n)] = rng.randint(5, 20)
    else:
        gaps = [gap_profile[1]] * n
    if lead is None:
        lead = rng.choice([1, 1, 1, 2, 3])
    b.set(utmi.rx_active, 1)
    b.set(utmi.rx_valid, 0)
    for _ in range(lead):
        yield
    for i in range(n):
        for _ in range(gaps[i]):
            b.set(utmi.rx_valid, 0)
            b.set(utmi.rx_data, rng.randrange(256))
            yield
        b.set(utmi.rx_valid, 1)
        b.set(utmi.rx_data, data[i])
        yield
    b.set(utmi.rx_valid, 0)
    for _ in range(trail):
        yield
    b.set(utmi.rx_active, 0)
    yield


GAP_PROFILES = ["none", "none", "fixed4", "random", "onestall", ("fixed", 1)]


def noise_token(rng, own):
    k = rng.choice(["foreign", "crc5", "pid", "trunc", "long", "sof", "handshake", "data"])
    if k == "foreign":
        other = rng.choice([own ^ (1 << rng.randrange(7)), rng.randrange(128)])
        if other == own:
            other = own ^ 1
        return k, U.token(rng.choice([U.IN, U.OUT, U.SETUP]), other, rng.randrange(16))
    pkt = bytearray(U.token(rng.choice([U.IN, U.OUT, U.SETUP]), own, rng.randrange(16)))
    if k == "crc5":
        pkt[rng.randrange(1, 3)] ^= 1 << rng.randrange(8)
    elif k == "pid":
        pkt[0] ^= 1 << rng.randrange(4, 8)
    elif k == "trunc":
        pkt = pkt[:rng.randint(1, 2)]
    elif k == "long":
        pkt += bytes(rng.randrange(256) for _ in range(rng.randint(1, 3)))
    elif k == "sof":
        pkt = bytearray(U.sof(rng.randrange(2048)))
    elif k == "handshake":
        pkt = bytearray(U.handshake(rng.choice([U.ACK, U.NAK, U.STALL])))
    else:
        pkt = bytearray(U.data(rng.choice([U.DATA0, U.DATA1]), bytes(rng.randrange(256) for _ in range(rng.randint(0, 6)))))
    return k, bytes(pkt)


# ====================================================================================== token detector

def case_tokdet(rng, tier, res):
    from luna.gateware.interface.utmi import UTMIInterface
    from luna.gateware.usb.usb2.packet import USBTokenDetector
    cfg = pick_config(rng)
    clock, fs_only = CONFIGS[cfg]
    utmi = UTMIInterface()
    dut = USBTokenDetector(utmi=utmi, domain_clock=clock, fs_only=fs_only)
    table = spec_table(clock, fs_only)
    b = Bench(dut, domain="usb", freq=clock, max_cycles=40000)
    rfr = dut.interface.ready_for_response
    b.watch(dut.speed, dut.address, utmi.rx_active, utmi.rx_valid, utmi.rx_data, rfr, dut.interface.new_token)
    judge = DualJudge(table, observed=(0,))
    res.desc = {"kind": "tokdet", "config": cfg, "packets": []}
    res.sig("tokdet", cfg)
    st = {"prev_active": 0, "cur_start": False, "ready": 0, "good": 0}

    def monitor(b):
        t = b.cycle
        act = b.get(utmi.rx_active)
        start = 0
        if st["prev_active"] and not act:
            if st["cur_start"]:
                start = 1
                res.event("starts")
            else:
                judge.invalidate(t)
        st["prev_active"] = act
        r = b.get(rfr)
        if judge.step(t, start, b.get(dut.speed), (r, 0, 0)):
            res.event("cycles_judged")
            if r:
                st["ready"] += 1
                res.event("tokdet_ready_seen")
                res.event("tx_allowed_seen")

    def driver():
        speeds = judged_speeds(cfg)
        speed = rng.choice(speeds)
        own = rng.randrange(128)
        b.set(dut.speed, speed)
        b.set(dut.address, own)
        for _ in range(rng.randint(1, 4)):
            yield
        n = rng.randint(15, 60)
        prev_noise = False
        for _ in range(n):
            if b.cycle > 30000:
                break
            if rng.random() < 0.25:
                new = rng.choice(speeds) if cfg == "60" else rng.choice([FS, FS, HS, LS])
                if new != speed:
                    speed = new
                    b.set(dut.speed, speed)
                    res.sig("speed", speed)
                    for _ in range(rng.randint(0, 3)):
                        yield
            if rng.random() < 0.1:
                own = rng.randrange(128)
                b.set(dut.address, own)
                yield
            e = table.get(speed, table[FS])
            nmin = e[0]
            gp = rng.choice(GAP_PROFILES)
            trail = rng.choice([0, 0, 0, 1, 2, 3])
            if rng.random() < 0.65:
                pids = [U.IN, U.OUT, U.SETUP] + ([U.PING] if speed == HS else [])
                pkt = U.token(rng.choice(pids), own, rng.randrange(16))
                kind = "good"
                st["cur_start"] = True
                if speed in table:
                    res.bin("tokdet_%s_%s" % (cfg, SPEEDNAME[speed]))
                    if prev_noise:
                        res.bin("tokdet_noise_before_good")
                    st["good"] += 1
                prev_noise = False
            else:
                kind, pkt = noise_token(rng, own)
                st["cur_start"] = False
                prev_noise = True
            if len(res.desc["packets"]) < 4:
                res.desc["packets"].append({"speed": SPEEDNAME[speed], "kind": kind, "pkt": pkt.hex(), "gaps": str(gp), "trail": trail})
            res.sig(kind, pkt, gp, trail)
            yield from send_packet(b, utmi, rng, pkt, gp, trail=trail)
            # a legal host does not transmit inside the response window of a token addressed to the device
            wait = (nmin + rng.choice([3, 4, 5, 9, 30])) if kind == "good" else rng.choice([1, 2, 3, 10, nmin + 5])
            for _ in range(wait):
                yield
        for _ in range(100):
            yield

    b.add_monitor(monitor)
    b.add_driver(driver())
    b.run()
    res.cycles = b.cycle
    if b.hit_max_cycles:
        res.violation("harness_max_cycles", "tokdet case did not finish")
    judge.verdict(res, "tokdet_", "token detector config=%s" % cfg)
    res.nontrivial = st["ready"] >= 5


# ====================================================================================== data receiver

def make_rx_wrapper(clock, fs_only):
    from amaranth import Elaboratable, Module, Signal
    from luna.gateware.interface.utmi import UTMIInterface
    from luna.gateware.usb.usb2.packet import (USBDataPacketReceiver, USBDataPacketCRC, USBInterpacketTimer,
                                               InterpacketTimerInterface)

    class RxWrap(Elaboratable):
        def __init__(self):
            self.utmi = UTMIInterface()
            self.speed = Signal(2)
            self.extra = InterpacketTimerInterface()
            self.receiver = USBDataPacketReceiver(utmi=self.utmi)

        def elaborate(self, platform):
            m = Module()
            m.submodules.receiver = rx = self.receiver
            m.submodules.crc = crc = USBDataPacketCRC()
            m.submodules.timer = timer = USBInterpacketTimer(domain_clock=clock, fs_only=fs_only)
            crc.add_interface(rx.data_crc)
            timer.add_interface(rx.timer)
            timer.add_interface(self.extra)
            m.d.comb += [crc.rx_data.eq(self.utmi.rx_data), crc.rx_valid.eq(self.utmi.rx_valid),
                         timer.speed.eq(self.speed)]
            return m
    return RxWrap()


def noise_data(rng):
    k = rng.choice(["crc", "crc", "pid", "trunc", "token", "handshake", "long"])
    payload = bytes(rng.randrange(256) for _ in range(rng.randint(0, 10)))
    pkt = bytearray(U.data(rng.choice([U.DATA0, U.DATA1]), payload))
    if k == "crc":
        pkt[rng.randrange(1, len(pkt))] ^= 1 << rng.randrange(8)
    elif k == "pid":
        pkt[0] ^= 1 << rng.randrange(4, 8)
    elif k == "trunc":
        pkt = pkt[:rng.randint(1, max(1, len(pkt) - 1))]
    elif k == "token":
        pkt = bytearray(U.token(rng.choice([U.IN, U.OUT, U.SETUP]), rng.randrange(128), rng.randrange(16)))
    elif k == "handshake":
        pkt = bytearray(U.handshake(rng.choice([U.ACK, U.NAK])))
    else:
        pkt += bytes([rng.randrange(256)])
    if U.classify(bytes(pkt))["kind"] == "data":     # damage happened to produce a valid packet: make it invalid for sure
        pkt[-1] ^= 0x01
    return k, bytes(pkt)


def good_data(rng):
    n = rng.choice([0, 0, 1, 2, 3, 8, rng.randint(0, 24)])
    payload = bytes(rng.randrange(256) for _ in range(n))
    return U.data(rng.choice([U.DATA0, U.DATA1, U.DATA2, U.MDATA]), payload), n


def case_rxdata(rng, tier, res):
    cfg = pick_config(rng)
    clock, fs_only = CONFIGS[cfg]
    dut = make_rx_wrapper(clock, fs_only)
    utmi = dut.utmi
    table = spec_table(clock, fs_only)
    b = Bench(dut, domain="usb", freq=clock, max_cycles=60000)
    rfr = dut.receiver.ready_for_response
    b.watch(dut.speed, utmi.rx_active, utmi.rx_valid, utmi.rx_data, rfr, dut.extra.start, dut.receiver.packet_complete)
    judge = DualJudge(table, observed=(0,), t0_known=False, gated=True)
    res.desc = {"kind": "rxdata", "config": cfg, "packets": []}
    res.sig("rxdata", cfg)
    st = {"prev_active": 0, "cur_start": False, "ready": 0, "extra_judged": True}

    def monitor(b):
        t = b.cycle
        act = b.get(utmi.rx_active)
        start = 0
        if st["prev_active"] and not act:
            if st["cur_start"]:
                start = 1
                res.event("starts")
            else:
                judge.invalidate(t)
        st["prev_active"] = act
        arm = start
        if b.get(dut.extra.start):
            if st["extra_judged"]:
                start = 1
            else:
                judge.invalidate(t)      # receiver is not waiting: its ready strobe is gated off, nothing to judge
        r = b.get(rfr)
        if judge.step(t, start, b.get(dut.speed), (r, 0, 0), arm):
            res.event("cycles_judged")
            if r:
                st["ready"] += 1
                res.event("rxdata_ready_seen")
                res.event("tx_allowed_seen")

    def driver():
        speeds = judged_speeds(cfg)
        speed = rng.choice(speeds)
        b.set(dut.speed, speed)
        for _ in range(rng.randint(1, 4)):
            yield
        n = rng.randint(15, 50)
        prev_noise = False
        for _ in range(n):
            if b.cycle > 50000:
                break
            if rng.random() < 0.25:
                # fs_only configurations stay at full speed: at any other speed their timer never fires and the
                # receiver would (legitimately, outside the property) wait forever
                new = rng.choice(speeds)
                if new != speed:
                    speed = new
                    b.set(dut.speed, speed)
                    res.sig("speed", speed)
                    for _ in range(rng.randint(0, 3)):
                        yield
            nmin = table[speed][0]
            gp = rng.choice(GAP_PROFILES)
            trail = rng.choice([0, 0, 0, 1, 2, 3])
            if rng.random() < 0.65:
                pkt, plen = good_data(rng)
                kind = "good"
                st["cur_start"] = True
                if speed in table:
                    res.bin("rxdata_%s_%s" % (cfg, SPEEDNAME[speed]))
                    if prev_noise:
                        res.bin("rxdata_bad_before_good")
                    if plen == 0:
                        res.bin("rxdata_zlp")
                prev_noise = False
            else:
                kind, pkt = noise_data(rng)
                st["cur_start"] = False
                prev_noise = True
            if len(res.desc["packets"]) < 4:
                res.desc["packets"].append({"speed": SPEEDNAME[speed], "kind": kind, "pkt": pkt.hex(), "gaps": str(gp), "trail": trail})
            res.sig(kind, pkt, gp, trail)
            yield from send_packet(b, utmi, rng, pkt, gp, trail=trail)
            if kind == "good":
                # now (this cycle) the timer start of the receiver has been sampled; optionally restart the shared timer
                # from the second interface while the receiver waits: the response must move with the most recent start
                total = 0
                if rng.random() < 0.35 and nmin >= 2:
                    st["extra_judged"] = True
                    k = rng.randint(0, nmin - 2)
                    for _ in range(k):
                        yield
                    b.set(dut.extra.start, 1)
                    yield
                    b.set(dut.extra.start, 0)
                    res.sig("extra", k)
                    if speed in table:
                        res.bin("rxdata_restart_in_window")
                for _ in range(nmin + rng.choice([3, 4, 5, 9, 30])):
                    yield
            else:
                if rng.random() < 0.2:
                    st["extra_judged"] = False          # restart outside a waiting window: legal, unjudged
                    b.set(dut.extra.start, 1)
                    yield
                    b.set(dut.extra.start, 0)
                    res.unjudged += 1
                for _ in range(rng.choice([1, 2, 3, 10, nmin + 5])):
                    yield
        for _ in range(100):
            yield

    b.add_monitor(monitor)
    b.add_driver(driver())
    b.run()
    res.cycles = b.cycle
    if b.hit_max_cycles:
        res.violation("harness_max_cycles", "rxdata case did not finish")
    judge.verdict(res, "rxdata_", "data receiver config=%s" % cfg)
    res.nontrivial = st["ready"] >= 5


# ====================================================================================== in-device

def case_device(rng, tier, res):
    from amaranth import Elaboratable, Module, Signal
    from luna.gateware.interface.utmi import UTMIInterface
    from luna.gateware.usb.usb2.device import USBDevice
    from luna.gateware.usb.usb2.endpoint import EndpointInterface

    class TimerTestEndpoint(Elaboratable):
        """Endpoint whose only activity is to strobe the shared inter-packet timer; otherwise a passive observer."""

        def __init__(self):
            self.interface = EndpointInterface()
            self.start = Signal()

        def elaborate(self, platform):
            m = Module()
            m.d.comb += self.interface.timer.start.eq(self.start)
            return m

    cfg = rng.choice(["12fs_fs", "60_fs", "60_ls", "ulpi_fs", "ulpi_ls"])
    ulpi_path = cfg.startswith("ulpi")
    if ulpi_path:
        # the real constructor branch for a ULPI-shaped bus (hasattr(bus, "dir")): UTMITranslator in front of the device,
        # always_fs / data_clock as USBDevice.__init__ sets them.  No PHY model: the bus stays idle, the shared timer is
        # exercised through the test endpoint and the token detector's timer through its start at reset.
        from amaranth.hdl.rec import Record
        bus = Record([("data", [("i", 8), ("o", 8), ("oe", 1)]), ("clk", [("o", 1)]), ("nxt", [("i", 1)]),
                      ("stp", [("o", 1)]), ("dir", [("i", 1)])])
        dev = USBDevice(bus=bus, handle_clocking=False)
        utmi = dev.utmi
        clock, table = 60e6, spec_table(60e6, False)
        speed = FS if cfg == "ulpi_fs" else LS
    else:
        utmi = UTMIInterface()
        dev = USBDevice(bus=utmi)
    if ulpi_path:
        pass
    elif cfg == "12fs_fs":
        clock, table, speed = 12e6, spec_table(12e6, True), FS
    else:
        # what the ULPI path of USBDevice.__init__ sets up: 60 MHz tables, all speeds
        dev.always_fs = False
        dev.data_clock = 60e6
        clock, table = 60e6, spec_table(60e6, False)
        speed = FS if cfg == "60_fs" else LS
    spy = TimerTestEndpoint()
    dev.add_endpoint(spy)
    b = Bench(dev, domain="usb", freq=clock, max_cycles=40000)
    ifc = spy.interface
    sigs = [ifc.timer.tx_allowed, ifc.timer.tx_timeout, ifc.timer.rx_timeout, ifc.tokenizer.ready_for_response,
            ifc.rx_ready_for_response, ifc.speed, spy.start, utmi.rx_active, utmi.rx_valid, utmi.rx_data,
            ifc.tokenizer.new_token, ifc.rx_complete]
    b.watch(*sigs)
    # shared device timer; on the ULPI path every start comes from the test endpoint: exact offset, no latency slack
    j_timer = DualJudge(table, lats=(0,) if ulpi_path else (0, 1))
    j_tok = DualJudge(table, observed=(0,))                      # token detector's private timer
    j_rx = DualJudge(table, observed=(0,), t0_known=False, gated=True)   # receiver's gated ready strobe
    res.desc = {"kind": "device", "config": cfg, "packets": []}
    res.sig("device", cfg)
    st = {"prev_active": 0, "cur": None, "rx_judged_extra": True, "ready": 0, "settled": False}

    def monitor(b):
        t = b.cycle
        act = b.get(utmi.rx_active)
        sp = b.get(ifc.speed)
        tok_start = data_start = 0
        if st["prev_active"] and not act:
            if st["cur"] == "token":
                tok_start = 1
            elif st["cur"] == "data":
                data_start = 1
            elif st["cur"] == "noise_token":
                j_tok.invalidate(t)
            elif st["cur"] == "noise_data":
                j_timer.invalidate(t)
                j_rx.invalidate(t)
            else:
                j_tok.invalidate(t); j_timer.invalidate(t); j_rx.invalidate(t)
        st["prev_active"] = act
        spy_start = b.get(spy.start)
        rx_spy_start = spy_start
        if spy_start and not st["rx_judged_extra"]:
            j_rx.invalidate(t)           # receiver is not waiting: its ready strobe is gated off, nothing to judge
            rx_spy_start = 0
        if tok_start or data_start or spy_start:
            res.event("starts")
        obs = (b.get(ifc.timer.tx_allowed), b.get(ifc.timer.tx_timeout), b.get(ifc.timer.rx_timeout))
        if j_timer.step(t, int(data_start or spy_start), sp, obs):
            res.event("cycles_judged")
            for k, o in enumerate(obs):
                if o:
                    res.event(STROBES[k] + "_seen")
                    res.event("device_timer_strobes_seen")
        r = b.get(ifc.tokenizer.ready_for_response)
        if j_tok.step(t, tok_start, sp, (r, 0, 0)) and r:
            res.event("device_token_ready_seen")
            st["ready"] += 1
        r = b.get(ifc.rx_ready_for_response)
        if j_rx.step(t, int(data_start or rx_spy_start), sp, (r, 0, 0), data_start) and r:
            res.event("device_rx_ready_seen")
            st["ready"] += 1

    def driver():
        # idle J for the selected speed (line_state: FS J = 01, LS J = 10), device connected
        if not ulpi_path:
            b.set(utmi.line_state, 0b10 if speed == LS else 0b01)
        b.set(dev.connect, 1)
        if cfg in ("60_fs", "ulpi_fs"):
            b.set(dev.full_speed_only, 1)
        elif cfg in ("60_ls", "ulpi_ls"):
            b.set(dev.low_speed_only, 1)
        nmin, alts, nrx = table[speed]
        if ulpi_path:
            # let the start-at-reset measurement of both timers run out, then restart the shared timer at adversarial
            # distances (one before / at / after each strobe, back to back, long idle)
            for _ in range(nrx + rng.randint(3, 30)):
                yield
            for _ in range(rng.randint(10, 25)):
                b.set(spy.start, 1)
                yield
                b.set(spy.start, 0)
                res.bin("device_spy_restart")
                if b.get(ifc.speed) == speed:
                    res.bin("device_%s" % cfg)      # counted only if the device really runs at the requested speed
                r = rng.random()
                if r < 0.5:
                    d = max(0, rng.choice([nmin, alts[0], nrx]) + rng.choice([-1, 0, 1, 2]))
                elif r < 0.7:
                    d = rng.randint(0, 3)
                else:
                    d = nrx + rng.randint(2, 30)
                res.sig("spy", d)
                for _ in range(d):
                    yield
            for _ in range(nrx + 10):
                yield
            return
        for _ in range(rng.randint(4, 10)):
            yield
        n = rng.randint(12, 30)
        for _ in range(n):
            if b.cycle > 30000:
                break
            gp = rng.choice(GAP_PROFILES)
            trail = rng.choice([0, 0, 1, 2])
            r = rng.random()
            if r < 0.35:
                kind, pkt = "token", U.token(rng.choice([U.IN, U.OUT, U.SETUP]), 0, rng.randrange(16))
            elif r < 0.7:
                kind = "data"
                pkt, _n = good_data(rng)
            elif r < 0.85:
                kind = "noise_token"
                _k, pkt = noise_token(rng, 0)
                if U.classify(pkt)["kind"] == "data":
                    kind = "data"
                elif U.classify(pkt)["kind"] not in ("token", "sof", "malformed", "badpid"):
                    kind = "noise_token"
            else:
                kind = "noise_data"
                _k, pkt = noise_data(rng)
                if U.classify(pkt)["kind"] == "token":
                    kind = "other"
            st["cur"] = kind
            if len(res.desc["packets"]) < 4:
                res.desc["packets"].append({"kind": kind, "pkt": pkt.hex(), "gaps": str(gp), "trail": trail})
            res.sig(kind, pkt, gp, trail)
            yield from send_packet(b, utmi, rng, pkt, gp, trail=trail)
            res.bin("device_%s" % cfg)
            # spy restarts of the shared timer: inside the receiver's waiting window (judged), or anywhere (timer judged,
            # receiver strobe unjudged)
            waited = 0
            if rng.random() < 0.4:
                inside = kind == "data" and nmin >= 2 and rng.random() < 0.7
                st["rx_judged_extra"] = inside
                k = rng.randint(0, nmin - 2) if inside else rng.choice([0, 1, nmin, alts[0] - 1, alts[0], alts[0] + 1, nrx - 1, nrx, rng.randint(0, nrx)])
                for _ in range(k):
                    yield
                b.set(spy.start, 1)
                yield
                b.set(spy.start, 0)
                res.bin("device_spy_restart")
                res.sig("spy", k)
            for _ in range(nmin + rng.choice([3, 5, 9, alts[-1] + 3, nrx + 4])):
                yield
        for _ in range(nrx + 10):
            yield

    b.add_monitor(monitor)
    b.add_driver(driver())
    b.run()
    res.cycles = b.cycle
    if b.hit_max_cycles:
        res.violation("harness_max_cycles", "device case did not finish")
    ctx = "in-device config=%s" % cfg
    j_timer.verdict(res, "device_timer_", ctx)
    j_tok.verdict(res, "device_tokdet_", ctx)
    j_rx.verdict(res, "device_rxdata_", ctx)
    res.nontrivial = st["ready"] >= 5 or (ulpi_path and sum(j_timer.p.seen) >= 5)


KINDS = [("timer", case_timer, 45), ("tokdet", case_tokdet, 20), ("rxdata", case_rxdata, 20), ("device", case_device, 15)]


def run_case(rng, tier, res):
    r = rng.randrange(100)
    acc = 0
    for name, fn, w in KINDS:
        acc += w
        if r < acc:
            return fn(rng, tier, res)
