"""C35 -- link commands round-trip, corrupted ones are rejected.

DUTs (real luna code, one harness per case, all three exercised in every case):
  gen   LinkCommandGenerator, `source.ready` driven by the testbench (PHY back-pressure)
  loop  LinkCommandDetector whose sink sees exactly the words the generator gets accepted (valid = valid & ready), so
        every stall of the PHY shows up as not-valid words between / before the two words of a command
  det   LinkCommandDetector driven by a link-partner model
Workload
  generator: 128 commands per case (eight random commands with all 16 subtypes, so that the run covers all 256 values
    many times), requested the two ways the link layer does it -- a one-cycle `generate` strobe whose command/subtype
    inputs are scrambled right afterwards, and a level held (inputs stable) until `done` -- back to back (next request the
    cycle after `done`) or after idle cycles; ready profiles always / random p / one pulse every k / bursty.
  detector: every one of the 256 values well-formed (reserved bits sometimes non-zero with a matching CRC), not-valid words
    (0-12, garbage / held data / look-alikes of a start word or of a *different* well-formed command) between start and
    command word, all 32 single-bit corruptions of one copy and all 16 same-bit corruptions of both copies of random
    bases, random 16-bit words with a wrong CRC, a valid CRC of another value, every ctrl pattern 1..15 on a well-formed
    word, command words without a start word (preceded by idle, data, a start look-alike that is not valid, or a start
    word followed by one logical-idle word), rejected commands immediately followed by good ones, header-packet / ordered
    set / data words as other traffic.
Monitors / oracle (rv/ref/c35_usb3link.py, written from USB 3.2 7.2.2; bit-serial CRC-5 validated against recorded packets)
  wire:  every word transferred on gen.source (valid & ready) must be the next word of the reference encoding of the
         commands that were requested while the generator was idle (values sampled in the request cycle): start word
         SLC SLC SLC EPF, then sub-type | class/type << 7 | CRC-5 << 11 twice, ctrl = 0; nothing else may be transferred;
         every command completes (bounded), `done` is not raised before the command word is transferred.
  det / loop: a reference detector is run on the words sampled at the detector's sink: the valid word that follows a
         valid start word is a command candidate, well-formed iff ctrl = 0, both halves equal and the CRC-5 matches.
         `new_command` strobes are attributed to the latest candidate presented before the strobe (latency 1 or 2
         cycles both fit); a well-formed candidate needs exactly one strobe with command / class / type / subtype equal
         to the fields of the word, any other candidate none.  loop additionally: reported sequence == requested sequence.
  Start framing: a command word counts only after a start word; words that differ from SLC SLC SLC EPF in two or more
         symbols (value or K flag: the right bytes with no / two missing K flags, two other K-symbols, idle, data) are not
         start words and the well-formed word after them must not be reported (judged, 8 of each per case).
Not judged: latency of `new_command` beyond "after the word, before the next candidate's strobe"; the detector's outputs
  outside strobe cycles; a start word with exactly one wrong symbol: the statement only names
  "copies differ / CRC5 wrong / control symbols present" as reject reasons and says nothing about damaged framing, while
  USB 3.2 builds the framing ordered sets so that a receiver may still recognise them with one corrupted symbol -- an
  exact-match detector (luna today) and a one-error-tolerant one are both correct, so the candidate is optional (a mutant
  that relaxes the start compare by ONE lane is therefore not a violation; by two lanes it is caught); a start word directly followed by another start word (not generated
  by the partner; if it happens the second one is an optional start); `generate` while busy (ignored by contract).
Deviation from DESIGN section 7: none in substance; the three DUT arrangements share one elaboration per case.
"""
from rv.sim import Bench
from rv.ref import c35_usb3link as L

PROPERTY = "C35"
CASES = {"quick": 160, "thorough": 3200}
RULE = ("case = generator session (128 commands = 8 random commands x all 16 subtypes, strobe or level requests, "
        "back-to-back or spaced, one ready profile) looped into a detector + partner stream for a second detector (all 256 "
        "well-formed values, 0-12 not-valid words inside commands, all single-bit corruptions of one/both copies of random "
        "bases, wrong CRCs, ctrl patterns 1..15, commands without start, look-alikes in not-valid words); non-trivial = "
        "stalls on both words, >=1 gap inside a command and >=100 rejected candidates; distinct = hash of all stimulus")
REQUIRED_BINS = ["gen_stall_on_start_word", "gen_stall_on_command_word", "gen_no_stall", "gen_back_to_back", "gen_strobe_inputs_scrambled",
                 "gen_level_request"] + ["gen_command_%d_all_subtypes" % c for c in range(16)] + [
                 "loop_gap_inside_command", "loop_gap_before_command",
                 "det_all_256_values", "det_gap_inside_command", "det_gap_lookalike_command", "det_gap_lookalike_start",
                 "det_flip_copy0", "det_flip_copy1", "det_flip_both", "det_wrong_crc_random", "det_crc_of_other_value",
                 "det_ctrl_each_lane", "det_ctrl_all_patterns", "det_no_start_idle", "det_no_start_invalid_start", "det_start_bytes_without_ctrl",
                 "det_start_two_ctrl_flags_clear", "det_start_two_symbols_other_k", "det_start_idle_word",
                 "det_rejected_then_good_back_to_back", "det_good_back_to_back", "det_reserved_nonzero_good", "det_near_miss_start",
                 "det_long_gap"]
REQUIRED_EVENTS = ["gen_commands_requested", "gen_words_transferred", "gen_done_strobes", "loop_commands_reported",
                   "det_wellformed_candidates", "det_rejected_candidates", "det_commands_reported", "det_valid_words", "det_invalid_words"]
ASSUMPTIONS = ["a request is accepted when `generate` is sampled high while the generator is idle (before the first request or "
               "from the cycle after `done`); command/subtype are taken from that cycle",
               "one wrong symbol in a start word may or may not be tolerated (USB 3.2 framing robustness): not judged",
               "reserved bits [6:4] of a link command word are covered by the CRC-5 and otherwise ignored by a receiver"]

BOUND_DONE = 400


def wellformed(data, ctrl):
    """reference well-formedness of a command word (statement: two identical copies, valid CRC5, no control symbols)"""
    lo, hi = data & 0xFFFF, (data >> 16) & 0xFFFF
    reasons = []
    if ctrl != 0:
        reasons.append("ctrl_symbols")
    if lo != hi:
        reasons.append("copies_differ")
    if (L.crc5(lo & 0x7FF) != (lo >> 11)) or (L.crc5(hi & 0x7FF) != (hi >> 11)):
        reasons.append("bad_crc5")
    return reasons


def start_distance(data, ctrl):
    want = L.unpack_word(*L.LCSTART)
    got = L.unpack_word(data, ctrl)
    return sum(1 for a, b in zip(want, got) if a != b)


class DetectorMonitor:
    """Reference detector + attribution of new_command strobes.  Works on sampled sink signals only."""

    def __init__(self, res, name, det, b):
        self.res, self.name, self.det, self.b = res, name, det, b
        self.sigs = [det.sink.valid, det.sink.data, det.sink.ctrl, det.new_command, det.command, det.subtype,
                     det.command_class, det.command_type]
        b.watch(*self.sigs)
        self.pending = None        # None / "start" / "optional"
        self.gap_since_start = 0
        self.prev_invalid_start = False
        self.cands = []            # dicts: t, expect ("yes"/"no"/"opt"), fields, reason, strobes, gap, note
        self.closed = 0            # index of first candidate not yet judged
        self.reported = []         # (command, subtype) of all strobes, in order
        self.lookalikes = []       # values carried by not-valid well-formed words while a command was pending
        self.stalled_start = 0     # not-valid words showing the start pattern while no command is pending

    def _judge(self, cand):
        res, n = self.res, self.name
        k = len(cand["strobes"])
        ctx = "%s cand@%d expect=%s reason=%s word=%#010x ctrl=%x gap=%d strobes=%r" % (
            n, cand["t"], cand["expect"], cand["reason"], cand["data"], cand["ctrl"], cand["gap"], cand["strobes"])
        if cand["expect"] == "no":
            if k:
                res.violation("%s_accepted_%s" % (n, cand["reason"]), ctx)
            return
        if k == 0:
            if cand["expect"] == "yes":
                mech = "good_command_missed"
                if cand["gap"]:
                    mech += "_after_gap"
                elif cand.get("after_rejected"):
                    mech += "_after_rejected_command"
                res.violation("%s_%s" % (n, mech), ctx)
            return
        if k > 1:
            res.violation("%s_command_reported_twice" % n, ctx)
        for (t, cmd, sub, cls, typ) in cand["strobes"][:1]:
            f = cand["fields"]
            if (cmd, sub) != (f["command"], f["subtype"]):
                mech = "wrong_fields_reported"
                if (cmd, sub) in self.lookalikes[-4:]:
                    mech = "accepted_invalid_word"
                res.violation("%s_%s" % (n, mech), ctx + " expected=%r" % (f,))
            elif cls != (f["command"] >> 2) or typ != (f["command"] & 3):
                res.violation("%s_class_type_alias_wrong" % n, ctx + " class=%d type=%d" % (cls, typ))

    def close_until(self, idx):
        while self.closed < idx:
            self._judge(self.cands[self.closed])
            self.closed += 1

    def __call__(self, b):
        valid, data, ctrl, strobe, cmd, sub, cls, typ = (b.get(s) for s in self.sigs)
        res, n = self.res, self.name
        t = b.cycle
        if strobe:
            res.event("%s_commands_reported" % n)
            self.reported.append((cmd, sub))
            if not self.cands:
                res.violation("%s_spurious_report_no_candidate" % n, "%s strobe@%d cmd=%d sub=%d before any command word" % (n, t, cmd, sub))
            else:
                # latest candidate presented before this edge
                self.close_until(len(self.cands) - 1)
                self.cands[-1]["strobes"].append((t, cmd, sub, cls, typ))
        # ---- reference detector fed with this cycle's word
        if not valid:
            res.event("%s_invalid_words" % n)
            if self.pending:
                self.gap_since_start += 1
                if not wellformed(data, ctrl):
                    self.lookalikes.append(((data >> 7) & 0xF, data & 0xF))
            self.prev_invalid_start = (start_distance(data, ctrl) == 0)
            if self.prev_invalid_start and not self.pending:
                self.stalled_start += 1
            return
        res.event("%s_valid_words" % n)
        dist = start_distance(data, ctrl)
        if self.pending:
            reasons = wellformed(data, ctrl)
            lo = data & 0xFFFF
            cand = {"t": t, "data": data, "ctrl": ctrl, "gap": self.gap_since_start, "strobes": [],
                    "fields": {"command": (lo >> 7) & 0xF, "subtype": lo & 0xF}, "reason": "wellformed"}
            if reasons:
                cand["expect"], cand["reason"] = "no", reasons[0]
                res.event("%s_rejected_candidates" % n)
            else:
                cand["expect"] = "yes" if self.pending == "start" else "opt"
                res.event("%s_wellformed_candidates" % n)
                if self.cands and self.cands[-1]["expect"] == "no" and self.cands[-1]["t"] >= t - 2:
                    cand["after_rejected"] = True
            self.cands.append(cand)
            # a start word in command position: ambiguous, the following word may or may not be parsed
            self.pending = "optional" if dist <= 1 else None
            self.gap_since_start = 0
        elif dist == 0:
            self.pending = "start"
            self.gap_since_start = 0
        elif dist == 1:
            self.pending = "optional"
            self.gap_since_start = 0
        else:
            if not wellformed(data, ctrl):
                # well-formed command word that is not preceded by a start word
                lo = data & 0xFFFF
                self.cands.append({"t": t, "data": data, "ctrl": ctrl, "gap": 0, "strobes": [], "expect": "no",
                                   "fields": {"command": (lo >> 7) & 0xF, "subtype": lo & 0xF},
                                   "reason": "after_invalid_start_word" if self.prev_invalid_start else "without_start_word"})
                res.event("%s_rejected_candidates" % n)
        self.prev_invalid_start = False

    def finish(self):
        self.close_until(len(self.cands))


def build_partner_stream(rng, res):
    """Link-partner word stream for the stand-alone detector: list of (valid, data, ctrl)."""
    words = []

    def cmdword(cmd, sub, rsvd=0):
        w = L.link_command_word(cmd, sub, rsvd)
        return w | (w << 16)

    def garbage(style, avoid=None):
        if style == "random":
            return (rng.getrandbits(32), rng.choice([0, 0, 0, rng.getrandbits(4)]))
        if style == "hold" and words:
            return words[-1][1], words[-1][2]
        if style == "start":
            return L.LCSTART
        if style == "command":
            while True:
                c, s = rng.randrange(16), rng.randrange(16)
                if (c, s) != avoid:
                    return (cmdword(c, s), 0)
        return (0, 0)

    def gap(n, style, avoid=None):
        for _ in range(n):
            d, c = garbage(style, avoid)
            words.append((0, d, c))

    def start():
        words.append((1,) + L.LCSTART)

    def filler():
        r = rng.random()
        if r < 0.45:
            return
        k = rng.choice([1, 1, 2, 3])
        for _ in range(k):
            kind = rng.choice(["idle", "invalid", "data", "hpstart", "ts", "invalid_hold"])
            if kind == "idle":
                words.append((1, 0, 0))
            elif kind == "invalid":
                words.append((0, rng.getrandbits(32), rng.getrandbits(4)))
            elif kind == "invalid_hold":
                gap(1, "hold")
            elif kind == "data":
                words.append((1, rng.getrandbits(32), 0))
            elif kind == "hpstart":
                words.append((1,) + L.HPSTART)
            else:
                words.append((1,) + L.pack_word([L.K(L.COM), L.D(0), L.D(0x4A), L.D(0x4A)]))

    items = []
    # every value once, well-formed
    values = [(c, s) for c in range(16) for s in range(16)]
    rng.shuffle(values)
    for (c, s) in values:
        items.append(("good", c, s))
    bases = [values[i] for i in range(2)]
    for (c, s) in bases:
        for bit in range(16):
            items.append(("flip0", c, s, bit))
            items.append(("flip1", c, s, bit))
    for (c, s) in bases:
        for bit in range(16):
            items.append(("flipboth", c, s, bit))
    c, s = values[2]
    for pat in range(1, 16):
        items.append(("ctrl", c, s, pat))
    for _ in range(10):
        c, s = rng.choice(values)
        items.append(("randword", c, s))
        items.append(("othercrc", c, s))
        items.append(("nostart", c, s, rng.choice(["idle", "data", "invalid_start", "far_start"])))
    for _ in range(8):
        c, s = rng.choice(values)
        items.append(("nostart", c, s, "start_bytes_as_data"))      # FE FE FE F7 with all ctrl flags clear (payload data)
        items.append(("nostart", c, s, "start_two_ctrl_clear"))     # right bytes, two lanes not flagged as K-symbols
        items.append(("nostart", c, s, "start_two_values_wrong"))   # all four K flags, two other K-symbols
    for _ in range(6):
        c, s = rng.choice(values)
        items.append(("start_idle", c, s))
        items.append(("nearmiss", c, s))
        items.append(("gap_lookalike_cmd", c, s))
        items.append(("gap_lookalike_start", c, s))
        items.append(("longgap", c, s))
    rng.shuffle(items)
    seen_good = set()
    prev_kind = None
    prev_back_to_back = False
    for it in items:
        kind, c, s = it[0], it[1], it[2]
        nfill = len(words)
        if rng.random() < 0.5:
            filler()
        back_to_back = (len(words) == nfill)
        good_word = cmdword(c, s)
        if kind == "good":
            rsvd = 0
            if rng.random() < 0.12:
                rsvd = rng.randrange(1, 8)
                res.bin("det_reserved_nonzero_good")
            start()
            g = rng.choice([0, 0, 0, 1, 1, 2, 3, 5])
            if g:
                gap(g, rng.choice(["random", "hold", "zero"]))
                res.bin("det_gap_inside_command")
            words.append((1, cmdword(c, s, rsvd), 0))
            seen_good.add((c, s))
            if back_to_back and prev_kind is not None:
                res.bin("det_good_back_to_back" if prev_kind == "good" else "det_rejected_then_good_back_to_back")
        elif kind in ("flip0", "flip1", "flipboth"):
            bit = it[3]
            mask = {"flip0": 1 << bit, "flip1": 1 << (16 + bit), "flipboth": (1 << bit) | (1 << (16 + bit))}[kind]
            start()
            if rng.random() < 0.2:
                gap(1, "random")
            words.append((1, good_word ^ mask, 0))
            res.bin({"flip0": "det_flip_copy0", "flip1": "det_flip_copy1", "flipboth": "det_flip_both"}[kind])
        elif kind == "ctrl":
            start()
            words.append((1, good_word, it[3]))
            res.bin("det_ctrl_all_patterns")
            if it[3] in (1, 2, 4, 8):
                res.bin("det_ctrl_each_lane")
        elif kind == "randword":
            while True:
                w = rng.getrandbits(16)
                if L.crc5(w & 0x7FF) != (w >> 11):
                    break
            start()
            words.append((1, w | (w << 16), 0))
            res.bin("det_wrong_crc_random")
        elif kind == "othercrc":
            c2, s2 = rng.randrange(16), rng.randrange(16)
            if (c2, s2) == (c, s):
                c2 ^= 1
            w = (L.link_command_word(c, s) & 0x7FF) | (L.link_command_word(c2, s2) & 0xF800)
            start()
            words.append((1, w | (w << 16), 0))
            if L.crc5(w & 0x7FF) != (w >> 11):
                res.bin("det_crc_of_other_value")
        elif kind == "nostart":
            how = it[3]
            if how == "idle":
                words.append((1, 0, 0))
                res.bin("det_no_start_idle")
            elif how == "data":
                words.append((1, rng.getrandbits(32), 0))
                res.bin("det_no_start_idle")
            elif how == "invalid_start":
                words.append((1, 0, 0))
                words.append((0,) + L.LCSTART)
                res.bin("det_no_start_invalid_start")
            elif how == "start_bytes_as_data":
                words.append((1, L.LCSTART[0], 0))
                res.bin("det_start_bytes_without_ctrl")
            elif how == "start_two_ctrl_clear":
                i, j = rng.sample(range(4), 2)
                words.append((1, L.LCSTART[0], 0xF & ~((1 << i) | (1 << j))))
                res.bin("det_start_two_ctrl_flags_clear")
            elif how == "start_two_values_wrong":
                syms = L.unpack_word(*L.LCSTART)
                i, j = rng.sample(range(4), 2)
                syms[i] = L.K(rng.choice([L.SHP, L.END, L.SDP, L.COM]))
                syms[j] = L.K(rng.choice([L.SHP, L.END, L.SDP, L.COM]))
                words.append((1,) + L.pack_word(syms))
                res.bin("det_start_two_symbols_other_k")
            else:
                # two symbols wrong: never a start word
                syms = L.unpack_word(*L.LCSTART)
                i, j = rng.sample(range(4), 2)
                syms[i] = rng.choice([L.K(L.SHP), L.K(L.END), L.D(L.SLC), L.D(0)])
                syms[j] = rng.choice([L.K(L.SDP), L.K(L.COM), L.D(L.EPF), L.D(0xFF)])
                words.append((1,) + L.pack_word(syms))
                res.bin("det_no_start_idle")
            words.append((1, good_word, 0))
        elif kind == "start_idle":
            start()
            words.append((1, 0, 0))
            words.append((1, good_word, 0))
            res.bin("det_start_idle_word")
        elif kind == "nearmiss":
            syms = L.unpack_word(*L.LCSTART)
            i = rng.randrange(4)
            syms[i] = rng.choice([L.K(L.SHP), L.K(L.END), L.D(syms[i][0]), L.K(L.SUB)])
            words.append((1,) + L.pack_word(syms))
            words.append((1, good_word, 0))
            res.bin("det_near_miss_start")
            res.unjudged += 1
        elif kind == "gap_lookalike_cmd":
            start()
            gap(rng.choice([1, 1, 2]), "command", avoid=(c, s))
            words.append((1, good_word, 0))
            seen_good.add((c, s))
            res.bin("det_gap_lookalike_command")
        elif kind == "gap_lookalike_start":
            start()
            gap(rng.choice([1, 2]), "start")
            words.append((1, good_word, 0))
            res.bin("det_gap_lookalike_start")
        elif kind == "longgap":
            start()
            gap(rng.randint(6, 12), rng.choice(["random", "hold", "command"]), avoid=(c, s))
            words.append((1, good_word, 0))
            res.bin("det_long_gap")
        prev_kind = "good" if kind in ("good", "gap_lookalike_cmd", "gap_lookalike_start", "longgap") else "bad"
    for _ in range(4):
        words.append((1, 0, 0))
    if len(seen_good) == 256:
        res.bin("det_all_256_values")
    return words


def make_ready(rng, profile):
    kind = profile[0]
    if kind == "always":
        while True:
            yield 1
    elif kind == "random":
        p = profile[1]
        while True:
            yield 1 if rng.random() < p else 0
    elif kind == "pulse":
        k = profile[1]
        i = rng.randrange(k)
        while True:
            i += 1
            yield 1 if i % k == 0 else 0
    else:   # bursty
        while True:
            for _ in range(rng.randint(1, profile[2])):
                yield 1
            for _ in range(rng.randint(1, profile[1])):
                yield 0


def run_case(rng, tier, res):
    from amaranth import Module, Elaboratable
    from luna.gateware.usb.usb3.link.command import LinkCommandGenerator, LinkCommandDetector

    L.selftest()

    class Harness(Elaboratable):
        def __init__(self):
            self.gen = LinkCommandGenerator()
            self.loop = LinkCommandDetector()
            self.det = LinkCommandDetector()

        def elaborate(self, platform):
            m = Module()
            m.submodules.gen = self.gen
            m.submodules.loop = self.loop
            m.submodules.det = self.det
            m.d.comb += [
                self.loop.sink.valid.eq(self.gen.source.valid & self.gen.source.ready),
                self.loop.sink.data.eq(self.gen.source.data),
                self.loop.sink.ctrl.eq(self.gen.source.ctrl),
            ]
            return m

    h = Harness()
    gen, loop, det = h.gen, h.loop, h.det
    b = Bench(h, domain="ss", freq=125e6, max_cycles=60000)
    gsig = [gen.generate, gen.command, gen.subtype, gen.done, gen.source.valid, gen.source.ready, gen.source.data, gen.source.ctrl]
    b.watch(*gsig)
    loop_mon = DetectorMonitor(res, "loop", loop, b)
    det_mon = DetectorMonitor(res, "det", det, b)

    profile = rng.choice([("always",), ("random", 0.5), ("random", 0.8), ("random", 0.25), ("pulse", rng.randint(2, 5)),
                          ("bursty", 4, 6), ("bursty", 8, 2)])
    # eight random commands with all their subtypes: over a run every one of the 256 values is requested many times
    gen_cmds = rng.sample(range(16), 8)
    gen_values = [(c, s) for c in gen_cmds for s in range(16)]
    rng.shuffle(gen_values)
    plan = []
    for (c, s) in gen_values:
        plan.append({"cmd": c, "sub": s, "style": rng.choice(["strobe", "level"]),
                     "idle": rng.choice([0, 0, 0, 1, 2, rng.randint(3, 8)])})
    stream = build_partner_stream(rng, res)
    res.desc = {"ready_profile": list(profile), "gen_first": [(p["cmd"], p["sub"], p["style"], p["idle"]) for p in plan[:6]],
                "det_first_words": [(v, "%08x" % d, c) for (v, d, c) in stream[:12]], "det_words": len(stream)}
    res.sig(profile, [(p["cmd"], p["sub"], p["style"], p["idle"]) for p in plan], stream)

    # ------------------------------------------------------------------ generator reference state (monitor side)
    G = {"idle": True, "expect": [], "accepted": [], "cur": None, "done_seen": 0, "stuck": False,
         "stall_start": False, "stall_cmd": False}

    def gen_monitor(b):
        generate, cmd, sub, done, valid, ready, data, ctrl = (b.get(s) for s in gsig)
        t = b.cycle
        was_idle = G["idle"]
        if valid and not ready and G["cur"] is not None:
            if len(G["expect"]) == 2:
                G["cur"]["stall_start"] = True
            elif len(G["expect"]) == 1:
                G["cur"]["stall_cmd"] = True
        if valid and ready:
            res.event("gen_words_transferred")
            if not G["expect"]:
                res.violation("gen_unexpected_word", "cycle %d: word %#010x ctrl=%x transferred but no command is being sent" % (t, data, ctrl))
            else:
                (wd, wc), what = G["expect"].pop(0)
                cur = G["cur"]
                if (data, ctrl) != (wd, wc):
                    ctx = "cycle %d command=%d subtype=%d: %s word is %#010x ctrl=%x, expected %#010x ctrl=%x" % (
                        t, cur["cmd"], cur["sub"], what, data, ctrl, wd, wc)
                    if what == "start":
                        mech = "gen_start_word_wrong"
                    elif ctrl != 0:
                        mech = "gen_command_word_ctrl_set"
                    elif (data & 0xFFFF) != (data >> 16):
                        mech = "gen_command_word_copies_differ"
                    elif (data & 0x7FF) == (wd & 0x7FF):
                        mech = "gen_command_word_crc5_wrong"
                    elif (data & 0x70):
                        mech = "gen_command_word_reserved_nonzero"
                    else:
                        mech = "gen_command_word_fields_wrong"
                        if cur["scrambled"]:
                            mech = "gen_command_not_latched_at_request"
                    res.violation(mech, ctx)
                if what == "command":
                    cur["t_word"] = t
                    if cur["stall_start"]:
                        res.bin("gen_stall_on_start_word")
                    if cur["stall_cmd"]:
                        res.bin("gen_stall_on_command_word")
                    if not (cur["stall_start"] or cur["stall_cmd"]):
                        res.bin("gen_no_stall")
        if done:
            res.event("gen_done_strobes")
            cur = G["cur"]
            if cur is None or cur.get("done"):
                res.violation("gen_done_without_command", "cycle %d: done raised while no command is in flight" % t)
            else:
                if G["expect"]:
                    res.violation("gen_done_before_command_word", "cycle %d: done raised with %d words of command %d/%d still to be sent" % (
                        t, len(G["expect"]), cur["cmd"], cur["sub"]))
                cur["done"] = True
                G["idle"] = True
        if generate and was_idle:
            # request accepted at this edge (the generator was idle during the cycle that just ended)
            res.event("gen_commands_requested")
            G["idle"] = False
            G["cur"] = {"cmd": cmd, "sub": sub, "t_req": t, "stall_start": False, "stall_cmd": False, "scrambled": False}
            G["accepted"].append(G["cur"])
            ws = L.link_command_words(cmd, sub)
            G["expect"] = [(ws[0], "start"), (ws[1], "command")]

    def gen_driver():
        yield
        prev_level = False
        for i, p in enumerate(plan):
            for _ in range(p["idle"]):
                b.set(gen.generate, 0)
                if rng.random() < 0.5:
                    b.set(gen.command, rng.randrange(16)); b.set(gen.subtype, rng.randrange(16))
                yield
            if p["idle"] == 0 and i:
                res.bin("gen_back_to_back")
            b.set(gen.command, p["cmd"]); b.set(gen.subtype, p["sub"]); b.set(gen.generate, 1)
            yield
            if p["style"] == "strobe":
                b.set(gen.generate, 0)
                res.bin("gen_strobe_inputs_scrambled")
            else:
                res.bin("gen_level_request")
            waited = 0
            while True:
                # the request was sampled at the edge that just passed; from now on the inputs may change (strobe style)
                if p["style"] == "strobe":
                    c2, s2 = rng.randrange(16), rng.randrange(16)
                    b.set(gen.command, c2); b.set(gen.subtype, s2)
                    if G["cur"] is not None and (c2, s2) != (p["cmd"], p["sub"]):
                        G["cur"]["scrambled"] = True
                if b.get(gen.done):
                    break
                waited += 1
                if waited > BOUND_DONE:
                    res.violation("gen_command_never_completes", "command %d/%d requested, no done within %d cycles (ready profile %r)" % (
                        p["cmd"], p["sub"], BOUND_DONE, profile))
                    G["stuck"] = True
                    return
                yield
            # `done` sampled: the generator is idle in the cycle that starts now
        b.set(gen.generate, 0)
        for _ in range(6):
            yield

    def ready_driver():
        g = make_ready(rng, profile)
        while True:
            b.set(gen.source.ready, next(g))
            yield

    def det_driver():
        for (v, d, c) in stream:
            b.set(det.sink.valid, v); b.set(det.sink.data, d); b.set(det.sink.ctrl, c)
            yield
        b.set(det.sink.valid, 0)
        for _ in range(4):
            yield

    b.add_monitor(gen_monitor)
    b.add_monitor(loop_mon)
    b.add_monitor(det_mon)
    b.add_driver(gen_driver(), main=True)
    b.add_driver(det_driver(), main=True)
    b.add_driver(ready_driver(), main=False)
    b.run()
    res.cycles = b.cycle
    loop_mon.finish()
    det_mon.finish()
    if b.hit_max_cycles:
        res.violation("case_did_not_finish", "simulation hit max_cycles")
    # ---- end-of-case judgements
    if G["expect"] and not G["stuck"]:
        res.violation("gen_word_missing", "end of case: %d words of the last command never transferred" % len(G["expect"]))
    if not G["stuck"]:
        if len(G["accepted"]) != len(plan):
            res.violation("gen_request_ignored", "%d requests made while idle, %d accepted by the reference bookkeeping" % (len(plan), len(G["accepted"])))
        else:
            for p, a in zip(plan, G["accepted"]):
                if (p["cmd"], p["sub"]) != (a["cmd"], a["sub"]):
                    res.violation("harness_request_mismatch", "planned %r sampled %r" % (p, a))
                    break
        want = [(a["cmd"], a["sub"]) for a in G["accepted"] if a.get("t_word")]
        if loop_mon.reported != want:
            # the per-candidate judgement above names the mechanism when the wire was right; this catches the rest
            if not res.violations:
                res.violation("loop_sequence_mismatch", "loop detector reported %d commands, %d were sent; first difference at %d" % (
                    len(loop_mon.reported), len(want), next((i for i, (x, y) in enumerate(zip(loop_mon.reported, want)) if x != y), min(len(want), len(loop_mon.reported)))))
    for cand in loop_mon.cands:
        if cand["gap"]:
            res.bin("loop_gap_inside_command")
    if loop_mon.stalled_start:
        res.bin("loop_gap_before_command")
    if not G["stuck"] and not res.violations:
        for c in gen_cmds:
            res.bin("gen_command_%d_all_subtypes" % c)
    rejected = res.events.get("det_rejected_candidates", 0)
    res.nontrivial = bool(res.bins.get("gen_stall_on_start_word") and res.bins.get("gen_stall_on_command_word")
                          and res.bins.get("det_gap_inside_command") and rejected >= 100)
