"""C30 -- every CRC implementation equals its standard (bit-serial) definition.

DUTs (real luna code, elaborated per case; one family per case):
  crc5        the two CRC5 equation builders USBTokenDetector._generate_crc_for_token and
              usb3.link.crc.compute_usb_crc5 evaluated over ALL 2^11 inputs in every case (thin comb lanes), plus the
              real USBTokenDetector receiving tokens whose CRC5 field is right / wrong in one bit / random
              (accepted exactly when the field is right, reported address / endpoint exact).
  usb2_crc16  USBDataPacketCRC._generate_next_crc (byte step) in a comb lane + the real USBDataPacketCRC module with two
              DataCRCInterfaces (rx and tx byte streams, restarts from either interface).
  usb3_crc16  HeaderPacketCRC._generate_next_crc (word step) in a comb lane + the real HeaderPacketCRC module.
  usb3_crc32  the real DataPacketPayloadCRC module only (crc, next_crc_3B/2B/1B outputs; word steps followed by a
              1/2/3-byte trailing step).  Its four equation sets are decided through the module: the register is put at
              any chosen CRC value S by "clear, one word W(S)" (W computed by running the reference backwards), then data
              D is presented (next_crc_* are combinational in S and D) and one 4/3/2/1-byte step is taken.  No lanes:
              pysim needs seconds to compile each copy of the CRC-32 equations.
Lanes (crc16 families): `out_next = output_stage(builder(input_stage(out_cur), data))` where output_stage(x) = ~x[::-1] is the
  transformation every one of these modules applies between its register and its `crc` port, so a lane maps
  "CRC value after a prefix" x "next data" -> "CRC value after prefix + data", which is what the specification defines.
Workload (function level): all-zero, all-ones, one-hot and all-but-one bases of state and data, pairs differing in one
  bit, random pairs; USB2 byte step additionally a complete 1/16 slice of the 2^24 (state, byte) space per case in the
  thorough tier (slice = top 4 state bits; a bin per slice, all 16 required: 280 draws expected, P(miss) ~ 2e-7) and 256 random
  pairs of every slice per case in the quick tier (there the slice bins mean "sampled").
Workload (module level): random sequences from reset and from restarts: restart in the middle of a packet, restart
  together with a data byte, back-to-back bytes / bytes with gaps, rx and tx sources interleaved, long all-zero and
  all-ones runs, messages that differ in one bit, every trailing length after 0..n words.
Oracle: bit-serial CRCs written from USB 2.0 8.3.5 and USB 3.2 7.2.1.1.3 / 7.2.1.2.1 / 7.2.2.1 (polynomial, preset to ones,
  LSB-first data, complemented remainder sent MSB first) in this file; cross-checked at import against rv.ref.crc
  (published / recorded vectors); a failing cross-check aborts the case (=> inconclusive, never 'held').
Module outputs are compared every cycle under the two hypotheses "crc port follows the register combinationally"
  and "one more output register"; one hypothesis must explain the whole case.
Judged priority: clear together with advance_* on the USB3 CRCs restarts the CRC (documented meaning of `clear`; it
  happens in luna's link transmitter, which holds clear while idle) -- generated in 40 % of the restarts.
Not judged: cycles after contradictory controls (rx_valid together with tx_valid -- impossible on a half-duplex bus --
  and two advance_* strobes at once): generated now and then, comparison suspended until the next restart.  Acceptance of whole data / header packets by
  the receivers that use the CRC-16 / CRC-32 modules is decided by C02 / C37 / C40; here only the token detector's use of
  the CRC5 builder is exercised in context.
Deviations from DESIGN section 7: random volume per run is ~5e5 step evaluations instead of 1 M (pysim needs
  seconds just to compile the CRC-32 equations; the equations are XOR networks, for which the bases decide every tap);
  the CRC-32 equation sets are reached through the real module (state set by a computed word) instead of lanes;
  2^24 enumeration of the USB2 byte step is split into 16 slices drawn at random per case (thorough tier: every slice
  is required to be hit).  `exhaustive` is claimed only for the two CRC5 tables (see events crc5_*_inputs).
"""
from rv.sim import Bench
from rv.ref import crc as R
from rv.ref import usb2 as U

PROPERTY = "C30"
CASES = {"quick": 128, "thorough": 800}
RULE = ("case = one CRC family (crc5 20% / usb2_crc16 35% / usb3_crc16 25% / usb3_crc32 20%): function lanes (crc32: the "
        "module with its register steered to chosen values) driven with zero / ones / one-hot / all-but-one bases of state "
        "and data, one-bit-apart pairs and random pairs (crc5: all 2^11 inputs; usb2 crc16: 256 random pairs of each of the "
        "16 state slices, thorough: one complete 2^20 slice), and the real module driven with a 1500-4000 cycle random "
        "control/data sequence; every lane output and every module output of every cycle compared with the bit-serial "
        "reference; non-trivial = bases complete and >=3 restarts; distinct = hash of all stimulus")
REQUIRED_BINS = (["crc5_usb2_all_inputs", "crc5_usb3_all_inputs", "token_good_crc", "token_bad_crc_one_bit", "token_bad_crc_random",
                  "usb2_crc16_basis_done", "usb2_crc16_restart_mid_packet", "usb2_crc16_restart_with_byte", "usb2_crc16_tx_source",
                  "usb2_crc16_rx_source", "usb2_crc16_back_to_back", "usb2_crc16_gaps", "usb2_crc16_long_run",
                  "usb2_crc16_from_reset", "usb3_crc16_from_reset", "usb3_crc32_from_reset",
                  "usb3_crc16_clear_with_advance", "usb3_crc32_clear_with_advance", "usb2_crc16_rx_tx_together_unjudged",
                  "usb2_crc16_interfaces_1", "usb2_crc16_interfaces_2", "usb2_crc16_interfaces_3",
                  "usb3_crc16_basis_done", "usb3_crc16_restart_mid_packet", "usb3_crc16_three_words", "usb3_crc16_long_run",
                  "usb3_crc32_basis_done", "usb3_crc32_trailing_1", "usb3_crc32_trailing_2", "usb3_crc32_trailing_3",
                  "usb3_crc32_trailing_after_0_words", "usb3_crc32_restart_mid_packet", "usb3_crc32_long_run"]
                 + ["usb2_crc16_slice_%d" % i for i in range(16)])
REQUIRED_EVENTS = ["crc5_usb2_inputs", "crc5_usb3_inputs", "tokens_accepted", "tokens_rejected",
                   "usb2_crc16_fn_compared", "usb2_crc16_module_compared", "usb3_crc16_fn_compared", "usb3_crc16_module_compared",
                   "usb3_crc32_basis_probes", "usb3_crc32_4byte_steps", "usb3_crc32_3byte_steps", "usb3_crc32_2byte_steps",
                   "usb3_crc32_1byte_steps", "usb3_crc32_module_compared", "usb3_crc32_next_outputs_compared"]
ASSUMPTIONS = [
    "equation builders take/return the module's register format; register -> CRC value is the module's own output stage ~x[::-1]",
    "a CRC value is laid out as the module's crc port: little-endian bytes = check-field bytes in transmission order",
    "USBDataPacketCRC: a restart wins over a data byte presented in the same cycle (the PID byte is not part of the CRC)",
    "HeaderPacketCRC / DataPacketPayloadCRC: clear together with an advance strobe restarts the CRC ('clears the CRC, "
    "restoring it to its initial value'); the word offered in that cycle belongs to no packet (the link transmitter holds "
    "clear while idle with its data sink connected)",
    "rx_valid together with tx_valid on USBDataPacketCRC cannot occur on a half-duplex bus: generated, not judged",
    "pysim evaluates combinational logic faithfully",
]
EXHAUSTIVE = False
LEVEL_NOTE = ("Exhaustive only for the two CRC5 builders (all 2^11 inputs in every crc5 case) and, in the thorough tier, for "
              "the USB2 CRC16 byte step (all 2^24 (state, byte) pairs when every slice bin is hit); CRC-16/CRC-32 word steps are "
              "decided on bases + random pairs, i.e. exploration. Trusted: pysim, the bit-serial references (cross-checked "
              "against published vectors), the output-stage assumption listed under assumptions.")


# ===================================================================================== bit-serial references

def rev(x, n):
    r = 0
    for i in range(n):
        if (x >> i) & 1:
            r |= 1 << (n - 1 - i)
    return r


def serial_msb(reg, bits, nbits, poly, width):
    """Generic USB CRC generator: data bit XOR register MSB, shift left, XOR polynomial when the result is 1."""
    top = 1 << (width - 1)
    mask = (1 << width) - 1
    for i in range(nbits):
        bit = (bits >> i) & 1                     # LSB first
        fb = bit ^ (1 if reg & top else 0)
        reg = (reg << 1) & mask
        if fb:
            reg ^= poly
    return reg


def crc_value_to_reg(value, width):
    # check field = complemented remainder, MSB of the remainder first on the wire (= bit 0 of the value)
    return rev(~value & ((1 << width) - 1), width)


def reg_to_crc_value(reg, width):
    return rev(~reg & ((1 << width) - 1), width)


def usb2_crc16_next(value, byte):
    return reg_to_crc_value(serial_msb(crc_value_to_reg(value, 16), byte, 8, 0x8005, 16), 16)


def usb3_crc16_next(value, word):
    return reg_to_crc_value(serial_msb(crc_value_to_reg(value, 16), word, 32, 0x100B, 16), 16)


def crc32_next(value, data, nbytes):
    """CRC-32 (G = 0x04C11DB7, preset ones, LSB-first data, complemented remainder sent MSB first).

    `value` is the check field read as a little-endian integer: bit 0 = first transmitted bit = MSB of the complemented
    remainder.  Written in the usual right-shifting form: register bit 0 holds the coefficient of x^31, so the register
    is exactly the complement of `value` and the polynomial appears bit-reversed (0xEDB88320).
    """
    reg = rev(crc_value_to_reg(value, 32), 32)          # == ~value; derived from the layout above, checked in selftest
    for i in range(8 * nbytes):
        bit = (data >> i) & 1
        fb = (reg ^ bit) & 1
        reg >>= 1
        if fb:
            reg ^= rev(0x04C11DB7, 32)
    return reg ^ 0xFFFFFFFF


def crc5_field(value11):
    """CRC5 of 11 bits (LSB first), x^5+x^2+1, preset ones, complemented, first transmitted bit in bit 0 of the result."""
    reg = serial_msb(0x1F, value11, 11, 0x05, 5)
    return reg_to_crc_value(reg, 5)


_selftest_done = []


def selftest(rng):
    if _selftest_done:
        return
    assert R.selftest()
    assert (rev(crc_value_to_reg(0x12345678, 32), 32)) == 0x12345678 ^ 0xFFFFFFFF
    for _ in range(40):
        msg = bytes(rng.randrange(256) for _ in range(rng.randint(0, 20)))
        v = 0                                            # CRC value of the empty message: register all ones
        assert crc_value_to_reg(0, 16) == 0xFFFF
        for b in msg:
            v = usb2_crc16_next(v, b)
        assert v == int.from_bytes(R.usb2_crc16(msg), "little"), "usb2 crc16 reference mismatch"
        words = [rng.getrandbits(32) for _ in range(rng.randint(0, 4))]
        v = 0
        for w in words:
            v = usb3_crc16_next(v, w)
        assert v == R.usb3_crc16(b"".join(w.to_bytes(4, "little") for w in words)), "usb3 crc16 reference mismatch"
        v = 0
        for w in words:
            v = crc32_next(v, w, 4)
        n = rng.randint(0, 3)
        tail = rng.getrandbits(32)
        if n:
            v = crc32_next(v, tail, n)
        raw = b"".join(w.to_bytes(4, "little") for w in words) + tail.to_bytes(4, "little")[:n]
        assert v == R.usb3_crc32(raw), "crc32 reference mismatch"
        x = rng.getrandbits(11)
        assert crc5_field(x) == R.usb2_token_crc5(x & 0x7F, x >> 7) == R.usb3_crc5(x, 11), "crc5 reference mismatch"
    assert crc32_next(0, int.from_bytes(b"1234", "little"), 4) == R.usb3_crc32(b"1234")
    _selftest_done.append(1)


# ===================================================================================== stimulus helpers

def basis_pairs(sw, dw):
    """(state, data) pairs deciding every tap of an XOR network: zero, ones, one-hot and all-but-one in each operand."""
    sm, dm = (1 << sw) - 1, (1 << dw) - 1
    out = [(0, 0), (sm, dm), (sm, 0), (0, dm)]
    for i in range(sw):
        out += [(1 << i, 0), (sm ^ (1 << i), 0), (1 << i, dm), (sm ^ (1 << i), dm)]
    for i in range(dw):
        out += [(0, 1 << i), (0, dm ^ (1 << i)), (sm, 1 << i), (sm, dm ^ (1 << i))]
    return out


def pair_stream(rng, sw, dw, n_random):
    pairs = basis_pairs(sw, dw)
    nb = len(pairs)
    prev = None
    for _ in range(n_random):
        r = rng.random()
        if prev is not None and r < 0.25:
            s, d = prev
            if rng.random() < 0.5:
                s ^= 1 << rng.randrange(sw)
            else:
                d ^= 1 << rng.randrange(dw)
            prev = (s, d)
        elif r < 0.35:
            prev = (rng.getrandbits(sw) & rng.getrandbits(sw) & rng.getrandbits(sw), rng.getrandbits(dw) & rng.getrandbits(dw))  # sparse
        else:
            prev = (rng.getrandbits(sw), rng.getrandbits(dw))
        pairs.append(prev)
    return pairs, nb


class Hyp:
    """Latency hypotheses for a module output: value(t) == model(t - L), L in {0, 1}; one L for the whole case."""

    def __init__(self):
        self.alive = [0, 1]
        self.first = {}
        self.prev = None
        self.dead_info = None

    def check(self, t, observed, model_now, known_now):
        """model_now: expected tuple if combinational; known_now False => cycle unjudged for L=0 (and next cycle for L=1)."""
        cur = (model_now, known_now)
        if self.alive:
            still = []
            for L in self.alive:
                exp, known = cur if L == 0 else (self.prev if self.prev is not None else (None, False))
                if not known or exp == observed:
                    still.append(L)
                else:
                    self.first[L] = {"cycle": t, "observed": observed, "expected": exp, "L": L}
            if not still:
                # report the combinational hypothesis' first contradiction (names the output that is wrong)
                self.dead_info = self.first.get(0, self.first[min(self.alive)])
            self.alive = still
        self.prev = cur


# ===================================================================================== crc5

def case_crc5(rng, tier, res):
    from amaranth import Elaboratable, Module, Signal
    from luna.gateware.interface.utmi import UTMIInterface
    from luna.gateware.usb.usb2.packet import USBTokenDetector
    from luna.gateware.usb.usb3.link.crc import compute_usb_crc5

    utmi = UTMIInterface()
    detector = USBTokenDetector(utmi=utmi, filter_by_address=False)

    class Lane(Elaboratable):
        def __init__(self, fn):
            self.i = Signal(11)
            self.o = Signal(5)
            self.fn = fn

        def elaborate(self, platform):
            m = Module()
            m.d.comb += self.o.eq(self.fn(self.i))
            return m

    class Wrap(Elaboratable):
        def __init__(self):
            self.l2 = Lane(USBTokenDetector._generate_crc_for_token)
            self.l3 = Lane(compute_usb_crc5)

        def elaborate(self, platform):
            m = Module()
            m.submodules.l2 = self.l2
            m.submodules.l3 = self.l3
            m.submodules.detector = detector
            return m

    dut = Wrap()
    b = Bench(dut, domain="usb", freq=60e6, max_cycles=20000)
    ifc = detector.interface
    b.watch(dut.l2.i, dut.l2.o, dut.l3.i, dut.l3.o, utmi.rx_active, utmi.rx_valid, utmi.rx_data,
            ifc.new_token, ifc.address, ifc.endpoint, ifc.pid, detector.address)
    order = list(range(2048))
    rng.shuffle(order)
    res.desc = {"kind": "crc5", "first_inputs": order[:8], "tokens": []}
    res.sig("crc5", order[:64])
    seen = {"l2": set(), "l3": set(), "strobes": []}

    def monitor(b):
        for name, lane, ev in (("l2", dut.l2, "crc5_usb2_inputs"), ("l3", dut.l3, "crc5_usb3_inputs")):
            v, o = b.get(lane.i), b.get(lane.o)
            exp = crc5_field(v)
            res.event(ev)
            seen[name].add(v)
            if o != exp:
                which = "usb2_token" if name == "l2" else "usb3_link"
                res.violation("crc5_%s_wrong" % which, "input=%#05x (bits 0..10 as transmitted) crc=%#04x expected=%#04x" % (v, o, exp))
        if b.get(ifc.new_token):
            seen["strobes"].append((b.cycle, b.get(ifc.pid), b.get(ifc.address), b.get(ifc.endpoint)))

    def lane_driver():
        # the two lanes walk through all 2^11 inputs in different orders
        for k in range(2048):
            b.set(dut.l2.i, order[k])
            b.set(dut.l3.i, order[2047 - k])
            yield
        yield

    def token_driver():
        yield
        ntok = 0
        while len(seen["l2"]) < 2048 or ntok < 60:
            ntok += 1
            v = rng.getrandbits(11)
            addr, endp = v & 0x7F, v >> 7
            pid = rng.choice([U.IN, U.OUT, U.SETUP])
            good = U.token(pid, addr, endp)
            r = rng.random()
            if r < 0.4:
                kind, pkt = "good", good
                res.bin("token_good_crc")
            elif r < 0.7:
                kind = "bad1"
                pkt = bytes([good[0], good[1], good[2] ^ (1 << rng.randrange(3, 8))])
                res.bin("token_bad_crc_one_bit")
            else:
                kind = "badr"
                wrong = rng.choice([c for c in range(32) if c != good[2] >> 3])
                pkt = bytes([good[0], good[1], (good[2] & 7) | (wrong << 3)])
                res.bin("token_bad_crc_random")
            # the reference decides what a correct field is (not the way the packet was built)
            ok = crc5_field(pkt[1] | ((pkt[2] & 7) << 8)) == pkt[2] >> 3
            assert ok == (kind == "good")
            n0 = len(seen["strobes"])
            b.set(utmi.rx_active, 1)
            yield
            for byte in pkt:
                for _ in range(rng.choice([0, 0, 0, 1, 3])):
                    b.set(utmi.rx_valid, 0)
                    yield
                b.set(utmi.rx_valid, 1)
                b.set(utmi.rx_data, byte)
                yield
            b.set(utmi.rx_valid, 0)
            b.set(utmi.rx_active, 0)
            for _ in range(4):
                yield
            got = seen["strobes"][n0:]
            if len(res.desc["tokens"]) < 4:
                res.desc["tokens"].append({"pkt": pkt.hex(), "kind": kind})
            res.sig(pkt)
            if ok:
                res.event("tokens_accepted")
                if len(got) != 1:
                    res.violation("token_with_correct_crc5_not_accepted", "token %s: %d new_token strobes" % (pkt.hex(), len(got)))
                elif got[0][1:] != (pid, addr, endp):
                    res.violation("token_fields_wrong", "token %s reported %s expected %s" % (pkt.hex(), got[0][1:], (pid, addr, endp)))
            else:
                res.event("tokens_rejected")
                if got:
                    res.violation("token_with_wrong_crc5_accepted", "token %s (field %#04x, correct %#04x) accepted" % (
                        pkt.hex(), pkt[2] >> 3, good[2] >> 3))

    b.add_monitor(monitor)
    b.add_driver(lane_driver(), main=False)
    b.add_driver(token_driver(), main=True)
    b.run()
    res.cycles = b.cycle
    if len(seen["l2"]) == 2048:
        res.bin("crc5_usb2_all_inputs")
    if len(seen["l3"]) == 2048:
        res.bin("crc5_usb3_all_inputs")
    res.nontrivial = len(seen["l2"]) == 2048 and len(seen["l3"]) == 2048


# ===================================================================================== generic lane

def make_lane(fn, sw, dw):
    from amaranth import Elaboratable, Module, Signal

    class Lane(Elaboratable):
        """CRC value after a prefix x next data -> CRC value after prefix + data, through the real equation builder."""

        def __init__(self):
            self.s = Signal(sw)
            self.d = Signal(dw)
            self.o = Signal(sw)

        def elaborate(self, platform):
            m = Module()
            reg = Signal(sw)
            nxt = Signal(sw)
            m.d.comb += [
                reg.eq((~self.s)[::-1]),                 # inverse of the module's output stage
                nxt.eq(fn(reg, self.d)),
                self.o.eq(~nxt[::-1]),                   # the module's output stage
            ]
            return m
    return Lane()


def drive_lane(b, lane, pairs):
    for s, d in pairs:
        b.set(lane.s, s)
        b.set(lane.d, d)
        yield
    yield


# ===================================================================================== usb2 crc16

_REV16 = []


def usb2_crc16_next_fast(value, byte):
    """Same bit-serial procedure as usb2_crc16_next, with the two bit reversals done by table."""
    if not _REV16:
        _REV16.extend(rev(i, 16) for i in range(1 << 16))
    reg = _REV16[~value & 0xFFFF]
    for i in range(8):
        fb = ((byte >> i) ^ (reg >> 15)) & 1
        reg = (reg << 1) & 0xFFFF
        if fb:
            reg ^= 0x8005
    return _REV16[~reg & 0xFFFF]


def enumerate_usb2_lane(lane, space, res):
    """Evaluate the byte-step lane for every (crc value, byte) of `space` (pure combinational: no clock needed)."""
    import warnings
    from amaranth.sim import Simulator
    sim = Simulator(lane)
    count = [0]

    async def tb(ctx):
        s_sig, d_sig, o_sig = lane.s, lane.d, lane.o
        nxt = usb2_crc16_next_fast
        bad = 0
        for s_, d_ in space:
            ctx.set(s_sig, s_)
            ctx.set(d_sig, d_)
            o = ctx.get(o_sig)
            if o != nxt(s_, d_):
                if usb2_crc16_next(s_, d_) != nxt(s_, d_):
                    raise AssertionError("reference self-check failed")
                bad += 1
                res.violation("usb2_crc16_byte_step_wrong", "crc_before=%#06x byte=%#04x crc_after=%#06x expected=%#06x" % (
                    s_, d_, o, nxt(s_, d_)))
                if bad > 20:
                    break
            count[0] += 1
        res.event("usb2_crc16_fn_compared", count[0])

    sim.add_testbench(tb)
    with warnings.catch_warnings():
        warnings.simplefilter("ignore")
        sim.run()
    return count[0]

def case_usb2_crc16(rng, tier, res):
    from amaranth import Elaboratable, Module
    from luna.gateware.usb.usb2.packet import USBDataPacketCRC, DataCRCInterface
    crc = USBDataPacketCRC()
    n_if = rng.choice([1, 2, 3])
    ifs = [DataCRCInterface() for _ in range(n_if)]
    res.bin("usb2_crc16_interfaces_%d" % n_if)
    for i in ifs:
        crc.add_interface(i)
    lane = make_lane(crc._generate_next_crc, 16, 8)

    class Wrap(Elaboratable):
        def elaborate(self, platform):
            m = Module()
            m.submodules.crc = crc
            m.submodules.lane = lane
            return m

    dut = Wrap()
    ncyc = rng.randint(1500, 4000)
    slice_id = rng.randrange(16)
    full_slice = tier == "thorough"
    pairs, nb = pair_stream(rng, 16, 8, 1500)
    b = Bench(dut, domain="usb", freq=60e6, max_cycles=max(ncyc, len(pairs)) + 20)
    sigs = [crc.rx_data, crc.rx_valid, crc.tx_data, crc.tx_valid, lane.s, lane.d, lane.o]
    sigs += [i.start for i in ifs] + [i.crc for i in ifs]
    b.watch(*sigs)
    res.desc = {"kind": "usb2_crc16", "slice": slice_id, "full_slice": full_slice, "ops": []}
    res.sig("usb2_crc16", slice_id, pairs[nb:nb + 64])
    st = {"value": 0, "known": True, "n": 0, "restarts": 0, "lane_n": 0}
    hyp = Hyp()

    def monitor(b):
        # function lane
        if st["lane_n"] < len(pairs) + 1:
            s, d, o = b.get(lane.s), b.get(lane.d), b.get(lane.o)
            exp = usb2_crc16_next(s, d)
            res.event("usb2_crc16_fn_compared")
            st["lane_n"] += 1
            if o != exp:
                res.violation("usb2_crc16_byte_step_wrong", "crc_before=%#06x byte=%#04x crc_after=%#06x expected=%#06x" % (s, d, o, exp))
        # module
        t = b.cycle
        o0 = b.get(ifs[0].crc)
        for i_ in ifs[1:]:
            o1 = b.get(i_.crc)
            if o0 != o1:
                res.violation("usb2_crc16_interfaces_disagree", "cycle %d: %#06x vs %#06x" % (t, o0, o1))
        hyp.check(t, o0, st["value"], st["known"])
        if st["known"]:
            res.event("usb2_crc16_module_compared")
        start = any(b.get(i_.start) for i_ in ifs)
        rxv, txv = b.get(crc.rx_valid), b.get(crc.tx_valid)
        if start:
            st["value"], st["known"], st["n"] = 0, True, 0      # CRC value of the empty message
            st["restarts"] += 1
        elif rxv and txv:
            st["known"] = False
            res.unjudged += 1
        elif rxv:
            st["value"] = usb2_crc16_next(st["value"], b.get(crc.rx_data))
            st["n"] += 1
        elif txv:
            st["value"] = usb2_crc16_next(st["value"], b.get(crc.tx_data))
            st["n"] += 1

    from_reset = [rng.random() < 0.7]

    def module_driver():
        yield
        t = 0
        while t < ncyc:
            # one "packet": restart, then bytes from one source
            src = rng.choice(["rx", "rx", "tx"])
            res.bin("usb2_crc16_%s_source" % src)
            who = rng.randrange(n_if)
            style = rng.choice(["b2b", "gaps", "random"])
            n = rng.choice([0, 1, 2, 3, 8, 9, 64, rng.randint(0, 40), rng.randint(100, 300) if rng.random() < 0.15 else 5])
            fill = rng.choice(["random", "random", "zeros", "ones", "ramp"])
            if n >= 64:
                res.bin("usb2_crc16_long_run")
            # restart, sometimes together with a byte (the PID byte of a packet: excluded from the CRC)
            with_byte = rng.random() < 0.4
            if from_reset[0]:
                # very first packet of the case: no restart at all, the register still holds its reset value
                from_reset[0] = False
                with_byte = False
                res.bin("usb2_crc16_from_reset")
            else:
                b.set(ifs[who].start, 1)
            if with_byte:
                b.set(crc.rx_valid if src == "rx" else crc.tx_valid, 1)
                b.set(crc.rx_data if src == "rx" else crc.tx_data, rng.randrange(256))
                res.bin("usb2_crc16_restart_with_byte")
            yield
            t += 1
            b.set(ifs[who].start, 0)
            b.set(crc.rx_valid, 0)
            b.set(crc.tx_valid, 0)
            if len(res.desc["ops"]) < 4:
                res.desc["ops"].append({"src": src, "n": n, "style": style, "fill": fill, "restart_with_byte": with_byte})
            res.sig(src, who, style, n, fill, with_byte)
            abort_at = rng.randrange(n) if (n > 2 and rng.random() < 0.3) else None
            for k in range(n):
                if abort_at is not None and k == abort_at:
                    res.bin("usb2_crc16_restart_mid_packet")
                    break
                if style == "gaps" or (style == "random" and rng.random() < 0.3):
                    res.bin("usb2_crc16_gaps")
                    for _ in range(rng.choice([1, 1, 2, 4])):
                        b.set(crc.rx_valid, 0)
                        b.set(crc.tx_valid, 0)
                        b.set(crc.rx_data, rng.randrange(256))
                        b.set(crc.tx_data, rng.randrange(256))
                        yield
                        t += 1
                elif k:
                    res.bin("usb2_crc16_back_to_back")
                byte = {"random": rng.randrange(256), "zeros": 0, "ones": 0xFF, "ramp": k & 0xFF}[fill]
                res.sig(byte)
                if src == "rx":
                    b.set(crc.rx_valid, 1)
                    b.set(crc.rx_data, byte)
                    b.set(crc.tx_data, rng.randrange(256))
                    if rng.random() < 0.02:
                        b.set(crc.tx_valid, 1)           # contradictory: unjudged until the next restart
                        res.bin("usb2_crc16_rx_tx_together_unjudged")
                else:
                    b.set(crc.tx_valid, 1)
                    b.set(crc.tx_data, byte)
                    b.set(crc.rx_data, rng.randrange(256))
                yield
                t += 1
                b.set(crc.rx_valid, 0)
                b.set(crc.tx_valid, 0)
            for _ in range(rng.choice([0, 1, 1, 2, 5])):
                yield
                t += 1
        yield
        yield

    b.add_monitor(monitor)
    b.add_driver(module_driver(), main=True)
    b.add_driver(drive_lane(b, lane, pairs), main=True)
    b.run()
    res.cycles = b.cycle
    if hyp.dead_info:
        res.violation("usb2_crc16_module_value_wrong", "USBDataPacketCRC: %s (bytes since restart: see replay)" % hyp.dead_info)
    if st["lane_n"] >= nb:
        res.bin("usb2_crc16_basis_done")
    # (state, byte) space in 16 slices (slice = top 4 bits of the CRC value before the byte), evaluated on a second lane
    # without the clocked bench.  thorough: one complete slice (2^20 pairs) per case; quick: 256 random pairs of every slice.
    if full_slice:
        space = (((slice_id << 12) | s_, d_) for s_ in range(4096) for d_ in range(256))
        done = enumerate_usb2_lane(make_lane(crc._generate_next_crc, 16, 8), space, res)
        if done == 1 << 20:
            res.bin("usb2_crc16_slice_%d" % slice_id)
    else:
        sample = [((i << 12) | rng.getrandbits(12), rng.getrandbits(8)) for i in range(16) for _ in range(256)]
        res.sig(sample[:32])
        done = enumerate_usb2_lane(make_lane(crc._generate_next_crc, 16, 8), sample, res)
        if done == len(sample):
            for i in range(16):
                res.bin("usb2_crc16_slice_%d" % i)
    res.nontrivial = st["lane_n"] >= len(pairs) and st["restarts"] >= 3


# ===================================================================================== usb3 header crc16

def case_usb3_crc16(rng, tier, res):
    from amaranth import Elaboratable, Module
    from luna.gateware.usb.usb3.link.crc import HeaderPacketCRC
    crc = HeaderPacketCRC()
    lane = make_lane(crc._generate_next_crc, 16, 32)

    class Wrap(Elaboratable):
        def elaborate(self, platform):
            m = Module()
            m.submodules.crc = crc
            m.submodules.lane = lane
            return m

    dut = Wrap()
    ncyc = rng.randint(1500, 3000)
    pairs, nb = pair_stream(rng, 16, 32, 2500 if tier == "quick" else 6000)
    b = Bench(dut, domain="ss", freq=125e6, max_cycles=max(ncyc, len(pairs)) + 20)
    b.watch(crc.clear, crc.data_input, crc.advance_crc, crc.crc, lane.s, lane.d, lane.o)
    res.desc = {"kind": "usb3_crc16", "ops": []}
    res.sig("usb3_crc16", pairs[nb:nb + 64])
    st = {"value": 0, "known": True, "restarts": 0, "lane_n": 0}
    hyp = Hyp()

    def monitor(b):
        if st["lane_n"] < len(pairs) + 1:
            s, d, o = b.get(lane.s), b.get(lane.d), b.get(lane.o)
            exp = usb3_crc16_next(s, d)
            res.event("usb3_crc16_fn_compared")
            st["lane_n"] += 1
            if o != exp:
                res.violation("usb3_crc16_word_step_wrong", "crc_before=%#06x word=%#010x crc_after=%#06x expected=%#06x" % (s, d, o, exp))
        hyp.check(b.cycle, b.get(crc.crc), st["value"], st["known"])
        res.event("usb3_crc16_module_compared")
        if b.get(crc.clear):
            st["value"] = 0
            st["restarts"] += 1
        elif b.get(crc.advance_crc):
            st["value"] = usb3_crc16_next(st["value"], b.get(crc.data_input))

    from_reset = [rng.random() < 0.7]

    def module_driver():
        yield
        t = 0
        while t < ncyc:
            n = rng.choice([3, 3, 3, 0, 1, 2, 4, rng.randint(5, 12), rng.randint(50, 150) if rng.random() < 0.2 else 3])
            if n == 3:
                res.bin("usb3_crc16_three_words")
            if n >= 50:
                res.bin("usb3_crc16_long_run")
            fill = rng.choice(["random", "random", "zeros", "ones", "onebit"])
            if from_reset[0]:
                from_reset[0] = False           # first packet straight from reset, no clear
                res.bin("usb3_crc16_from_reset")
            else:
                b.set(crc.clear, 1)
                if rng.random() < 0.4:
                    # clear while a word is being offered (the link transmitter holds clear in IDLE while its data sink
                    # may already be valid): the CRC restarts, the word is not part of the new packet
                    b.set(crc.advance_crc, 1)
                    res.bin("usb3_crc16_clear_with_advance")
            b.set(crc.data_input, rng.getrandbits(32))
            yield
            t += 1
            b.set(crc.clear, 0)
            b.set(crc.advance_crc, 0)
            abort_at = rng.randrange(n) if (n > 1 and rng.random() < 0.3) else None
            if len(res.desc["ops"]) < 4:
                res.desc["ops"].append({"words": n, "fill": fill, "abort_at": abort_at})
            res.sig(n, fill, abort_at)
            for k in range(n):
                if abort_at is not None and k == abort_at:
                    res.bin("usb3_crc16_restart_mid_packet")
                    break
                for _ in range(rng.choice([0, 0, 0, 1, 3])):
                    b.set(crc.advance_crc, 0)
                    b.set(crc.data_input, rng.getrandbits(32))
                    yield
                    t += 1
                w = {"random": rng.getrandbits(32), "zeros": 0, "ones": 0xFFFFFFFF, "onebit": 1 << rng.randrange(32)}[fill]
                res.sig(w)
                b.set(crc.advance_crc, 1)
                b.set(crc.data_input, w)
                yield
                t += 1
                b.set(crc.advance_crc, 0)
            for _ in range(rng.choice([0, 1, 2, 5])):
                b.set(crc.data_input, rng.getrandbits(32))
                yield
                t += 1
        yield
        yield

    b.add_monitor(monitor)
    b.add_driver(module_driver(), main=True)
    b.add_driver(drive_lane(b, lane, pairs), main=True)
    b.run()
    res.cycles = b.cycle
    if hyp.dead_info:
        res.violation("usb3_crc16_module_value_wrong", "HeaderPacketCRC: %s" % hyp.dead_info)
    if st["lane_n"] >= nb:
        res.bin("usb3_crc16_basis_done")
    res.nontrivial = st["lane_n"] >= len(pairs) and st["restarts"] >= 3


# ===================================================================================== usb3 payload crc32

def crc32_word_reaching(value):
    """The 32-bit word which, processed right after a clear, leaves the CRC value `value` (reference-side arithmetic).

    One word step = XOR the word into the (reflected) register, then 32 zero-input shifts; a zero-input shift is undone by
    looking at bit 31 (set exactly when the polynomial was XORed in, because the shifted value has bit 31 clear).
    """
    poly = rev(0x04C11DB7, 32)
    reg = value ^ 0xFFFFFFFF
    for _ in range(32):
        if reg & 0x80000000:
            reg = (((reg ^ poly) << 1) | 1) & 0xFFFFFFFF
        else:
            reg = (reg << 1) & 0xFFFFFFFF
    return reg ^ 0xFFFFFFFF            # register after clear is all ones


def case_usb3_crc32(rng, tier, res):
    from luna.gateware.usb.usb3.link.crc import DataPacketPayloadCRC
    crc = DataPacketPayloadCRC()
    ncyc = rng.randint(2000, 4000) if tier == "quick" else rng.randint(6000, 12000)
    # basis probes: put the register at a chosen CRC value S with one word after a clear, then present data D:
    # next_crc_3B/2B/1B (combinational in S and D) are compared, then one advance (4/3/2/1 bytes) is taken and crc compared
    basis = basis_pairs(32, 32)
    extra = 200 if tier == "quick" else 1500
    for _ in range(extra):
        sv, dv = rng.getrandbits(32), rng.getrandbits(32)
        if rng.random() < 0.3:
            sv, dv = sv & rng.getrandbits(32) & rng.getrandbits(32), dv & rng.getrandbits(32)
        basis.append((sv, dv))
    probes = []
    for i, (sv, dv) in enumerate(basis):
        probes.append((sv, dv, 4))
        probes.append((sv, dv, (3, 2, 1)[i % 3]))
    rng.shuffle(probes)
    for sv in (0, 0xFFFFFFFF, 1, 0x80000000, 0x12345678):
        assert crc32_next(0, crc32_word_reaching(sv), 4) == sv, "crc32 preimage self-check failed"
    b = Bench(crc, domain="ss", freq=125e6, max_cycles=ncyc + 7 * len(probes) + 1000)
    adv = {4: crc.advance_word, 3: crc.advance_3B, 2: crc.advance_2B, 1: crc.advance_1B}
    nxt_out = {3: crc.next_crc_3B, 2: crc.next_crc_2B, 1: crc.next_crc_1B}
    b.watch(crc.clear, crc.data_input, crc.crc, *adv.values(), *nxt_out.values())
    res.desc = {"kind": "usb3_crc32", "ops": [], "probes": len(probes)}
    res.sig("usb3_crc32", probes[:32])
    st = {"value": 0, "known": True, "restarts": 0, "probes_done": 0, "steps": {4: 0, 3: 0, 2: 0, 1: 0}}
    hyp = Hyp()

    def monitor(b):
        din = b.get(crc.data_input)
        model = (st["value"],) + tuple(crc32_next(st["value"], din & ((1 << (8 * k)) - 1), k) for k in (3, 2, 1))
        obs = (b.get(crc.crc),) + tuple(b.get(nxt_out[k]) for k in (3, 2, 1))
        hyp.check(b.cycle, obs, model, st["known"])
        if st["known"]:
            res.event("usb3_crc32_module_compared")
            res.event("usb3_crc32_next_outputs_compared", 3)
        active = [k for k in (4, 3, 2, 1) if b.get(adv[k])]
        if b.get(crc.clear):
            st["value"], st["known"] = 0, True
            st["restarts"] += 1
        elif len(active) > 1:
            st["known"] = False
            res.unjudged += 1
        elif active:
            k = active[0]
            st["value"] = crc32_next(st["value"], din & ((1 << (8 * k)) - 1), k)
            if st["known"]:
                st["steps"][k] += 1
                res.event("usb3_crc32_%dbyte_steps" % k)

    from_reset = [rng.random() < 0.7]

    def probe(sv, dv, k):
        b.set(crc.clear, 1)
        b.set(crc.data_input, rng.getrandbits(32))
        yield
        b.set(crc.clear, 0)
        b.set(crc.advance_word, 1)
        b.set(crc.data_input, crc32_word_reaching(sv))
        yield
        b.set(crc.advance_word, 0)
        b.set(crc.data_input, dv)
        for _ in range(rng.choice([1, 1, 2])):
            yield                                     # register = S, data = D: next_crc_* compared here
        b.set(adv[k], 1)
        yield
        b.set(adv[k], 0)
        b.set(crc.data_input, rng.getrandbits(32))
        yield                                         # crc after the step compared here
        st["probes_done"] += 1
        res.event("usb3_crc32_basis_probes")

    def module_driver():
        yield
        pi = 0
        spent = 0                       # cycles spent on random packets
        while spent < ncyc or pi < len(probes):
            # interleave probes with random packets
            if pi < len(probes) and not from_reset[0] and (spent >= ncyc or rng.random() < 0.5):
                for _ in range(min(rng.randint(1, 12), len(probes) - pi)):
                    yield from probe(*probes[pi])
                    pi += 1
                continue
            c0 = b.cycle
            n = rng.choice([0, 0, 1, 2, 3, 4, 5, rng.randint(6, 20), rng.randint(60, 256) if rng.random() < 0.3 else 2])
            tail = rng.choice([0, 1, 2, 3])
            fill = rng.choice(["random", "random", "zeros", "ones", "onebit"])
            if n >= 60:
                res.bin("usb3_crc32_long_run")
            if from_reset[0]:
                from_reset[0] = False           # first packet straight from reset, no clear
                res.bin("usb3_crc32_from_reset")
            else:
                b.set(crc.clear, 1)
                if rng.random() < 0.4:
                    k_ = rng.choice([4, 4, 3, 2, 1])
                    b.set(adv[k_], 1)               # clear together with an advance strobe: the CRC restarts
                    res.bin("usb3_crc32_clear_with_advance")
            b.set(crc.data_input, rng.getrandbits(32))
            yield
            b.set(crc.clear, 0)
            for a_ in adv.values():
                b.set(a_, 0)
            abort_at = rng.randrange(n) if (n > 1 and rng.random() < 0.25) else None
            if len(res.desc["ops"]) < 4:
                res.desc["ops"].append({"words": n, "tail_bytes": tail, "fill": fill, "abort_at": abort_at})
            res.sig(n, tail, fill, abort_at)
            aborted = False
            for k in range(n):
                if abort_at is not None and k == abort_at:
                    res.bin("usb3_crc32_restart_mid_packet")
                    aborted = True
                    break
                for _ in range(rng.choice([0, 0, 0, 1, 3])):
                    b.set(crc.advance_word, 0)
                    b.set(crc.data_input, rng.getrandbits(32))
                    yield
                w = {"random": rng.getrandbits(32), "zeros": 0, "ones": 0xFFFFFFFF, "onebit": 1 << rng.randrange(32)}[fill]
                res.sig(w)
                b.set(crc.advance_word, 1)
                b.set(crc.data_input, w)
                contradictory = rng.random() < 0.004
                if contradictory:
                    b.set(crc.advance_2B, 1)            # two strobes at once: unjudged until the next clear
                yield
                b.set(crc.advance_word, 0)
                if contradictory:
                    b.set(crc.advance_2B, 0)
            if tail and not aborted:
                for _ in range(rng.choice([0, 0, 1, 2])):
                    b.set(crc.data_input, rng.getrandbits(32))
                    yield
                w = rng.getrandbits(32) if fill != "zeros" else rng.getrandbits(32) & ~((1 << (8 * tail)) - 1)
                res.sig(w)
                b.set(crc.data_input, w)            # bytes above the trailing ones are garbage on purpose
                b.set(adv[tail], 1)
                res.bin("usb3_crc32_trailing_%d" % tail)
                if n == 0:
                    res.bin("usb3_crc32_trailing_after_0_words")
                yield
                b.set(adv[tail], 0)
                # the CRC is read out now; hold for a few cycles with changing data_input (crc must not move)
                for _ in range(rng.choice([1, 2, 4])):
                    b.set(crc.data_input, rng.getrandbits(32))
                    yield
            else:
                for _ in range(rng.choice([0, 1, 2])):
                    b.set(crc.data_input, rng.getrandbits(32))
                    yield
            spent += b.cycle - c0 + 1
        yield
        yield

    b.add_monitor(monitor)
    b.add_driver(module_driver(), main=True)
    b.run()
    res.cycles = b.cycle
    if b.hit_max_cycles:
        res.violation("harness_max_cycles", "crc32 case did not finish")
    if hyp.dead_info:
        d = hyp.dead_info
        names = ("crc", "next_crc_3B", "next_crc_2B", "next_crc_1B")
        bad = [names[i] for i in range(4) if d["observed"][i] != d["expected"][i]]
        res.violation("usb3_crc32_%s_wrong" % bad[0], "DataPacketPayloadCRC: cycle %d observed=%s expected=%s (L=%d)" % (
            d["cycle"], [hex(x) for x in d["observed"]], [hex(x) for x in d["expected"]], d["L"]))
    if st["probes_done"] == len(probes):
        res.bin("usb3_crc32_basis_done")
    res.nontrivial = st["probes_done"] == len(probes) and st["restarts"] >= 3


KINDS = [("crc5", case_crc5, 20), ("usb2_crc16", case_usb2_crc16, 35), ("usb3_crc16", case_usb3_crc16, 25),
         ("usb3_crc32", case_usb3_crc32, 20)]


def run_case(rng, tier, res):
    selftest(rng.__class__(12345))
    r = rng.randrange(100)
    acc = 0
    for name, fn, w in KINDS:
        acc += w
        if r < acc:
            return fn(rng, tier, res)
