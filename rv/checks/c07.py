"""C07 - control transfers follow the setup / data / status stage protocol.

DUT: real `USBDevice(bus=UTMIInterface())` (12 MHz full-speed tables) with the standard control endpoint
(`add_standard_control_endpoint`, random raw descriptor set: device, 1-2 configuration, 2-4 string descriptors,
9..250 bytes, so that multi-packet data stages occur), a real `USBStreamInEndpoint` on endpoint 1 (always has
data), a real `USBStreamOutEndpoint` on endpoint 2 (always ready) and nothing on the other endpoint numbers.

Workload (rv/ref/c07_ctrl.py `Session`): a case is 12-18 episodes; they run as one session on one device, and after a
contradiction the rest of the budget continues on a freshly elaborated device (at most 3 devices per case).  An episode is
0-2 pieces of *junk* (SETUP only, SETUP twice, data stage left after 1..n packets with/without ACK, data stage
without status stage, status OUT token without data packet, status ZLP never ACKed, wrong-direction status,
non-ZLP status data, PING, stray IN/OUT tokens, IN tokens after the last packet of a data stage, OUT-data request, vendor/class/unknown requests,
GET_DESCRIPTOR with wLength 0, bus reset in the middle of a transfer) followed by one complete transfer of a
supported request (GET_DESCRIPTOR with many wLength choices, GET_STATUS, GET_CONFIGURATION, SET_CONFIGURATION,
SET_ADDRESS, CLEAR_FEATURE(ENDPOINT_HALT), and a vendor request 0x51 served by a small correct handler written for this
check and added with `add_request_handler`, in all four combinations direction bit x (wLength == 0 / > 0), so that the
control endpoint's stage selection is judged for each of them: data stage only for direction IN with wLength > 0, IN
status stage with ZLP whenever there is no data stage or the data stage was OUT, the handler's action counted exactly
once per completed no-data request) done the way a real host does it, including: control data packet not
ACKed and fetched again, ACK of the last data packet lost (host goes straight to the status stage), status ZLP
not ACKed and fetched again, host ending the data stage early, and 0-2 foreign transactions at every point
between the packets of the transfer (bulk IN with / without ACK, bulk OUT, tokens to endpoints that do not
exist, PING to other endpoints, IN / OUT / SETUP transactions of *another device* on the same bus including
their ACKs, SOF).
rx byte-gap and tx_ready back-pressure profiles are drawn per case.

Monitors: the UTMI transmit capture of the host model (every packet the device sends) + the wire log of the
host.  Oracle: `RefControl`, an independent stage tracker (USB 2.0 8.5.3): every SETUP is ACKed and starts a
fresh transfer; each data-stage IN is answered with DATA<toggle>(reference bytes at the ACKed offset); status
stage in the opposite direction (OUT ZLP -> ACK, or IN -> DATA1 ZLP when there is no data stage); a non-empty
DATA packet on endpoint 0 only in the data stage of a device-to-host request with wLength > 0 (judged for
every IN token on endpoint 0, junk included); foreign traffic changes none of this.

Also judged (clause "tokens for other endpoints never ... disturb"): an IN/OUT to an endpoint number that does not
exist gets no answer, the bulk IN endpoint's packets are well formed and carry only its 0xA5 bytes, a bulk OUT gets a
handshake - a control endpoint that acts on another endpoint's token shows up there.

Mechanism names: a contradiction is named by its symptom (`setup_not_acked`, `data_stage_in_not_answered`,
`data_stage_wrong_toggle/_length/_data/_packet`, `status_in_not_zlp_data1`, `status_in_not_answered`,
`status_out_not_acked`, `data_sent_outside_in_data_stage`, `token_of_unused_endpoint_answered`,
`foreign_in_transaction_corrupted`, ...) except for four history patterns which have their own names because they were
found as defects of the original tree (findings/C07.md; the last three are repaired in /repo and marked `fixed` in
known_findings.d/C07.json, the first is open); the name is decided from the wire history only:
  in_past_end_wedges_descriptor_handler        - the host sent an IN after the last packet of a GET_DESCRIPTOR data
                                                 stage earlier on this device
  stale_request_state_after_abandoned_transfer - a transfer was left unfinished earlier on this device (cleared by a
                                                 transfer that completes like the reference followed by a bus reset)
  foreign_ack_advances_control_data            - an ACK of another transaction was on the wire while an ep0 data
                                                 packet was not ACKed
  foreign_ack_completes_nodata_request         - an ACK of another transaction was on the wire between the SETUP
                                                 and the status stage of SET_ADDRESS/SET_CONFIGURATION/CLEAR_FEATURE
Consequence: any defect that shows only after an abandoned transfer is reported under the name
`stale_request_state_after_abandoned_transfer` (fatal since that finding is fixed).
After a contradiction nothing more is judged on that device (its state is unknown); the case continues on a new one.
Device configuration per session (both tiers): 30 % use luna's 60 MHz full-speed timing tables (`always_fs=False`,
`full_speed_only` held), endpoint-0 packet size from {64, 8, 16, 32}, and in 30 % the standard handler is built with
`skiplist=[GET_CONFIGURATION]` while the check's own handler claims that request (answer 0x5A): a skiplisted standard
request must fall through.  SETUP transactions to the device's address with endpoint != 0 are part of the foreign
traffic (must get no answer: `setup_for_other_endpoint_answered`; endpoint 0 must not be affected:
`setup_for_other_endpoint_disturbs_ep0`, open finding 5 in findings/C07.md - /repo commit 867ea4d removed the ACK and
the handler reaction but the stage FSM still restarts).

Not judged: content of GET_STATUS (length and PID only); STALL behaviour for unsupported requests (C10); data
content rules at multiples of the packet size (C09: such lengths are not generated); corrupted packets (C02/C06:
not generated - a CRC-damaged short data packet wedges the SETUP decoder, finding C06); everything after
wrong-direction tokens / PING inside a transfer except the "no data outside the data stage" rule;
re-sent status OUT after the device's ACK was lost; timing beyond "answers within 48 cycles".
"""
from rv.sim import Bench
from rv.usb2host import UTMIHost, init_device_signals
from rv.ref import c07_ctrl as C

PROPERTY = "C07"
CASES = {"quick": 320, "thorough": 4800}
RULE = ("case = session of 10-18 episodes on one USBDevice with random descriptors; episode = 0-2 junk pieces "
        "(abandoned / out-of-order host behaviour) + one complete supported control transfer with retries, lost ACKs "
        "and foreign transactions between its packets; non-trivial = >=1 abandoned transfer, >=1 interleaved foreign "
        "transaction and >=1 multi-packet data stage or retry; distinct = hash of all wire-level steps")
REQUIRED_BINS = [
    "xfer_get_descriptor", "xfer_get_status", "xfer_get_configuration", "xfer_set_configuration", "xfer_set_address",
    "xfer_clear_halt", "xfer_vendor_in_data", "xfer_vendor_in_wlength0", "xfer_vendor_out_data", "xfer_vendor_out_wlength0",
    "timing_fs60", "timing_fs12", "ep0_mps_8", "ep0_mps_16", "ep0_mps_32", "ep0_mps_64", "skiplist_get_configuration",
    "skiplist_empty", "setup_other_endpoint_mid_transfer", "setup_other_endpoint_between_transfers", "foreign_own_setup_other_ep",
    "multi_packet_data_stage", "early_status", "last_data_ack_lost_then_status",
    "ctrl_data_unacked_then_retried", "status_zlp_unacked_then_retried",
    "junk_setup_only", "junk_double_setup", "junk_partial_data", "junk_data_no_status", "junk_status_token_only",
    "junk_status_zlp_unacked", "junk_wrong_direction", "junk_ping", "junk_stray_tokens", "junk_out_data_request",
    "junk_reset_mid_transfer", "junk_wrong_status_data", "junk_in_past_end",
    "setup_after_unfinished_data_in", "setup_after_unfinished_status_in", "setup_after_unfinished_status_out",
    "setup_after_unfinished_data_out",
    "interleave_after_setup", "interleave_between_data_packets", "interleave_before_status", "interleave_before_retry",
    "interleave_after_setup_nodata", "interleave_before_status_retry",
    "foreign_bulk_in_ack", "foreign_bulk_in_noack", "foreign_bulk_out", "foreign_noep_in", "foreign_noep_out",
    "foreign_other_dev_in", "foreign_other_dev_out", "foreign_other_dev_setup", "foreign_sof", "foreign_other_ep_ping",
    "foreign_ack_while_ctrl_data_unacked", "foreign_ack_before_nodata_status", "in_token_outside_data_stage",
    "in_token_past_end_of_descriptor",
    "clean_history_transfer", "transfer_after_abandoned",
]
REQUIRED_EVENTS = ["vendor_actions_judged", "out_data_packets_judged", "setups_judged", "ep0_in_tokens_judged", "data_packets_judged", "status_stages_judged",
                   "transfers_judged", "transfers_completed_as_reference", "foreign_transactions",
                   "bulk_in_packets_seen", "device_acks_seen", "sessions"]
ASSUMPTIONS = [
    "host timing: inter-packet gaps 2-8 cycles, host ACK 1-4 cycles after the device packet, device must start answering within 48 cycles",
    "no CRC-damaged packets are generated (C02/C06)",
    "descriptor lengths and min(wLength, length) are never non-zero multiples of 64 when a terminating ZLP would be needed (C09)",
    "after the first contradiction nothing more is judged on that device; the case continues on a freshly elaborated one",
    "the four history-based mechanism names are decided from the wire history only (abandoned transfer before / foreign ACK inside the failing transfer)",
]
TIMEOUT = {"quick": 3000, "thorough": 6 * 3600}      # generous: the machine may be heavily shared


def build_device(descs, *, bulk_mps=8, fs60=False, ep0_mps=64, skip_get_config=False):
    """Real luna device: control endpoint with standard handlers, bulk IN ep1, bulk OUT ep2, passive spy endpoint."""
    from amaranth import Elaboratable, Module
    from luna.gateware.interface.utmi import UTMIInterface
    from luna.gateware.usb.usb2.device import USBDevice
    from luna.gateware.usb.usb2.endpoint import EndpointInterface
    from luna.gateware.usb.usb2.endpoints.stream import USBStreamInEndpoint, USBStreamOutEndpoint
    from usb_protocol.emitters import DeviceDescriptorCollection

    class Spy(Elaboratable):
        """Passive endpoint: only exposes the signals the device broadcasts to all endpoints."""

        def __init__(self):
            self.interface = EndpointInterface()

        def elaborate(self, platform):
            return Module()

    from amaranth import Signal, Mux
    from luna.gateware.usb.usb2.request import USBRequestHandler

    class VendorHandler(USBRequestHandler):
        """Harness-side request handler (luna's public extension point `add_request_handler`) that implements one
        vendor request, bRequest 0x51, correctly for all four direction x wLength combinations and keeps no state
        across SETUPs:  device-to-host, wLength > 0: data stage returns min(wLength, 4) bytes (wValue[7:0] + i), the
        OUT status stage is ACKed;  host-to-device, wLength > 0: every OUT data packet is ACKed, status IN gets a
        ZLP;  wLength == 0 (either direction bit): status IN gets a ZLP.  `action_count` counts host ACKs of a
        status ZLP (the request's action).  It is the stage FSM of the real USBControlEndpoint that is judged."""
        REQUEST = 0x51
        SKIPPED_BYTE = 0x5A        # answer to the standard GET_CONFIGURATION when the standard handler skiplists it

        def __init__(self, claim_get_config=False):
            super().__init__()
            self.claim_get_config = claim_get_config
            self.action_count = Signal(8)

        def elaborate(self, platform):
            m = Module()
            i = self.interface
            setup, tx = i.setup, i.tx
            n, idx = Signal(3), Signal(3)
            sending, zlp_sent = Signal(), Signal()
            has_data = setup.length != 0
            m.d.comb += n.eq(Mux(setup.length > 4, 4, setup.length[0:3]))
            mine = (setup.type == 2) & (setup.request == self.REQUEST)
            base = setup.value[0:8]
            if self.claim_get_config:
                skipped = (setup.type == 0) & (setup.request == 8)
                mine = mine | skipped
                base = Mux(skipped, self.SKIPPED_BYTE, base)
            with m.If(mine):
                m.d.comb += i.claim.eq(1)
                with m.If(i.data_requested & setup.is_in_request & has_data):
                    m.d.usb += [sending.eq(1), idx.eq(0)]
                with m.If(sending):
                    m.d.comb += [tx.valid.eq(1), tx.payload.eq(base + idx), tx.first.eq(idx == 0),
                                 tx.last.eq(idx == n - 1)]
                    with m.If(tx.ready):
                        m.d.usb += idx.eq(idx + 1)
                        with m.If(idx == n - 1):
                            m.d.usb += sending.eq(0)
                with m.If(i.status_requested):
                    with m.If(setup.is_in_request & has_data):
                        m.d.comb += i.handshakes_out.ack.eq(1)
                    with m.Else():
                        m.d.comb += [tx.valid.eq(1), tx.last.eq(1)]
                        m.d.usb += zlp_sent.eq(1)
                with m.If(i.rx_ready_for_response):
                    m.d.comb += i.handshakes_out.ack.eq(1)
                with m.If(i.handshakes_in.ack & zlp_sent):
                    m.d.usb += [self.action_count.eq(self.action_count + 1), zlp_sent.eq(0)]
            with m.If(setup.received):
                m.d.usb += [sending.eq(0), zlp_sent.eq(0)]
            return m

    utmi = UTMIInterface()
    dev = USBDevice(bus=utmi)
    if fs60:
        # what the ULPI path sets: 60 MHz timing tables; the check then holds `full_speed_only` high
        dev.always_fs = False
        dev.data_clock = 60e6
    coll = DeviceDescriptorCollection(automatic_language_descriptor=False)
    for (t, i), raw in sorted(descs.items()):
        coll.add_descriptor(raw, index=i, descriptor_type=t)
    from luna.gateware.usb.usb2.control import USBControlEndpoint
    ctrl = USBControlEndpoint(utmi=dev.utmi, max_packet_size=ep0_mps)
    if skip_get_config:
        # the standard handler must decline GET_CONFIGURATION; the check's own handler claims it instead
        ctrl.add_standard_request_handlers(coll, skiplist=[lambda setup: setup.request == 8])
    else:
        ctrl.add_standard_request_handlers(coll)
    dev.add_endpoint(ctrl)
    ctrl.vendor_handler = VendorHandler(claim_get_config=skip_get_config)
    ctrl.add_request_handler(ctrl.vendor_handler)
    ep_in = USBStreamInEndpoint(endpoint_number=C.Session.BULK_IN_EP, max_packet_size=bulk_mps)
    ep_out = USBStreamOutEndpoint(endpoint_number=C.Session.BULK_OUT_EP, max_packet_size=bulk_mps)
    spy = Spy()
    dev.add_endpoint(ep_in)
    dev.add_endpoint(ep_out)
    dev.add_endpoint(spy)
    return dev, utmi, ctrl, ep_in, ep_out, spy


def start_device(b, dev, utmi, ep_in, ep_out, fs60=False):
    init_device_signals(b, dev, utmi)
    if fs60:
        b.set(dev.full_speed_only, 1)
    b.set(ep_in.stream.valid, 1)
    b.set(ep_in.stream.payload, 0xA5)
    b.set(ep_in.stream.last, 0)
    b.set(ep_out.stream.ready, 1)


def draw_config(rng, res):
    """Device configuration of a session: luna's 60 MHz full-speed timing tables (what the ULPI path uses) or the 12 MHz
    ones, endpoint-0 packet size, and whether the standard handler skiplists GET_CONFIGURATION (served by the check's
    own handler then)."""
    fs60 = rng.random() < 0.3
    ep0_mps = rng.choice([64, 64, 64, 8, 16, 32])
    skip_get_config = rng.random() < 0.3
    res.bin("timing_fs60" if fs60 else "timing_fs12")
    res.bin("ep0_mps_%d" % ep0_mps)
    res.bin("skiplist_get_configuration" if skip_get_config else "skiplist_empty")
    return fs60, ep0_mps, skip_get_config


def draw_profiles(rng):
    gap_profile = rng.choice(["none", "none", "random", "fixed4", "onestall"])
    ready_profile = rng.choice(["always", "always", ("random", 0.7), ("every", 2), ("bursty", 3, 6)])
    return gap_profile, ready_profile


def run_case(rng, tier, res):
    """A case = up to 3 sessions, each on a freshly elaborated device; a session ends after its episodes or at the
    first contradiction (the device state is unknown afterwards, so the rest of the budget goes to a new device)."""
    budget = rng.randint(12, 18)
    res.desc = {"sessions": []}
    for k in range(3):
        if budget < 3:
            break
        used = run_session(rng, res, budget, tier)
        budget -= used
    res.nontrivial = bool(res.bins.get("transfer_after_abandoned") and res.events.get("foreign_transactions")
                          and (res.bins.get("multi_packet_data_stage") or res.bins.get("ctrl_data_unacked_then_retried")))


def run_session(rng, res, n_episodes, tier):
    descs = C.make_descriptors(rng)
    fs60, ep0_mps, skip_get_config = draw_config(rng, res)
    dev, utmi, ctrl, ep_in, ep_out, spy = build_device(descs, fs60=fs60, ep0_mps=ep0_mps, skip_get_config=skip_get_config)
    b = Bench(dev, domain="usb", freq=60e6, max_cycles=90000)
    gap_profile, ready_profile = draw_profiles(rng)
    host = UTMIHost(b, utmi, rng, timing="fs60" if fs60 else "fs12", ready_profile=ready_profile, gap_profile=gap_profile)
    acks_in_windows = rng.random() < 0.6
    ses = C.Session(b, host, rng, res, descs, utmi, foreign_ack_in_windows=acks_in_windows,
                    resp_window=120 if fs60 else C.RESP_WINDOW, mps=ep0_mps,
                    get_config_override=0x5A if skip_get_config else None)
    b.watch(ctrl.vendor_handler.action_count)
    ses.vendor_action = lambda: b.get(ctrl.vendor_handler.action_count)
    p_junk = rng.choice([0.0, 0.3, 0.5, 0.7])
    p_inter = rng.choice([0.0, 0.3, 0.5, 0.7])
    d = {"gap_profile": gap_profile, "ready_profile": ready_profile, "timing": "fs60" if fs60 else "fs12", "ep0_mps": ep0_mps, "skiplist_get_configuration": skip_get_config, "p_junk": p_junk, "p_inter": p_inter, "foreign_acks_in_vulnerable_windows": acks_in_windows,
         "descriptors": {"%d/%d" % k_: len(v) for k_, v in sorted(descs.items())}, "episodes": n_episodes}
    res.desc["sessions"].append(d)
    res.sig(gap_profile, ready_profile, sorted(descs.items()))
    done = [0]

    def driver():
        start_device(b, dev, utmi, ep_in, ep_out, fs60)
        yield from host.idle(8)
        for _ in range(n_episodes):
            done[0] += 1
            n_junk = 0
            while rng.random() < p_junk and n_junk < 2:
                yield from ses.junk()
                n_junk += 1
                if ses.episode_failed:
                    return
                if rng.random() < 0.3:
                    yield from ses.foreign()
            if rng.random() < 0.12:
                yield from ses.bus_reset()
                res.bin("bus_reset_between_transfers")
            res.bin("transfer_after_abandoned" if ses.ref.abandoned else
                    ("transfer_after_abandoned_and_completed" if ses.ref.suspect else "clean_history_transfer"))
            yield from ses.judged_transfer(p_inter=p_inter)
            if ses.episode_failed:
                return
            if rng.random() < 0.25:
                yield from ses.foreign()
        yield from host.idle(10)

    b.add_driver(driver())
    b.run()
    res.cycles += b.cycle
    res.event("sessions")
    # the transmit capture must be alive: count what it saw
    for kind, cyc, data in host.log:
        if kind == "D":
            if len(data) == 1 and data[0] == 0xD2:
                res.event("device_acks_seen")
            if len(data) > 3 and set(data[1:-2]) == {0xA5}:
                res.event("bulk_in_packets_seen")
    d["steps"] = [list(s) if isinstance(s, tuple) else s for s in ses.steps[:30]]
    if b.hit_max_cycles:
        res.violation("harness_max_cycles", "session did not finish in %d cycles" % b.max_cycles)
    return done[0]
