"""C17 — status (signal) IN endpoints report the latched value consistently.

DUT: real ``USBSignalInEndpoint`` (width 1..40 plus a few wider ones, both byte orders, any endpoint number, both
``signal_domain`` settings) inside a real ``USBDevice(bus=UTMIInterface())`` -- 12 MHz tables, ~15 % of the cases with
the 60 MHz full-speed tables -- next to a random set of neighbours (standard control endpoint, a second status
endpoint whose number may differ in one bit, a fed ``USBStreamInEndpoint``, a ``USBStreamOutEndpoint``) in random
multiplexer order; ~half of the sessions first move the device to a non-zero address with a real SET_ADDRESS.

Workload: one case = one session of 18-40 polls.  A background process changes the monitored signal all the time
(every cycle / every 1-6 cycles / single-bit flips / slowly / byte patterns whose bytes are all different); for about
half of the polls it is frozen from just before the IN token until the device raises ``tx_valid`` and starts changing
again in exactly that cycle (so a live / torn / re-latched value differs from the expected one with certainty).
Every poll ends in one of: host ACK, host silent, ACK with a broken PID check nibble, over-long ACK, aborted ACK, or
a valid *non-ACK* handshake.  Un-ACKed polls are retried 1-4 times: immediately, or after traffic to other endpoints
(IN that the host ACKs, OUT + data, control transfers, a poll of the second status endpoint), SOFs, damaged /
truncated IN tokens for this endpoint, tokens for the wrong direction / an absent endpoint number, and transactions
with other device addresses (incl. the host's ACK of another device's data).  All UTMI rx byte-gap profiles and all
tx_ready back-pressure profiles (stalls on the PID, the last payload byte and the CRC bytes are binned).

Monitors: (1) capture of every device packet at the UTMI boundary with per-byte stall counts; (2) the sampled value
of ``signal`` at every clock edge (history); (3) every cycle of ``status_read_complete``; (4) every change of the
endpoint's ``interface.tx_pid_toggle``.

Oracle (reference model written from the statement; no luna code): toggle bit T and the un-ACKed packet P.
 * every good IN token for the endpoint is answered with a DATA packet (bounded response window);
 * PID = DATA<T> (T is learnt from the first answer: the statement does not fix the initial toggle);
 * payload = the (width+7)//8 byte serialisation, in the configured byte order, of a value the signal had at some
   clock edge between the first byte of the IN token and the first cycle of the answer's ``tx_valid`` (the statement's
   "when the request arrived"; registration latency is deliberately not constrained) -- unless P exists, then the
   answer must be byte-identical to P (same value, same PID);
 * T flips iff the host put a valid one-byte ACK on the wire after the answer; ``tx_pid_toggle`` changes and
   ``status_read_complete`` pulses exactly once in [start of that ACK, its end + 12 cycles] and never elsewhere.

Finding (findings/C17.md, same root cause as C12's finding; fixed in /repo by commit 94bf9a6, known_findings.d/C17.json
entry marked `fixed`, so a regression fails the run): mechanism `toggle_advanced_by_ack_to_other_device`
is reported only when the endpoint advanced (strobe and/or toggle change) inside the host's ACK of a transaction with
ANOTHER device address while P was outstanding and no token for this device had been sent since P.  The model then
follows the device (T flips, P dropped) so that every other deviation keeps its own mechanism name.

Not judged: what other endpoints answer (C12), CRC16 / framing beyond "classifies as a data packet" (C03), response
latency beyond the host model's generous windows, behaviour across bus reset, the initial toggle value, clock-domain
crossing of the signal (``signal_domain`` is only swept as a constructor argument; all domains run from one clock).
Deviation from DESIGN section 7: "value at the cycle the poll was answerable" is relaxed to the window above.
"""
from rv.ref import usb2 as U

PROPERTY = "C17"
CASES = {"quick": 320, "thorough": 4800}
RULE = ("case = one session (width 1..40(+), byte order, endpoint number, neighbours, mux order, fs12|fs60 tables, rx gap / "
        "tx_ready profiles, signal-change profile): 18-40 polls ending in ACK / silence / damaged ACK with 1-4 retries "
        "across foreign traffic; non-trivial = >=1 retry whose signal had changed and >=1 ACK after a retry; "
        "distinct = hash of configuration + op list")
REQUIRED_BINS = ["width_1_8", "width_9_16", "width_17_24", "width_25_32", "width_33_40", "width_not_multiple_of_8",
                 "width_above_40", "big_endian", "little_endian", "fs60_session", "nonzero_address", "signal_domain_other",
                 "retry_after_silent", "retry_after_damaged_ack", "retry_after_wrong_handshake", "retry_twice_or_more",
                 "retry_across_other_endpoint_traffic", "retry_across_other_in_acked", "retry_across_control_transfer",
                 "retry_signal_changed", "ack_after_retry", "window_single_value", "window_multi_value",
                 "signal_changed_during_transmission", "stall_on_pid", "stall_on_last_payload_byte", "stall_on_crc",
                 "foreign_ack_while_unacked", "foreign_ack_while_idle", "damaged_token_between", "second_status_endpoint_polled",
                 "poll_right_after_ack", "multibyte_bytes_all_distinct"]
REQUIRED_EVENTS = ["polls", "polls_acked", "polls_unacked", "retries_checked", "value_checks", "value_checks_strict",
                   "status_read_complete_strobes", "toggle_changes", "signal_samples", "signal_changes",
                   "data0_packets", "data1_packets", "ack_windows_judged"]
ASSUMPTIONS = ["legal host at the packet level: one transaction at a time, it waits for the answer or a timeout, >= 2 idle cycles between packets",
               "the signal value 'when the request arrived' = any value sampled between the first byte of the IN token and the first tx_valid cycle of the answer",
               "status_read_complete / toggle change are accepted up to 12 cycles after the end of the host's ACK",
               "the initial toggle is learnt from the first answer",
               "answers of the other endpoints are not judged (C12)"]

ACK_SLACK = 12


def serialise(value, width, endianness):
    """Reference serialisation: (width+7)//8 bytes of the unsigned value in the given byte order."""
    n = (width + 7) // 8
    out = [(value >> (8 * i)) & 0xFF for i in range(n)]     # least significant byte first
    if endianness == "big":
        out.reverse()
    return bytes(out)


def _descriptors():
    from usb_protocol.emitters import DeviceDescriptorCollection
    d = DeviceDescriptorCollection()
    with d.DeviceDescriptor() as dd:
        dd.idVendor = 0x1209
        dd.idProduct = 0x0C17
        dd.iManufacturer = "rv"
        dd.iProduct = "c17 status endpoint"
        dd.bNumConfigurations = 1
    with d.ConfigurationDescriptor() as c:
        with c.InterfaceDescriptor() as i:
            i.bInterfaceNumber = 0
    return d


def run_case(rng, tier, res):
    from rv.sim import Bench
    from rv.usb2host import UTMIHost, init_device_signals
    from luna.gateware.interface.utmi import UTMIInterface
    from luna.gateware.usb.usb2.device import USBDevice
    from luna.gateware.usb.usb2.endpoints.status import USBSignalInEndpoint
    from luna.gateware.usb.usb2.endpoints.stream import USBStreamInEndpoint, USBStreamOutEndpoint

    # ------------------------------------------------------------------ configuration
    wsel = rng.random()
    if wsel < 0.58:
        width = rng.randint(1, 40)
    elif wsel < 0.88:
        width = rng.choice([1, 2, 7, 8, 9, 15, 16, 17, 23, 24, 25, 31, 32, 33, 39, 40])
    else:
        width = rng.choice([41, 47, 48, 56, 63, 64])
    nbytes = (width + 7) // 8
    endian = rng.choice(["little", "big"])
    epn = rng.randint(1, 15)
    fs60 = rng.random() < 0.15
    sig_domain = "usb" if rng.random() < 0.85 else "sync"
    with_ctl = rng.random() < 0.6
    want_addr = rng.choice([0, rng.randint(1, 127), epn]) if with_ctl else 0
    others = [n for n in range(1, 16) if n != epn]
    onebit = [n for n in others if bin(n ^ epn).count("1") == 1]
    nb = {}
    if rng.random() < 0.6:
        nb["sig2"] = rng.choice(onebit) if rng.random() < 0.6 else rng.choice(others)
    if rng.random() < 0.6:
        nb["in"] = rng.choice([n for n in others if n != nb.get("sig2")])
    if rng.random() < 0.6:
        nb["out"] = rng.choice(others + [epn, epn])          # an OUT endpoint may share the number (other direction)
    absent = [n for n in others if n not in nb.values()]
    gap_profile = rng.choice(["none", "none", "random", "fixed4", "onestall"]) if not fs60 else rng.choice(["random", "fixed4", "none"])
    ready_profile = rng.choice(["always", "always", ("random", 0.5), ("random", 0.8), ("every", 2), ("every", 3), ("bursty", 6, 5)])
    sig_profile = rng.choice(["every", "every", "few", "few", "bitflip", "slow", "bytes"])
    order_seed = rng.randrange(1 << 16)

    if width <= 40:
        res.bin("width_%d_%d" % (8 * nbytes - 7, 8 * nbytes))
    else:
        res.bin("width_above_40")
    if width % 8:
        res.bin("width_not_multiple_of_8")
    res.bin("big_endian" if endian == "big" else "little_endian")
    if fs60:
        res.bin("fs60_session")
    if sig_domain != "usb":
        res.bin("signal_domain_other")

    cfg = {"width": width, "endianness": endian, "endpoint": epn, "fs60": fs60, "signal_domain": sig_domain,
           "control_endpoint": with_ctl, "address": want_addr, "neighbours": nb, "gap_profile": gap_profile,
           "ready_profile": ready_profile, "signal_profile": sig_profile}
    res.desc = dict(cfg, ops=[])
    res.sig(sorted(cfg.items(), key=str), order_seed)

    # ------------------------------------------------------------------ device
    utmi = UTMIInterface()
    dev = USBDevice(bus=utmi)
    if fs60:
        dev.always_fs = False
        dev.data_clock = 60e6
    if with_ctl:
        dev.add_standard_control_endpoint(_descriptors())
    ep = USBSignalInEndpoint(width=width, endpoint_number=epn, endianness=endian, signal_domain=sig_domain)
    blocks = [ep]
    ep2 = ep_in = ep_out = None
    if "sig2" in nb:
        ep2_width = rng.choice([8, 16, 13])
        ep2 = USBSignalInEndpoint(width=ep2_width, endpoint_number=nb["sig2"], endianness=rng.choice(["little", "big"]))
        blocks.append(ep2)
    if "in" in nb:
        ep_in = USBStreamInEndpoint(endpoint_number=nb["in"], max_packet_size=rng.choice([8, 16]))
        blocks.append(ep_in)
    if "out" in nb:
        ep_out = USBStreamOutEndpoint(endpoint_number=nb["out"], max_packet_size=16)
        blocks.append(ep_out)
    import random as _random
    _random.Random(order_seed).shuffle(blocks)
    for blk in blocks:
        dev.add_endpoint(blk)

    # (the endpoint's FFSynchronizer only uses its output domain "usb": no second clock exists in the design)
    b = Bench(dev, domain="usb", freq=60e6, max_cycles=70000)
    host = UTMIHost(b, utmi, rng, timing="fs60" if fs60 else "fs12", ready_profile=ready_profile, gap_profile=gap_profile)
    toggle_sig = ep.interface.tx_pid_toggle
    b.watch(ep.signal, ep.status_read_complete, toggle_sig)
    if ep2 is not None:
        b.watch(ep2.signal)

    # ------------------------------------------------------------------ monitors
    mask = (1 << width) - 1
    hist = [None]                 # hist[c] = value of `signal` sampled at clock edge c
    strobes = []                  # cycles with status_read_complete high
    toggles = []                  # (cycle, new value) of interface.tx_pid_toggle
    st = {"freeze": False, "release_on_tx": False, "prev_toggle": None, "prev_sig": None,
          "cur": None, "pkts": [], "stall": 0}

    def monitor(b):
        v = b.get(ep.signal)
        hist.append(v)
        res.event("signal_samples")
        if st["prev_sig"] is not None and v != st["prev_sig"]:
            res.event("signal_changes")
        st["prev_sig"] = v
        if b.get(ep.status_read_complete):
            strobes.append(b.cycle)
            res.event("status_read_complete_strobes")
        t = b.get(toggle_sig)
        if st["prev_toggle"] is not None and t != st["prev_toggle"]:
            toggles.append((b.cycle, t))
            res.event("toggle_changes")
        st["prev_toggle"] = t
        # own capture of device packets with per-byte stall counts
        if b.get(utmi.tx_valid):
            if st["cur"] is None:
                st["cur"] = {"first_valid": b.cycle, "stalls": [], "data": bytearray()}
                st["stall"] = 0
                if st["release_on_tx"]:
                    st["freeze"] = False          # the signal starts changing again in this very cycle
                    st["release_on_tx"] = False
            if b.get(utmi.tx_ready):
                st["cur"]["stalls"].append(st["stall"])
                st["cur"]["data"].append(b.get(utmi.tx_data))
                st["stall"] = 0
            else:
                st["stall"] += 1
        elif st["cur"] is not None:
            st["cur"]["end"] = b.cycle
            st["pkts"].append(st["cur"])
            st["cur"] = None

    b.add_monitor(monitor)

    # ------------------------------------------------------------------ background: the monitored signal
    def distinct_bytes_value():
        bs = rng.sample(range(256), nbytes) if nbytes <= 256 else [0] * nbytes
        v = 0
        for i, x in enumerate(bs):
            v |= x << (8 * i)
        return v & mask

    def new_value(cur, prof):
        if prof == "bitflip":
            return cur ^ (1 << rng.randrange(width))
        if prof == "bytes":
            return distinct_bytes_value()
        r = rng.random()
        if r < 0.08:
            return rng.choice([0, mask, mask >> 1, 1 << (width - 1), 1])
        if r < 0.3:
            return distinct_bytes_value()
        return rng.getrandbits(width)

    def signal_driver():
        cur = rng.getrandbits(width)
        b.set(ep.signal, cur)
        prof = sig_profile
        switch_at = rng.randint(300, 1500)
        n = 0
        while True:
            hold = {"every": 1, "few": rng.randint(1, 6), "bitflip": rng.randint(1, 3), "slow": rng.randint(25, 200),
                    "bytes": rng.randint(1, 4)}[prof]
            for _ in range(hold):
                yield
                n += 1
                while st["freeze"]:
                    yield
            cur = new_value(cur, prof)
            b.set(ep.signal, cur)
            if ep2 is not None and rng.random() < 0.2:
                b.set(ep2.signal, rng.getrandbits(ep2_width))
            if n >= switch_at:
                n = 0
                switch_at = rng.randint(300, 1500)
                prof = rng.choice(["every", "few", "bitflip", "slow", "bytes", sig_profile])

    b.add_driver(signal_driver(), main=False)

    if ep_in is not None:
        def feeder():
            s = ep_in.stream
            i = 0
            while True:
                b.set(s.valid, 1)
                b.set(s.payload, (i * 7 + 3) & 0xFF)
                b.set(s.last, 1 if rng.random() < 0.1 else 0)
                i += 1
                yield
                while not b.get(s.ready):
                    yield
        b.watch(ep_in.stream.ready)
        b.add_driver(feeder(), main=False)
    if ep_out is not None:
        def consumer():
            b.set(ep_out.stream.ready, 1)
            while True:
                yield
        b.add_driver(consumer(), main=False)

    # ------------------------------------------------------------------ reference model + judging
    model = {"T": None, "P": None, "own_token_since_P": False, "retries": 0, "changed_since_P": False,
             "traffic_since_P": set(), "last_op": None, "stop": False}
    ack_windows = []        # dicts: start, end, kind ('own' | 'foreign_suspect' | 'foreign_idle')
    addr = {"cur": 0}
    foreign_addrs = [a for a in (rng.sample(range(1, 128), 4) + [want_addr ^ 1, want_addr ^ 0x40]) if a not in (0, want_addr) and 0 <= a < 128]
    window = host.timing["window"]

    def log(*items):
        ops = res.desc["ops"]
        if len(ops) < 40:
            ops.append(" ".join(str(i) for i in items))
        res.sig(items)

    def note_traffic(kind):
        """a complete transaction that is not a poll of the DUT endpoint"""
        if model["P"] is not None:
            model["traffic_since_P"].add(kind)
        model["last_op"] = kind

    def my_packet_after(n0):
        return st["pkts"][n0] if len(st["pkts"]) > n0 else None

    def send_handshake_mode(mode):
        """host handshake after the device's data packet; returns (t_start, t_end) if a valid ACK was sent"""
        if mode == "silent":
            yield from host.idle(rng.randint(0, 6))
            return None
        yield from host.turnaround()
        t_start = b.cycle + 1
        if mode == "ack":
            yield from host.handshake(U.ACK)
            return (t_start, b.cycle)
        if mode == "bad_pid_ack":
            yield from host.send_raw(bytes([U.pid_byte(U.ACK) ^ (1 << rng.randrange(8))]))
        elif mode == "overlong_ack":
            yield from host.send_raw(bytes([U.pid_byte(U.ACK)]) + bytes(rng.randrange(256) for _ in range(rng.randint(1, 2))))
        elif mode == "aborted_ack":
            yield from host.send_raw(bytes([U.pid_byte(U.ACK)]), abort_after=0, lead=rng.randint(1, 3))
        elif mode == "wrong_handshake":
            yield from host.handshake(rng.choice([U.NAK, U.STALL, U.NYET]))
        else:
            raise ValueError(mode)
        return None

    def poll(mode, *, strict=None):
        """one IN transaction with the DUT endpoint"""
        if model["stop"]:
            return
        if strict is None:
            strict = rng.random() < 0.5
        if strict:
            st["freeze"] = True
            st["release_on_tx"] = True
            yield from host.idle(rng.randint(1, 3))
        retry = model["P"] is not None
        n0 = len(st["pkts"])
        t_tok = b.cycle + 1
        yield from host.token(U.IN, addr["cur"], epn)
        model["own_token_since_P"] = True
        yield from host.wait_response()
        st["freeze"] = False
        st["release_on_tx"] = False
        res.event("polls")
        log("POLL", mode, "retry" if retry else "new", "strict" if strict else "")
        pkt = my_packet_after(n0)
        if pkt is None:
            res.violation("poll_not_answered", "IN to status endpoint %d (token at %d): no packet within %d cycles; cfg=%s ops=%s"
                          % (epn, t_tok, window, cfg, res.desc["ops"][-6:]))
            model["stop"] = True
            return
        data = bytes(pkt["data"])
        info = U.classify(data)
        if info["kind"] != "data":
            res.violation("answer_not_a_data_packet", "IN to status endpoint answered with %s (%s); ops=%s" % (data.hex(), info, res.desc["ops"][-6:]))
            model["stop"] = True
            return
        pid, payload = info["pid"], bytes(info["payload"])
        if pid not in (U.DATA0, U.DATA1):
            res.violation("answer_pid_not_data0_data1", "PID %s" % U.PID_NAMES[pid])
            model["stop"] = True
            return
        tog = 1 if pid == U.DATA1 else 0
        res.event("data1_packets" if tog else "data0_packets")
        # stall bins
        sl = pkt["stalls"]
        if sl and sl[0]:
            res.bin("stall_on_pid")
        if len(sl) == nbytes + 3:
            if sl[nbytes]:
                res.bin("stall_on_last_payload_byte")
            if sl[nbytes + 1] or sl[nbytes + 2]:
                res.bin("stall_on_crc")
        if any(hist[c] != hist[pkt["first_valid"]] for c in range(pkt["first_valid"], pkt["end"])):
            res.bin("signal_changed_during_transmission")
        # toggle
        if model["T"] is None:
            model["T"] = tog
        if len(payload) != nbytes:
            res.violation("payload_length_wrong", "width %d: %d payload bytes (%s), expected %d" % (width, len(payload), payload.hex(), nbytes))
            model["stop"] = True
            return
        win_vals = set(hist[t_tok:pkt["first_valid"] + 1])
        if retry:
            res.event("retries_checked")
            exp_pid, exp_payload = model["P"]
            if tog != exp_pid or payload != exp_payload:
                if tog != exp_pid:
                    mech = "retry_with_other_toggle"
                elif any(payload == serialise(v, width, endian) for v in win_vals):
                    mech = "retry_carries_fresh_value"
                else:
                    mech = "retry_payload_differs"
                res.violation(mech, "un-ACKed answer was DATA%d %s, retry is DATA%d %s (signal window of the retry: %s); cfg=%s ops=%s"
                              % (exp_pid, exp_payload.hex(), tog, payload.hex(), sorted("%x" % v for v in win_vals)[:6], cfg, res.desc["ops"][-8:]))
                model["stop"] = True
                return
            model["retries"] += 1
            if model["retries"] >= 2:
                res.bin("retry_twice_or_more")
            if serialise(hist[pkt["first_valid"]], width, endian) != exp_payload and all(serialise(v, width, endian) != exp_payload for v in win_vals):
                res.bin("retry_signal_changed")
                model["changed_since_P"] = True
            for k in model["traffic_since_P"]:
                if k in ("other_in_acked",):
                    res.bin("retry_across_other_in_acked")
                if k in ("ctl",):
                    res.bin("retry_across_control_transfer")
                if k in ("other_in_acked", "other_in", "other_out", "sig2", "ctl", "absent_in", "wrong_dir"):
                    res.bin("retry_across_other_endpoint_traffic")
                if k == "bad_token":
                    res.bin("damaged_token_between")
        else:
            if tog != model["T"]:
                res.violation("new_poll_with_wrong_toggle", "expected DATA%d, got DATA%d payload %s; cfg=%s ops=%s"
                              % (model["T"], tog, payload.hex(), cfg, res.desc["ops"][-8:]))
                model["stop"] = True
                return
            res.event("value_checks")
            if len(win_vals) == 1:
                res.bin("window_single_value")
                res.event("value_checks_strict")
            else:
                res.bin("window_multi_value")
            if nbytes > 1 and len(set(payload)) == nbytes:
                res.bin("multibyte_bytes_all_distinct")
            if not any(payload == serialise(v, width, endian) for v in win_vals):
                # classify for stable mechanism names
                other = "little" if endian == "big" else "big"
                later = set(hist[pkt["first_valid"] + 1:pkt["end"] + 1])
                if any(payload == serialise(v, width, other) for v in win_vals):
                    mech = "payload_byte_order_wrong"
                elif any(payload == serialise(v, width, endian) for v in later):
                    mech = "payload_sampled_after_transmission_started"
                elif any(payload == serialise(v, width, endian) for v in set(hist[max(1, t_tok - 400):t_tok])):
                    mech = "payload_is_stale_value"
                else:
                    mech = "payload_not_a_sampled_value"
                res.violation(mech, "width %d %s endian: payload %s is not the serialisation of any value the signal had in cycles %d..%d (%s); cfg=%s ops=%s"
                              % (width, endian, payload.hex(), t_tok, pkt["first_valid"], sorted("%x" % v for v in win_vals)[:8], cfg, res.desc["ops"][-8:]))
                model["stop"] = True
                return
        # host handshake
        acked = yield from send_handshake_mode(mode)
        if acked:
            ack_windows.append({"start": acked[0], "end": acked[1], "kind": "own"})
            res.event("polls_acked")
            if retry:
                res.bin("ack_after_retry")
            model["T"] ^= 1
            model["P"] = None
            model["retries"] = 0
            model["traffic_since_P"] = set()
        else:
            res.event("polls_unacked")
            if not retry:
                model["P"] = (tog, payload)
                model["retries"] = 0
                model["traffic_since_P"] = set()
                model["changed_since_P"] = False
            model["own_token_since_P"] = False
            model["fail_mode"] = mode if not retry else model.get("fail_mode")
        model["last_op"] = "poll_acked" if acked else "poll_unacked"

    def bin_retry_cause():
        fm = model.get("fail_mode")
        if fm == "silent":
            res.bin("retry_after_silent")
        elif fm in ("bad_pid_ack", "overlong_ack", "aborted_ack"):
            res.bin("retry_after_damaged_ack")
        elif fm == "wrong_handshake":
            res.bin("retry_after_wrong_handshake")

    # ------------------------------------------------------------------ noise transactions
    def wait_quiet():
        yield from host.wait_response()

    def noise(kind):
        if model["stop"]:
            return
        log("NOISE", kind)
        if kind == "sof":
            yield from host.sof(rng.randrange(2048))
            yield from host.idle(rng.randint(2, 6))
            return
        if kind == "other_in" and ep_in is not None:
            model["own_token_since_P"] = True
            r = yield from host.in_transaction(addr["cur"], nb["in"], ack="ack" if rng.random() < 0.85 else "none")
            note_traffic("other_in_acked" if r.get("acked") else "other_in")
        elif kind == "sig2" and ep2 is not None:
            model["own_token_since_P"] = True
            r = yield from host.in_transaction(addr["cur"], nb["sig2"], ack="ack" if rng.random() < 0.8 else "none")
            res.bin("second_status_endpoint_polled")
            note_traffic("other_in_acked" if r.get("acked") else "sig2")
        elif kind == "other_out" and ep_out is not None:
            model["own_token_since_P"] = True
            yield from host.out_transaction(addr["cur"], nb["out"], rng.choice([U.DATA0, U.DATA1]),
                                            bytes(rng.randrange(256) for _ in range(rng.randint(0, 8))))
            note_traffic("other_out")
        elif kind == "ctl" and with_ctl:
            model["own_token_since_P"] = True
            which = rng.random()
            if which < 0.6:
                setup = U.setup_bytes(0x80, 6, 0x0100, 0, rng.choice([8, 18, 18, 64]))     # GET_DESCRIPTOR(device)
            elif which < 0.8:
                setup = U.setup_bytes(0x80, 0, 0, 0, 2)                                    # GET_STATUS
            else:
                setup = U.setup_bytes(0x80, 8, 0, 0, 1)                                    # GET_CONFIGURATION
            yield from host.control_in(addr["cur"], setup)
            note_traffic("ctl")
        elif kind == "absent_in" and absent:
            model["own_token_since_P"] = True
            yield from host.token(U.IN, addr["cur"], rng.choice(absent))
            yield from wait_quiet()
            note_traffic("absent_in")
        elif kind == "wrong_dir" and nb.get("out") != epn:
            model["own_token_since_P"] = True
            yield from host.token(U.OUT, addr["cur"], epn)
            yield from host.idle(rng.randint(2, 4))
            yield from host.data(rng.choice([U.DATA0, U.DATA1]), bytes(rng.randrange(256) for _ in range(rng.randint(0, 6))))
            yield from wait_quiet()
            note_traffic("wrong_dir")
        elif kind == "bad_token":
            tok = bytearray(U.token(U.IN, addr["cur"], epn))
            how = rng.choice(["crc5", "pid", "truncated"])
            n0 = len(st["pkts"])
            if how == "crc5":
                tok[rng.randrange(1, 3)] ^= 1 << rng.randrange(8)
                yield from host.send_raw(bytes(tok))
            elif how == "pid":
                tok[0] ^= 1 << rng.randrange(4, 8)
                yield from host.send_raw(bytes(tok))
            else:
                yield from host.send_raw(bytes(tok), abort_after=rng.randint(1, 2))
            yield from wait_quiet()
            if len(st["pkts"]) > n0:
                # the device answered a damaged token (token reception is C01's subject); this session can no longer be judged
                res.unjudged += 1
                model["stop"] = True
                return
            note_traffic("bad_token")
        elif kind in ("foreign_in_ack", "foreign_in_noack", "foreign_out") and foreign_addrs:
            fa = rng.choice(foreign_addrs)
            fe = rng.choice([epn, epn, rng.randrange(16)])
            n_str, n_tog = len(strobes), len(toggles)
            if kind == "foreign_out":
                yield from host.token(U.OUT, fa, fe)
                yield from host.idle(rng.randint(2, 4))
                yield from host.data(rng.choice([U.DATA0, U.DATA1]), bytes(rng.randrange(256) for _ in range(rng.randint(0, 8))))
                yield from host.idle(rng.randint(6, 14))          # the other device's handshake (upstream, not visible here)
            else:
                yield from host.token(U.IN, fa, fe)
                yield from host.idle(rng.randint(8, 30))          # the other device's data packet (upstream, not visible here)
                if kind == "foreign_in_ack":
                    suspect = model["P"] is not None and not model["own_token_since_P"]
                    t_start = b.cycle + 1
                    yield from host.handshake(U.ACK)
                    w = {"start": t_start, "end": b.cycle, "kind": "foreign_suspect" if suspect else "foreign_idle"}
                    ack_windows.append(w)
                    res.bin("foreign_ack_while_unacked" if suspect else "foreign_ack_while_idle")
                    yield from host.idle(ACK_SLACK + 1)
                    if suspect and (len(strobes) > n_str or len(toggles) > n_tog):
                        res.violation("toggle_advanced_by_ack_to_other_device",
                                      "status endpoint %d (addr %d): answer DATA%d %s was not ACKed; then IN addr %d ep %d + host ACK (for the other device) "
                                      "-> status_read_complete x%d, tx_pid_toggle changes x%d; ops=%s"
                                      % (epn, addr["cur"], model["P"][0], model["P"][1].hex(), fa, fe, len(strobes) - n_str, len(toggles) - n_tog, res.desc["ops"][-6:]))
                        # follow the device so that later deviations keep their own names
                        model["T"] ^= 1
                        model["P"] = None
                        model["retries"] = 0
                        model["traffic_since_P"] = set()
            if model["P"] is not None:
                model["traffic_since_P"].add("foreign")
        yield from host.gap()

    # ------------------------------------------------------------------ session
    def pick_noise():
        ks = ["sof", "bad_token", "foreign_in_noack", "foreign_out", "absent_in", "wrong_dir"]
        if ep_in is not None:
            ks += ["other_in"] * 3
        if ep2 is not None:
            ks += ["sig2"] * 2
        if ep_out is not None:
            ks += ["other_out"] * 2
        if with_ctl:
            ks += ["ctl"] * 2
        return rng.choice(ks)

    def driver():
        init_device_signals(b, dev, utmi)
        if fs60:
            b.set(dev.full_speed_only, 1)
        yield from host.idle(8)
        if want_addr:
            r = yield from host.control_out_nodata(0, U.setup_bytes(0x00, 5, want_addr, 0, 0))
            s = r.get("status") or {}
            if not (s.get("kind") == "data" and s.get("acked")):
                res.unjudged += 1           # SET_ADDRESS is C08's subject; stay at address 0
            else:
                addr["cur"] = want_addr
                res.bin("nonzero_address")
            yield from host.idle(rng.randint(4, 20))
        npolls = rng.randint(18, 40) if tier == "quick" else rng.randint(18, 60)
        done = 0
        fail_modes = ["silent", "silent", "bad_pid_ack", "overlong_ack", "aborted_ack", "wrong_handshake"]
        while done < npolls and not model["stop"] and b.cycle < b.max_cycles - 6000:
            r = rng.random()
            if model["P"] is None:
                # a fresh poll
                mode = "ack" if r < 0.55 else rng.choice(fail_modes)
                right_after_ack = model["last_op"] == "poll_acked"
                strict = None
                if right_after_ack and rng.random() < 0.5:
                    strict = False          # no extra idle cycles before the token
                    res.bin("poll_right_after_ack")
                else:
                    yield from host.idle(rng.choice([0, 0, 1, 5, rng.randint(0, 40)]))
                yield from poll(mode, strict=strict)
                done += 1
            else:
                # outstanding un-ACKed answer: noise, then retry
                k = rng.random()
                if k < 0.35:
                    pass                                       # immediate retry
                elif k < 0.5:
                    yield from noise("foreign_in_ack")        # (known finding trigger when nothing else was in between)
                else:
                    for _ in range(rng.randint(1, 3)):
                        yield from noise(pick_noise())
                if model["P"] is None or model["stop"]:
                    continue
                bin_retry_cause()
                mode = "ack" if rng.random() < 0.55 or model["retries"] >= 3 else rng.choice(fail_modes)
                yield from poll(mode)
                done += 1
                continue
            yield from host.gap()
            # idle-time noise between polls
            if rng.random() < 0.35 and not model["stop"]:
                kind = rng.choice([pick_noise(), "foreign_in_ack"])
                yield from noise(kind)
        yield from host.idle(ACK_SLACK + 4)

    b.add_driver(driver())
    b.run()
    res.cycles = b.cycle
    if b.hit_max_cycles:
        res.violation("harness_max_cycles", "session did not finish in %d cycles" % b.max_cycles)

    # ------------------------------------------------------------------ strobes / toggle changes against ACK windows
    def judge(events, what):
        counts = [0] * len(ack_windows)
        for c in events:
            hit = None
            for i, w in enumerate(ack_windows):
                if w["start"] <= c <= w["end"] + ACK_SLACK:
                    hit = i
            if hit is None:
                res.violation("%s_without_ack" % what, "%s at cycle %d: no host ACK in the preceding %d cycles; cfg=%s ops=%s"
                              % (what, c, ACK_SLACK, cfg, res.desc["ops"][-8:]))
            else:
                counts[hit] += 1
        for w, n in zip(ack_windows, counts):
            if w["kind"] == "own":
                res.event("ack_windows_judged")
                if n == 0:
                    res.violation("%s_missing_after_ack" % what, "host ACK at %d..%d of the endpoint's answer: no %s within %d cycles; cfg=%s"
                                  % (w["start"], w["end"], what, ACK_SLACK, cfg))
                elif n > 1:
                    res.violation("%s_more_than_once_per_ack" % what, "host ACK at %d..%d: %d x %s" % (w["start"], w["end"], n, what))
            elif w["kind"] == "foreign_idle" and n:
                res.violation("%s_on_foreign_ack_while_idle" % what, "ACK for another device at %d..%d while nothing was outstanding: %d x %s"
                              % (w["start"], w["end"], n, what))
            # 'foreign_suspect' windows were judged online (known finding)

    if not any(v["mechanism"] == "harness_max_cycles" for v in res.violations):
        judge(strobes, "status_read_complete")
        judge([c for c, _ in toggles], "toggle_change")
        for c, t in toggles:
            if t not in (0, 1):
                res.violation("toggle_value_not_data0_data1", "tx_pid_toggle = %d at cycle %d" % (t, c))
    res.nontrivial = bool(res.bins.get("retry_signal_changed") and res.bins.get("ack_after_retry"))
