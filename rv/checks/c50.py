"""C50 - SPIDeviceInterface exchanges whole words for every word size.

DUT: luna.gateware.interface.spi.SPIDeviceInterface(word_size 1..33 and 34..72, clock_polarity, clock_phase,
     msb_first, cs_idles_high) - all 16 mode combinations, power-of-two and other sizes.

Workload: an SPI host model written for this check.  Per case 3..14 transactions of 1..5 words (some
with a trailing partial word = abort in the middle of a word, followed by a fresh transaction), SCK
half periods 1..8 sync cycles with per-half-period jitter, CS-to-first-edge and last-edge-to-CS
delays 1..6, CS idle gaps 1..10, SCK/SDI traffic for "another device" while CS is inactive,
`word_out` changed in the middle of words (stable around the word boundary where the device may
latch it) and while deselected.  SDI data: random, single-bit, all-ones/zero and asymmetric patterns
(so that bit order and one-bit slips are visible).  Stimulus is legal SPI: SDI stable around the
sample edge, CS changes only while SCK rests at its idle level and >= 1 cycle away from any edge.

Reference (from the SPI mode definitions, never from luna): leading edge = SCK leaving its idle level
(CPOL); sample edge = leading edge for CPHA 0, trailing edge for CPHA 1; the host shifts on the other
edge.  While CS is active every `word_size` consecutive sample edges form a word, first bit = MSB if
msb_first else LSB; the count restarts at every CS assertion.  The monitor rebuilds all this from the
*sampled* pins every cycle and checks
  * exactly one `word_complete` cycle for each complete word, within WINDOW cycles after its last
    sample edge, carrying `word_in` == the reference word; no strobe without a complete word
    (partial words, foreign traffic, CS edges);
  * CPHA 1 (data changes on the leading edge): at every sample edge SDO equals the next bit, in the
    configured order (MSB first unless msb_first=False), of the word presented on `word_out` - for word 0 the value presented when
    CS was asserted, for word j>0 the value presented at the end of word j-1.
After the first violation inside a transaction the rest of that transaction is not judged (it is a
cascade); judging resumes with the next transaction after a quiet deselected period.

SDO is judged in both bit orders: MSB first for msb_first=True (the statement), LSB first for msb_first=False
(the block's documented parameter: "data will be transmitted MSB first" only if set).
Not judged: SDO in CPHA 0 modes - the statement restricts the clause to modes where data changes on the
leading edge; in CPHA 0 the block shifts on the trailing edge and does not present the first bit before the
first sample edge, so any expectation would encode luna's current behaviour, not the statement (unjudged); `word_accepted`; exact latency of `word_complete` (only the window).

History: on the original tree the bit counter was cleared only by CS, so for sizes that are not a power
of two the second word of a transaction was not reported at its boundary (findings/C50.md, mechanism
word_boundary_lost_after_first_word_non_pow2_size, fixed in /repo 1c5c355).  The check no longer renames
anything: a regression shows up as word_complete_missing_later_word / word_in_wrong_bits / sdo_wrong_bit_later_word.

Fast SCK: half periods of 1 and 2 sync cycles (SCK = sync/2 and sync/4) are generated on purpose, with CS
held across words, so that the first edge of the next word falls 1 or 2 cycles after a word's last sample
edge - exactly where the device reloads its transmit register and hands over the received word (required
bins word_boundary_next_edge_after_1/2 and their sdo_judged_ variants).  The block has no synchroniser in
front of its edge detector, so sync/2 is the fastest SCK it can resolve; the unmodified block handles it
(verified), so it is judged.  At half period 1 SDO has zero slack (it changes in the cycle the host samples
it); a design with an additional output register could not run at sync/2 on hardware either.
"""
from rv.sim import Bench

PROPERTY = "C50"
CASES = {"quick": 320, "thorough": 6400}
RULE = ("case = (word_size 1..33 or 34..72, CPOL, CPHA, bit order, CS polarity, 3..14 transactions each 1..5 words (+ optional "
        "partial word), half period 1..8 with jitter, CS/clock delays, foreign clocks while deselected, word_out changes); "
        "non-trivial = at least one multi-word transaction was judged; distinct = hash of config + full pin script")
REQUIRED_BINS = ["size_pow2", "size_non_pow2", "size_ge_17", "size_le_3", "size_1", "size_gt_33", "size_gt_64", "cs_pulse_without_clock", "sdo_judged_lsb_first", "sdo_judged_msb_first", "mode0", "mode1", "mode2", "mode3",
                 "msb_first", "lsb_first", "cs_active_high", "cs_active_low", "multiword_pow2", "multiword_non_pow2",
                 "third_word_reported_pow2", "abort_partial_word", "transaction_after_abort", "foreign_clock_while_deselected",
                 "word_out_changed_inside_transaction", "sdo_word_ge1_judged", "half_period_1", "half_period_2", "word_boundary_next_edge_after_1", "word_boundary_next_edge_after_2",
                 "sdo_judged_word_boundary_next_edge_after_1", "sdo_judged_word_boundary_next_edge_after_2", "cs_to_clock_1",
                 "clock_to_cs_1", "cs_gap_1"]
REQUIRED_EVENTS = ["transactions", "sample_edges", "words_expected", "words_reported_checked", "sdo_bits_checked",
                   "quiet_cycles_checked"]
ASSUMPTIONS = ["SCK half period >= 1 sync cycle (SCK <= sync/2), SDI valid in the cycle of the sample edge and >= 1 cycle before it",
               "CS changes only while SCK is at its idle level, >= 1 cycle away from any SCK edge; CS inactive >= 1 cycle",
               "word_out is stable from 2 cycles before to 3 cycles after the point where the device may latch it",
               "SDO judged only for clock_phase=1 (both bit orders); word_complete latency only bounded (8 cycles)"]

WINDOW = 8


def _pow2(n):
    return n & (n - 1) == 0


def run_case(rng, tier, res):
    from luna.gateware.interface.spi import SPIDeviceInterface

    ws = rng.choice([1, 1, 2, 3, 4, 5, 7, 8, 9, 12, 16, 16, 17, 24, 32, 32, 33, rng.randint(2, 33), rng.randint(2, 33), rng.randint(2, 33)])
    if rng.random() < 0.15:
        ws = rng.choice([34, 40, 63, 64, 65, 65, 72, 96])      # beyond 32/64-bit: counter widths, python-int-free shifting
    cpol, cpha = rng.randint(0, 1), rng.randint(0, 1)
    msb = rng.random() < 0.6
    cs_high_idle = rng.random() < 0.4
    dut = SPIDeviceInterface(word_size=ws, clock_polarity=cpol, clock_phase=cpha, msb_first=msb, cs_idles_high=cs_high_idle)
    cs_on, cs_off = (0, 1) if cs_high_idle else (1, 0)
    hbase = rng.choice([1, 1, 1, 2, 2, 2, 3, 3, 4, 5, 8])
    mask = (1 << ws) - 1
    res.bin("size_pow2" if _pow2(ws) else "size_non_pow2")
    if ws >= 17:
        res.bin("size_ge_17")
    if ws <= 3:
        res.bin("size_le_3")
    if ws == 1:
        res.bin("size_1")
    if ws > 33:
        res.bin("size_gt_33")
    if ws > 64:
        res.bin("size_gt_64")
    res.bin("mode%d" % (2 * cpol + cpha))
    res.bin("msb_first" if msb else "lsb_first")
    res.bin("cs_active_low" if cs_high_idle else "cs_active_high")
    if hbase == 1:
        res.bin("half_period_1")
    if hbase == 2:
        res.bin("half_period_2")

    spi = dut.spi
    b = Bench(dut, domain="sync", freq=60e6, max_cycles=40000)
    b.watch(spi.sck, spi.sdi, spi.sdo, spi.cs, dut.word_in, dut.word_out, dut.word_complete)

    def word_value():
        r = rng.random()
        if r < 0.45:
            return rng.getrandbits(ws)
        if r < 0.6:
            return 1 << rng.randrange(ws)
        if r < 0.7:
            return mask ^ (1 << rng.randrange(ws))
        if r < 0.8:
            return rng.choice([0, mask, 1, 1 << (ws - 1), mask >> 1, mask & ~1])
        return (rng.getrandbits(ws) | 1) & ~(1 << (ws - 1)) & mask      # asymmetric: lsb set, msb clear

    def half():
        j = rng.choice([0, 0, 0, 0, 0, 1, 1, 2, -1, 3])
        return max(1 if hbase <= 2 else 2, hbase + j)

    # ---------------------------------------------------------------- script (explicit, for the replay/evidence)
    # word_out may change right after the sample edge of bit `i` of a word: i >= wo_lo keeps the change >= 4 cycles after
    # the previous word boundary even at half period 1, i <= wo_hi keeps it >= 2 cycles before the word's last sample edge
    wo_lo = 1 if hbase <= 2 else 0
    wo_hi = ws - 3 if ws >= 3 else 0
    script = []
    budget = rng.randint(2500, 4500)
    used = 0
    while (used < budget and len(script) < 14) or len(script) < 3:
        r = rng.random()
        nwords = 1 if r < 0.3 else 2 if r < 0.55 else 3 if r < 0.75 else rng.randint(4, 5)
        partial = rng.randint(1, ws - 1) if (ws >= 2 and rng.random() < 0.22) else 0
        if partial and rng.random() < 0.3:
            nwords = 0 if rng.random() < 0.5 else nwords
        if not partial and rng.random() < 0.06:
            nwords = 0          # CS pulse without a single clock
        t = {"words": [word_value() for _ in range(nwords)], "partial": partial,
             "cs2clk": rng.choice([1, 1, 2, 3, rng.randint(1, 6)]), "clk2cs": rng.choice([1, 1, 2, 3, rng.randint(1, 6)]),
             "gap": rng.choice([1, 1, 2, 3, 4, rng.randint(1, 10)]),
             "foreign": rng.randint(1, 2 * ws + 3) if rng.random() < 0.3 else 0,
             "wo0": word_value() if rng.random() < 0.8 else None,
             "wo": [(word_value(), rng.randint(wo_lo, wo_hi)) if (wo_hi >= wo_lo and rng.random() < 0.75) else None
                    for _ in range(nwords + 1)]}
        script.append(t)
        used += (nwords * ws + partial + t["foreign"]) * 2 * (hbase + 1) + 20
    res.desc = {"word_size": ws, "cpol": cpol, "cpha": cpha, "msb_first": msb, "cs_idles_high": cs_high_idle, "half": hbase,
                "transactions": [{"words": ["%#x" % w for w in t["words"]], "partial": t["partial"], "cs2clk": t["cs2clk"],
                                  "clk2cs": t["clk2cs"], "gap": t["gap"], "foreign": t["foreign"]} for t in script[:5]],
                "n_transactions": len(script)}
    res.sig(ws, cpol, cpha, msb, cs_high_idle, hbase, script)

    # ---------------------------------------------------------------- reference monitor
    st = {"prev_sck": cpol, "sel": False, "bits": [], "widx": 0, "pending": [], "dead": False, "quiet": 0,
          "tx": None, "tx_ok": False, "wo_prev": 0, "wo_change": -10, "latch_watch": [], "aborted_prev": False,
          "multi_judged": False, "first_cycle": True}

    def tfail(mech, detail, word_index=None):
        """violation inside a transaction: report once, stop judging until things are quiet again"""
        if word_index is None:
            word_index = st["widx"]
        res.violation(mech, "cyc=%d ws=%d cpol=%d cpha=%d msb=%d cs_idles_high=%d word_index=%d: %s"
                      % (b.cycle, ws, cpol, cpha, msb, cs_high_idle, st["widx"], detail))
        st["dead"] = True
        st["pending"] = []
        st["quiet"] = 0

    def to_word(bits):
        v = 0
        for i, x in enumerate(bits):
            v |= x << ((ws - 1 - i) if msb else i)
        return v

    def monitor(b):
        sck, sdi, sdo, cs, win, wout, wc = (b.get(s) for s in (spi.sck, spi.sdi, spi.sdo, spi.cs, dut.word_in, dut.word_out, dut.word_complete))
        c = b.cycle
        if wout != st["wo_prev"]:
            st["wo_change"] = c
            st["wo_prev"] = wout
            # a change right after a latch point makes that word's SDO expectation ambiguous
            for lw in st["latch_watch"]:
                if c <= lw[0] + 3:
                    lw[1]["ok"] = False
        st["latch_watch"] = [lw for lw in st["latch_watch"] if c <= lw[0] + 3]
        sel = (cs == cs_on)
        edge = (sck != st["prev_sck"])
        st["prev_sck"] = sck

        if st["dead"]:
            # resume after a quiet deselected stretch
            if not sel and not wc:
                st["quiet"] += 1
                if st["quiet"] >= 4:
                    st["dead"] = False
                    st["sel"] = False
                    st["bits"] = []
                    st["pending"] = []
            else:
                st["quiet"] = 0
            if st["dead"]:
                res.unjudged += 1
                return

        def latch_tx():
            ok = (c - st["wo_change"]) >= 2
            txd = {"ok": ok, "value": wout}
            st["latch_watch"].append((c, txd))
            st["tx"] = txd

        if sel and not st["sel"]:
            # CS asserted: new transaction
            st["bits"] = []
            st["widx"] = 0
            res.event("transactions")
            latch_tx()
            if st["aborted_prev"]:
                res.bin("transaction_after_abort")
        if not sel and st["sel"]:
            if not st["bits"] and st["widx"] == 0:
                res.bin("cs_pulse_without_clock")
            st["aborted_prev"] = bool(st["bits"])
            if st["bits"]:
                res.bin("abort_partial_word")
            st["bits"] = []
        st["sel"] = sel

        if edge and sel and st.get("boundary") is not None:
            d = c - st["boundary"]
            st["boundary"] = None
            if d <= 2:
                res.bin("word_boundary_next_edge_after_%d" % d)
                if cpha == 1 and st["tx"]["ok"]:
                    res.bin("sdo_judged_word_boundary_next_edge_after_%d" % d)
        if not sel:
            st["boundary"] = None
        if edge:
            leading = (sck != cpol)
            is_sample = leading if cpha == 0 else (not leading)
            if not sel:
                if is_sample:
                    res.bin("foreign_clock_while_deselected")
            elif is_sample:
                res.event("sample_edges")
                k = len(st["bits"])
                # --- SDO
                if cpha == 1:
                    if st["tx"]["ok"]:
                        # transmit order = the configured bit order (MSB first unless msb_first=False)
                        exp = (st["tx"]["value"] >> ((ws - 1 - k) if msb else k)) & 1
                        res.event("sdo_bits_checked")
                        res.bin("sdo_judged_msb_first" if msb else "sdo_judged_lsb_first")
                        if st["widx"] >= 1:
                            res.bin("sdo_word_ge1_judged")
                        if sdo != exp:
                            mech = "sdo_wrong_bit_first_word" if st["widx"] == 0 else "sdo_wrong_bit_later_word"
                            tfail(mech, "bit %d of word: sdo=%d expected=%d (word_out presented=%#x)" % (k, sdo, exp, st["tx"]["value"]))
                            return
                    else:
                        res.unjudged += 1
                else:
                    res.unjudged += 1
                # --- receive
                st["bits"].append(sdi)
                if len(st["bits"]) == ws:
                    st["pending"].append((c, to_word(st["bits"]), st["widx"]))
                    res.event("words_expected")
                    if st["widx"] >= 1:
                        res.bin("multiword_pow2" if _pow2(ws) else "multiword_non_pow2")
                    st["bits"] = []
                    st["widx"] += 1
                    latch_tx()
                    st["boundary"] = c
        # --- word_complete
        if wc:
            if not st["pending"]:
                tfail("word_complete_without_full_word", "word_complete=1 (word_in=%#x) with no complete word outstanding; %d bits of the current word received"
                      % (win, len(st["bits"])))
                return
            c0, exp, idx = st["pending"].pop(0)
            res.event("words_reported_checked")
            if idx >= 1:
                st["multi_judged"] = True
            if idx >= 2 and _pow2(ws):
                res.bin("third_word_reported_pow2")
            if win != exp:
                rev = int(("{:0%db}" % ws).format(exp)[::-1], 2)
                mech = "word_in_bit_order_reversed" if win == rev and rev != exp else "word_in_wrong_bits"
                tfail(mech, "word %d reported %#x expected %#x" % (idx, win, exp), idx)
                return
        elif not st["pending"]:
            res.event("quiet_cycles_checked")
        if st["pending"] and c - st["pending"][0][0] > WINDOW:
            c0, exp, idx = st["pending"][0]
            mech = "word_complete_missing_first_word" if idx == 0 else "word_complete_missing_later_word"
            tfail(mech, "word %d (%#x) completed by the sample edge at cycle %d was not reported within %d cycles" % (idx, exp, c0, WINDOW), idx)
            return

    # ---------------------------------------------------------------- host driver
    def wait(n):
        for _ in range(n):
            yield

    def clock_bit(v, on_sample=None):
        """one SCK period inside a transaction (or foreign traffic); SDI legal for the mode"""
        h1, h2 = half(), half()
        if cpha == 0:
            k = rng.randint(0, h1 - 1)          # SDI changes k cycles into the idle half, >= 1 cycle before the leading edge
            yield from wait(k)
            b.set(spi.sdi, v)
            yield from wait(h1 - k)
            b.set(spi.sck, 1 - cpol)            # leading edge = sample
            if on_sample:
                on_sample()
            yield from wait(h2)
            b.set(spi.sck, cpol)                # trailing edge
        else:
            yield from wait(h1)
            b.set(spi.sck, 1 - cpol)            # leading edge = shift
            k = rng.randint(0, h2 - 1)
            yield from wait(k)
            b.set(spi.sdi, v)
            yield from wait(h2 - k)
            b.set(spi.sck, cpol)                # trailing edge = sample
            if on_sample:
                on_sample()

    def bits_of(word):
        return [(word >> ((ws - 1 - i) if msb else i)) & 1 for i in range(ws)]

    def driver():
        b.set(spi.sck, cpol)
        b.set(spi.cs, cs_off)
        b.set(spi.sdi, 0)
        b.set(dut.word_out, word_value())
        yield from wait(rng.randint(3, 8))
        for t in script:
            # deselected phase: optional foreign traffic, optional new word_out (early enough)
            if t["wo0"] is not None:
                b.set(dut.word_out, t["wo0"])
            if t["foreign"]:
                for _ in range(t["foreign"]):
                    yield from clock_bit(rng.randint(0, 1))
                yield from wait(2)
            yield from wait(max(t["gap"], 3 if t["wo0"] is not None else 1))
            if t["gap"] == 1 and t["wo0"] is None and not t["foreign"]:
                res.bin("cs_gap_1")
            b.set(spi.cs, cs_on)
            if t["cs2clk"] == 1:
                res.bin("cs_to_clock_1")
            if cpha == 0:
                # clock_bit() adds the idle half itself; cs2clk extra cycles before it
                yield from wait(t["cs2clk"] - 1)
            else:
                yield from wait(max(0, t["cs2clk"] - 2))
            nb = 0
            words = t["words"] + ([rng.getrandbits(ws)] if t["partial"] else [])
            for wi, w in enumerate(words):
                bl = bits_of(w)
                if wi == len(t["words"]):
                    bl = bl[:t["partial"]]
                change = t["wo"][wi] if wi < len(t["wo"]) else None
                for bi, bit in enumerate(bl):
                    yield from clock_bit(bit)
                    if change is not None and bi == change[1] and bi <= ws - 2:
                        # right after this bit's trailing edge; far enough (>= 3 cycles) from the word's last sample edge
                        b.set(dut.word_out, change[0])
                        res.bin("word_out_changed_inside_transaction")
            if t["clk2cs"] == 1:
                res.bin("clock_to_cs_1")
            yield from wait(t["clk2cs"])
            b.set(spi.cs, cs_off)
        yield from wait(WINDOW + 6)

    b.add_monitor(monitor)
    b.add_driver(driver())
    b.run()
    if st["pending"] and not st["dead"]:
        res.violation("word_complete_missing_later_word", "end of case with %d words never reported" % len(st["pending"]))
    res.cycles = b.cycle
    res.nontrivial = st["multi_judged"]
