"""C19 — USB2 reset, high-speed handshake and suspend follow the line-state timing rules.

DUT: the real luna.gateware.usb.usb2.reset.USBResetSequencer, stand-alone, with its real 60 MHz constants (nothing is
scaled; one case simulates 0.2 - 1.2 M cycles).  amaranth.sim.Simulator is used directly (the Bench samples every
signal every cycle, which is 2-3x too slow for 3 ms timers): one driver testbench counts the clock edges in Python
and applies the stimulus, one background testbench wakes on `ctx.changed(outputs)` and time-stamps every output
change with the driver's edge counter (calibrated: a value stamped T is the value *during* the clock period that
follows edge T; an input set at T is first seen by the flip-flops at edge T+1).  Inputs and outputs become
piecewise-constant traces; all judging is done after the simulation on these traces.

Workload (reactive and seeded; the driver only looks at the DUT outputs to find out *where* it is, e.g. "the device chirp
has ended", never to decide what is correct).  Two families of sessions:
  playground  FS-only / LS-only device (30 %, half of them LS): SE0 pulses around 2.5 us and 5 us (147..153, 296..304, halves, split by 1-3
              cycle glitches), restriction released / re-asserted 0-6 cycles around the reset decision, VBUS loss, soft
              disconnect, 3 ms idle in the variants plain / split by a glitch / preceded by 10-80 k cycles of a non-idle
              state (K, SE1, the J of the other speed) / 1..10 cycles short + glitch / 3 ms of a non-idle state only, SE0
              pulses around 2.5 us while suspended (glitches that are not a resume K), resume, reset out of suspend.
  hs          HS-capable device (70 %), one of the plans
              resume_then_fs_suspend  handshake, 3 ms SE0 at HS, 200 us window ending in J -> HS suspend, SE0 pulses, resume to
                                      HS, drop to FS (restriction / VBUS), FS suspend + resume (a stale "was high speed"
                                      flag would re-enter HS here)
              hs_reset_chain          handshake (40 %: every completing J exactly 152 cycles, so that the line is SE0 from the first
                                      HS cycle on and nothing restarts a timer), 3 ms SE0 (exact, 1..10 short + glitch, or split), window ending in SE0 / K /
                                      SE1 / a J that disappears 2..12 cycles before the decision, restriction asserted inside
                                      the window (45 %), next handshake, possibly once more
              timeout                 handshake whose train holds at most two valid pairs plus junk; at the 2.5 ms deadline the
                                      device is on purpose either waiting for a K / J or 1..151 cycles into timing one;
                                      optionally a second reset + handshake (stale pair count)
              handshake_exits         two handshakes with bus_busy around the chirp start, restriction toggles during the
                                      device chirp, line K / SE0 / J during the chirp; HS left by restriction pulses of 1, 2, 3, n
                                      cycles, VBUS loss, soft disconnect
              suspend_reset           HS suspend, SE0 pulses around 2.5 us, reset out of suspend (restricted or not)
              walk                    budgeted random walk over all of the above
              Host chirp trains: gap, 0-2 good pairs (states 152..3000 cycles), then 1-4 repetitions of hostile material
              (K or J of 144..149 / 100..149 / 1..40 cycles, states split in two <150 parts by a 1-3 cycle glitch, SE0 between
              K and J, J J), then good pairs.

Oracle (independent reference; constants from USB 2.0 7.1.7.5/7.1.7.6 in 60 MHz cycles: 2.5 us = 150, 5 us = 300,
200 us = 12 000, 1 ms = 60 000, 2.5 ms = 150 000, 3 ms = 180 000; UTMI encodings XcvrSelect 0/1/2 = HS/FS/LS, OpMode
0/1/2 = normal/non-driving/chirp, LineState 0/1/2 = SE0/J/K):
  * every clock period with bus_reset = 1 must be justified: VBUS absent, or (suspended) >= 150 periods of continuous
    SE0, or (FS/LS, not suspended) >= 300, or (just dropped out of HS operation without restriction / disconnect /
    VBUS loss) >= 180 000 periods of SE0 up to the drop, >= 12 000 periods since the drop and a line that is not J now;
  * suspended may rise only after >= 180 000 periods of continuous idle (idle per current_speed: SE0 at HS, J at FS,
    LS-J at LS) ending now, or ending where HS operation was left <= 12 000 periods ago;
  * HS operation (current_speed HIGH and operating_mode NORMAL) may begin only (a) at the end of a chirp-mode episode that
    began with a bus_reset, contains a device chirp K (tx.valid, tx.data 0) of >= 1 ms and, after that chirp, in order
    K,J,K,J,K,J line states of >= 150 continuous periods each (anything may lie between them — the weakest reading of "three
    pairs whose every state lasted 2.5 us"), or (b) when `suspended` falls, for a suspend that was entered <= 12 000
    periods after HS operation;
  * chirp mode must not begin when full_speed_only | low_speed_only was asserted during all of the 5 periods before it;
  * HS operation and a restriction must not coexist for 3 consecutive periods ("leaves within two cycles");
  * chirp mode ends no later than 150 000 + 64 periods after the end of the device chirp, and it ends in HS operation or in
    normal mode at FS/LS.
  * termination_select = 0 (HS termination) for 3+ periods in chirp mode or in FS/LS normal mode is high speed without a
    completed handshake / after the fall-back (allowed only in HS operation and while non-driving); a fall-back must end
    with FS/LS termination;
  * LOW vs FULL: where the speed is (re)decided — power-up, fall-back out of chirp mode, HS left by restriction or VBUS loss,
    restricted reset out of the HS-detect window, release of a soft disconnect — current_speed must be LOW iff low_speed_only,
    judged only when low_speed_only was constant from 2 periods before to 3 after that point.
Audit additions to the workload: low_speed_only / full_speed_only / both inside the HS-detect window with a reset outcome
(hs_reset_chain 32 % of the HS plans, window restricted in 75 %), both restrictions together from power-up, a short soft
disconnect with SE0 laid across its release (no reset may follow: the timers restart), disconnect requests while suspended
and during the handshake, bus_busy at HS, and 45 % of the playground sessions elaborated on a platform object with
ignore_phy_vbus = True (VBUS input ignored; the judge then treats VBUS as present).
All comparisons allow the decision to be registered up to 3-4 periods later than in the current implementation, but never
allow a shorter duration than the statement gives.

Deviations from DESIGN.md section 7: HS operation is taken as HIGH + NORMAL (termination not required; more sensitive); the
Bench is not used (speed); 80 instead of ~120 quick cases because one case averages 0.46 M cycles; the 1 ms minimum of the
device chirp and the "ends in FS/LS normal mode" clause are added from USB 2.0 7.1.7.5.

Finding on the unchanged tree (known_findings.d/C19.json, findings/C19.md): `chirp_started_while_restricted_after_hs_reset`
— DETECT_HS_SUSPEND goes to START_HS_DETECTION without looking at full_speed_only / low_speed_only.

Mutation testing (tools/mut.py-style scratch copies, 93 repository tests green unless noted, quick tier exit 1 for all):
valid_pairs == 1; chirp minimum 150 -> 30; FS reset at 2.5 us (also killed by test_full_speed_reset); FS reset at 297; K / J
continuity of a chirp state not enforced (2); valid_pairs not cleared at the chirp end; was_hs_pre_suspend not cleared at an FS
suspend; suspend-reset and FS-reset start the chirp for an LS-only device (2); HS ignores low_speed_only; HS left one cycle late
(registered restriction); FS SE0 timer cleared by J only; HS SE0 timer cleared by J only; LS idle encoding swapped; suspend at
2 ms; HS window 100 us; HS window J test inverted; HS SE0 2 ms; suspend reset at 100 cycles; FS idle timer cleared by SE0 only;
2.5 ms time-out dropped in AWAIT_HOST_K / IN_HOST_K / AWAIT_HOST_J / IN_HOST_J (4); timer not cleared on HS entry; idle timer
not cleared on the fall-back to FS.

Not judged: that a valid host chirp / a 3 ms idle / a long SE0 *does* lead to HS / suspend / reset (the statement only says
"only"; the bins hs_via_chirp, suspend_*, reset_* are REQUIRED so that a device that never does it makes the run
inconclusive); what ends a suspend; the length of the device chirp beyond the 1 ms minimum of USB 2.0; bus_busy longer
than 300 cycles; "200 us of non-idle" is read as "200 us have passed and the line is not idle when the decision is taken"
(luna samples once); analogue truth of the line (time is counted in clock periods).
"""
from bisect import bisect_right

PROPERTY = "C19"
CASES = {"quick": 80, "thorough": 1600}
TIMEOUT = {"quick": 1500, "thorough": 6 * 3600}
RULE = ("case = one reactive session of 0.2-0.9 M cycles on the real-constant USBResetSequencer: FS/LS-only playground or one "
        "of six HS plans (resume+FS suspend, HS reset chain, handshake time-out, handshake exits, suspend reset, random walk); "
        "durations drawn around 150/300/12000/150000/180000 cycles, 1-3 cycle glitches, restriction / VBUS / disconnect / "
        "bus_busy toggles; non-trivial = >= 2 judged bus resets and one judged handshake, HS entry, suspend entry or restricted reset; "
        "distinct = hash of all input changes")
REQUIRED_BINS = [
    "reset_vbus_absent", "reset_fs_5us", "reset_suspended_2p5us", "reset_hs_3ms_200us",
    "se0_just_below_5us_no_reset", "se0_split_by_glitch", "se0_just_below_2p5us_suspended",
    "hs_via_chirp", "hs_via_resume", "train_state_just_below_2p5us", "train_state_split_by_glitch",
    "train_two_pairs_then_junk", "handshake_timeout_fallback",
    "suspend_fs", "suspend_hs", "non_idle_3ms_no_suspend", "non_idle_3ms_no_suspend_ls",
    "restriction_at_hs", "restriction_in_hs_detect_window",
    "reset_while_restricted", "restriction_toggled_near_reset", "hs_window_j_at_decision",
    "hs_se0_split", "fs_suspend_after_hs_suspend", "disconnect_used", "bus_busy_used", "vbus_loss_at_hs",
    "lso_in_hs_detect_window_reset", "fso_in_hs_detect_window_reset", "fso_and_lso_together", "se0_across_disconnect_release",
    "disconnect_request_while_suspended", "disconnect_request_during_handshake", "bus_busy_outside_chirp_preparation",
    "speed_selected_low", "speed_selected_full", "platform_ignore_phy_vbus",
]
REQUIRED_EVENTS = ["output_changes", "bus_reset_periods_judged", "hs_entries_judged", "suspend_entries_judged",
                   "chirp_mode_starts_judged", "chirp_mode_ends_judged", "hs_restriction_runs_judged",
                   "device_chirps_measured", "train_states_scanned", "timestamp_calibrations",
                   "hs_termination_runs_judged", "speed_selections_judged"]
ASSUMPTIONS = [
    "time is counted in 60 MHz clock periods; line_state is an ideal, synchronous input",
    "bus_busy is asserted for at most 300 cycles at a time",
    "'200 us of non-idle' is read as: >= 200 us since HS operation was left and the line is not J when the reset is reported",
    "three K-J pairs = K,J,K,J,K,J states of >= 150 continuous periods in this order after the device chirp; other states may lie between",
    "a device chirp K is tx.valid with tx.data = 0 in chirp mode for >= 1 ms (USB 2.0 TUCH)",
    "the only-if direction is judged; that HS / suspend / reset do happen is demanded through required bins",
    "LOW vs FULL is judged only at the points where the speed is (re)decided and only when low_speed_only is constant around them; "
    "between those points idle is defined by the device's own current_speed",
    "the USBDevice wiring of the sequencer (device.py) is not elaborated: 0.2-0.9 M cycles per case are out of reach at 8 k cycles/s",
]
LEVEL_NOTE = "event-driven monitoring of the real-constant sequencer; 0.2-1.2 M cycles per case"

# ------------------------------------------------------------------------------------------- constants (spec)
T_2P5US, T_5US, T_200US, T_1MS, T_2MS, T_2P5MS, T_3MS = 150, 300, 12000, 60000, 120000, 150000, 180000
SE0, FS_J, FS_K, SE1 = 0, 1, 2, 3
SPD_HS, SPD_FS, SPD_LS = 0, 1, 2
OP_NORMAL, OP_NONDRIVING, OP_CHIRP = 0, 1, 2
SLACK = 4                 # periods a decision may lag behind the current implementation
MAX_CYCLES = 1_250_000


def idle_state(speed):
    return SE0 if speed == SPD_HS else FS_J if speed == SPD_FS else FS_K      # LS-J has the encoding of FS-K


# ------------------------------------------------------------------------------------------- traces

class Trace:
    """Piecewise-constant signal over clock periods: value v[i] holds in periods t[i] .. t[i+1]-1."""
    __slots__ = ("t", "v")

    def __init__(self, v0):
        self.t = [0]
        self.v = [v0]

    def add(self, t, v):
        if t == self.t[-1]:
            self.v[-1] = v
            if len(self.v) > 1 and self.v[-2] == v:
                self.t.pop(); self.v.pop()
        elif v != self.v[-1]:
            self.t.append(t); self.v.append(v)

    def at(self, t):
        i = bisect_right(self.t, t) - 1
        return self.v[i if i >= 0 else 0]

    def runs(self, t0, t1):
        """(a, b, v) pieces covering [t0, t1)."""
        if t1 <= t0:
            return
        i = max(0, bisect_right(self.t, t0) - 1)
        n = len(self.t)
        while i < n and self.t[i] < t1:
            a = max(self.t[i], t0)
            b = min(self.t[i + 1] if i + 1 < n else t1, t1)
            if b > a:
                yield a, b, self.v[i]
            i += 1

    def run_before(self, t, pred):
        """number of consecutive periods t-1, t-2, ... for which pred(value) holds."""
        if t <= 0:
            return 0
        i = max(0, bisect_right(self.t, t - 1) - 1)
        if not pred(self.v[i]):
            return 0
        while i > 0 and pred(self.v[i - 1]):
            i -= 1
        return t - self.t[i]

    def any_in(self, t0, t1, pred):
        """pred holds in at least one period of [t0, t1] (inclusive)."""
        for _a, _b, v in self.runs(max(t0, 0), t1 + 1):
            if pred(v):
                return True
        return False

    def all_in(self, t0, t1, pred):
        for _a, _b, v in self.runs(max(t0, 0), t1 + 1):
            if not pred(v):
                return False
        return True

    def true_runs(self, end, pred=bool):
        """maximal [a, b) with pred; an episode still open at `end` is returned with b = None."""
        out = []
        start = None
        for a, b, v in self.runs(0, end):
            if pred(v):
                if start is None:
                    start = a
            elif start is not None:
                out.append((start, a))
                start = None
        if start is not None:
            out.append((start, None))
        return out


def combine(f, *traces):
    times = sorted(set().union(*[tr.t for tr in traces]))
    out = Trace(f(*[tr.at(0) for tr in traces]))
    for t in times[1:]:
        out.add(t, f(*[tr.at(t) for tr in traces]))
    return out


def max_run_ending_in(trace, t0, t1, pred):
    """largest run_before(t') for t' in [t0, t1]."""
    best = 0
    for tt in range(max(t0, 0), t1 + 1):
        r = trace.run_before(tt, pred)
        if r > best:
            best = r
    return best


def count_valid_pairs(line, t0, t1, minimum=T_2P5US):
    """Greedy scan of the line-state runs in [t0, t1): K>=min, J>=min, K>=min ... ; returns (pairs, states scanned)."""
    want, pairs, n = FS_K, 0, 0
    for a, b, v in line.runs(t0, t1):
        n += 1
        if v == want and b - a >= minimum:
            if want == FS_K:
                want = FS_J
            else:
                want = FS_K
                pairs += 1
    return pairs, n


# ------------------------------------------------------------------------------------------- driver

class StopScenario(Exception):
    pass


class Drv:
    """Stimulus side.  Keeps the edge counter T, the input traces and the latest outputs (filled in by the monitor)."""

    IN = ("line", "vbus", "fso", "lso", "disc", "busy")

    def __init__(self, ctx, dut, rng, res, sig):
        self.ctx, self.dut, self.rng, self.res = ctx, dut, rng, res
        self.sig = sig
        self.T = 0
        self.inp = {k: Trace(0) for k in self.IN}
        self.val = {k: 0 for k in self.IN}
        self.out = None          # latest outputs as dict (monitor)
        self.steps = []
        self.tick = None
        self.marks = {}          # name -> [T, ...]  (workload annotations for bins)

    # ---- primitive steps
    def set(self, name, v):
        v = int(v)
        if self.val[name] == v:
            return
        self.val[name] = v
        self.ctx.set(self.sig[name], v)
        self.inp[name].add(self.T, v)
        self.res.sig(self.T, name, v)
        if len(self.steps) < 60:
            self.steps.append([self.T, name, v])

    async def wait(self, n, force=False):
        t = self.T
        if t + n > MAX_CYCLES and not force:
            raise StopScenario()
        nxt = self.tick.__anext__
        for _ in range(n):
            await nxt()
            t += 1
            self.T = t

    async def until(self, pred, bound):
        """wait until pred(self.out) (checked once per cycle); False when `bound` cycles passed without it."""
        t = self.T
        if t + bound > MAX_CYCLES:
            raise StopScenario()
        nxt = self.tick.__anext__
        for _ in range(bound):
            if pred(self.out):
                return True
            await nxt()
            t += 1
            self.T = t
        return pred(self.out)

    async def line(self, v, n):
        self.set("line", v)
        if n > 0:
            await self.wait(n)

    def mark(self, name):
        self.marks.setdefault(name, []).append(self.T)

    # ---- views of the DUT used for navigation only
    def speed(self):
        return self.out["speed"]

    def idle(self):
        return idle_state(self.out["speed"])

    def in_chirp_mode(self):
        return self.out["op"] == OP_CHIRP

    def hs_op(self):
        return self.out["speed"] == SPD_HS and self.out["op"] == OP_NORMAL

    def restricted(self):
        return bool(self.val["fso"] or self.val["lso"])


def p_chirp_mode(o): return o["op"] == OP_CHIRP
def p_not_chirp_mode(o): return o["op"] != OP_CHIRP
def p_dev_chirp(o): return bool(o["txv"])
def p_no_dev_chirp(o): return not o["txv"]
def p_hs(o): return o["speed"] == SPD_HS and o["op"] == OP_NORMAL
def p_not_hs(o): return not (o["speed"] == SPD_HS and o["op"] == OP_NORMAL)
def p_susp(o): return bool(o["susp"])
def p_not_susp(o): return not o["susp"]


def near(rng, thr, spread=3):
    return thr + rng.randint(-spread, spread)


# ------------------------------------------------------------------------------------------- scenario pieces

async def connect(d, mode):
    rng = d.rng
    d.set("fso", mode in ("fs", "both"))
    d.set("lso", mode in ("ls", "both"))
    d.set("line", FS_K if mode in ("ls", "both") else FS_J)
    d.set("vbus", 0)
    await d.calibrate(1)                 # harness self-check (3 cycles), after the power-up inputs are in place
    await d.wait(rng.randint(1, 60))
    d.set("vbus", 1)
    await d.wait(rng.randint(5, 300))


async def glitch(d, avoid, avoid2=None):
    """1-3 cycles of a line state different from `avoid` (and `avoid2`)."""
    rng = d.rng
    v = rng.choice([x for x in (SE0, FS_J, FS_K, SE1) if x != avoid and x != avoid2])
    await d.line(v, rng.randint(1, 3))
    return v


async def se0_probes(d, n, thr, allow_reset):
    """SE0 pulses around the threshold `thr` (150 while suspended, 300 at FS/LS).  Without allow_reset every
    continuous SE0 stays below thr (the device must not report a reset)."""
    rng = d.rng
    for _ in range(n):
        if d.in_chirp_mode() or (thr == T_2P5US and not d.out["susp"]):
            return
        back = d.idle() if not d.out["susp"] else (FS_K if d.val["lso"] else FS_J)
        kind = rng.choice(["below", "below", "near", "half", "rand", "split", "split"])
        hi = thr - 1 if not allow_reset else thr + 60
        if kind == "below":
            L = thr - rng.randint(1, 3)
        elif kind == "near":
            L = min(hi, near(rng, thr))
        elif kind == "half":
            L = min(hi, near(rng, thr // 2))
        elif kind == "rand":
            L = rng.randint(1, hi)
        else:
            L = None
        if L is not None:
            if thr - 4 <= L < thr:
                d.mark("below_thr_%d" % thr)
            await d.line(SE0, L)
        else:
            a = rng.randint(thr // 2, thr - 1)
            b = rng.randint(thr - a + 1, thr - 1)
            d.mark("split_%d" % thr)
            resume_k = (FS_J if d.val["lso"] else FS_K) if d.out["susp"] else None     # a K would end the suspend
            await d.line(SE0, a)
            await glitch(d, SE0, resume_k)
            await d.line(SE0, b)
            if rng.random() < 0.3:
                await glitch(d, SE0, resume_k)
                await d.line(SE0, rng.randint(1, thr - 1))
        await d.line(back, rng.randint(3, 80))


async def restriction_games_near_reset(d):
    """FS/LS-only device: SE0 long enough for a reset while the restriction is released / asserted a few cycles around
    the decision.  If the restriction is really absent at the decision the device may legally start a handshake."""
    rng = d.rng
    which = "lso" if d.val["lso"] else "fso"
    d.mark("restr_toggle_near_reset")
    d.set("line", SE0)
    if rng.random() < 0.5:
        # release shortly before / after the decision point, re-assert a little later
        k = rng.randint(-3, 6)
        await d.wait(max(1, T_5US + k))
        d.set(which, 0)
        await d.wait(rng.randint(1, 4))
        d.set(which, 1)
        await d.wait(rng.randint(5, 40))
    else:
        # released early, asserted again shortly before / after the decision point
        k = rng.randint(-6, 2)
        d.set(which, 0)
        await d.wait(max(1, T_5US + k))
        d.set(which, 1)
        await d.wait(rng.randint(5, 40))
    await d.wait(8)
    if d.in_chirp_mode():
        await run_handshake(d, "valid")
        await leave_hs_if_needed(d)
    await d.line(d.idle(), rng.randint(5, 60))


async def leave_hs_if_needed(d):
    """after a handshake that was started around a restriction toggle: bring the device back to FS/LS."""
    rng = d.rng
    await d.wait(6)
    if d.hs_op():
        if not d.restricted():
            d.set("fso", 1)
        await d.wait(6)
    d.set("line", FS_J)
    await d.wait(rng.randint(4, 30))
    d.set("line", d.idle())
    await d.wait(4)


def make_train(rng, kind, fresh=False):
    """list of (line_state, duration) the host plays after the device chirp.  kind:
    valid    - first some hostile material (short states, glitches), then enough good pairs
    partial  - at most two pairs of >= 150 cycles plus junk (must not reach HS)"""
    def good():
        return rng.choice([rng.randint(152, 158), rng.randint(152, 158), rng.randint(159, 400), rng.randint(400, 3000)])

    def short():
        return rng.choice([rng.randint(144, 149), rng.randint(144, 149), rng.randint(100, 149), rng.randint(1, 40)])

    train = []
    marks = []
    if rng.random() < 0.7:
        train.append((rng.choice([SE0, SE0, FS_J]), rng.randint(1, 3000)))           # gap before the host answers
    n_good_first = rng.choice([0, 0, 1, 2, 2])
    hostile = rng.choice(["short_k", "short_j", "glitch_k", "glitch_j", "none", "se0_between", "jj", "short_all"])
    if kind == "partial":
        n_good_first = rng.choice([0, 1, 2, 2, 2])
    for _ in range(n_good_first):
        train += [(FS_K, good()), (FS_J, good())]
    if n_good_first == 2:
        marks.append("two_pairs_then_junk")
    # hostile material: nothing in it may be counted as a complete K or J state ... except where noted
    reps = rng.randint(1, 4)
    for _ in range(reps):
        if hostile == "short_k":
            train += [(FS_K, short()), (FS_J, good())]; marks.append("short_state")
        elif hostile == "short_j":
            train += [(FS_K, good()), (FS_J, short())]; marks.append("short_state")
        elif hostile == "short_all":
            train += [(FS_K, short()), (FS_J, short())]; marks.append("short_state")
        elif hostile == "glitch_k":
            a = rng.randint(60, 149); b = rng.randint(150 - a + 1, 149)
            train += [(FS_K, a), (rng.choice([SE0, FS_J, SE1]), rng.randint(1, 3)), (FS_K, b), (FS_J, good())]; marks.append("glitch_state")
        elif hostile == "glitch_j":
            a = rng.randint(60, 149); b = rng.randint(150 - a + 1, 149)
            train += [(FS_K, good()), (FS_J, a), (rng.choice([SE0, FS_K, SE1]), rng.randint(1, 3)), (FS_J, b)]; marks.append("glitch_state")
        elif hostile == "se0_between":
            train += [(FS_K, good()), (SE0, rng.randint(1, 200)), (FS_J, good())]
        elif hostile == "jj":
            train += [(FS_J, good()), (SE0, rng.randint(1, 20)), (FS_J, good())]
    if kind == "partial":
        # keep the number of >=150-cycle K..J pairs at two or below: cut the train where a third pair would complete
        out, want, pairs = [], FS_K, 0
        for v, n in train:
            if v == want and n >= T_2P5US:
                if want == FS_J and pairs == 2:
                    n = rng.randint(1, 149)
                    marks.append("short_state")
                elif want == FS_J:
                    pairs += 1; want = FS_K
                else:
                    want = FS_J
            out.append((v, n))
        train = out
        marks.append(("scan", want, pairs))                 # what a receiver of this train waits for at its end
    elif fresh:
        # every completing J is exactly as long as the device needs (152) and is followed by SE0: the line is SE0 from
        # the very cycle HS operation begins (the driver notices HS during the SE0 gap and stops the train)
        for _ in range(4):
            train += [(FS_K, rng.randint(152, 158)), (FS_J, 152), (SE0, 4)]
    else:
        for _ in range(4):
            train += [(FS_K, good()), (FS_J, good())]
    return train, marks


async def run_handshake(d, kind, busy=False, restr_games=True, fresh=False):
    """The device is in (or about to enter) chirp mode.  Plays line states during the device chirp and the host
    train afterwards.  Returns 'hs', 'fallback' or 'lost'."""
    rng = d.rng
    if not await d.until(p_chirp_mode, 400):
        return "lost"
    if busy:
        d.mark("busy")
        d.set("busy", 1)
        await d.wait(rng.randint(1, 300))
        d.set("busy", 0)
        if rng.random() < 0.3:
            await d.wait(1)
            d.set("busy", 1)
            await d.wait(rng.randint(1, 50))
            d.set("busy", 0)
    if not await d.until(p_dev_chirp, 800):
        return "lost"
    # what the device sees while it chirps: its own K, SE0, or something odd
    d.set("line", rng.choice([FS_K, FS_K, SE0, FS_J]))
    toggled = None
    if rng.random() < 0.2:
        await d.wait(rng.randint(5, 3000))
        await disc_pulse_ignored(d, "disc_in_handshake")
    if restr_games and rng.random() < 0.35:
        # restriction toggled while the handshake is in progress (cannot stop it; HS must be left at once if it is still on)
        await d.wait(rng.randint(10, 60000))
        toggled = rng.choice(["fso", "lso"])
        d.set(toggled, 1)
        d.mark("restr_in_handshake")
        if rng.random() < 0.6:
            await d.wait(rng.randint(1, 3000))
            d.set(toggled, 0)
            toggled = None
    await d.until(p_no_dev_chirp, T_2MS + 2000)
    if rng.random() < 0.5:
        d.set("line", SE0)
    train, marks = make_train(rng, kind, fresh)
    t_chirp_end = d.T
    scan = None
    for m in marks:
        if isinstance(m, tuple):
            scan = m
        else:
            d.mark(m)
    for v, n in train:
        if not d.in_chirp_mode():
            break
        await d.line(v, n)
    if kind == "partial":
        # no third pair before the 2.5 ms deadline (about t_chirp_end + 150 000).  What the device is doing *at* the
        # deadline is chosen on purpose: waiting for the next K / J, or in the middle of timing a K / J state.
        _s, want, pairs = scan
        other = FS_J if want == FS_K else FS_K
        d.set("line", rng.choice([SE0, SE0, other]))
        if rng.random() < 0.5 and d.in_chirp_mode():
            delta = rng.choice([rng.randint(1, 12), rng.randint(1, 151), rng.randint(140, 151)])
            n = t_chirp_end + T_2P5MS - 1 - delta - d.T
            if n > 0:
                await d.wait(n)
                if d.in_chirp_mode():
                    d.mark("timeout_in_state")
                    await d.line(want, rng.randint(160, 400))
                    if pairs < 2 and rng.random() < 0.5:
                        await d.line(other, rng.randint(160, 400))
                    d.set("line", SE0)
        await d.until(p_not_chirp_mode, T_2P5MS + 400)
        d.mark("timeout_wait")
    else:
        d.set("line", SE0)
        await d.until(p_not_chirp_mode, 2000)
    await d.wait(3)
    r = "hs" if d.hs_op() else "fallback"
    if toggled:
        await d.wait(rng.randint(3, 50))
        d.set(toggled, 0)
        d.set("line", FS_J)             # lets the device leave its "reset complete?" wait if it dropped to FS
        await d.wait(8)
        d.set("line", d.idle())
        r = "hs" if d.hs_op() else "fallback"
    return r


async def reset_from_fs(d):
    """plain bus reset of an active FS device (SE0 of 5 us +)."""
    rng = d.rng
    await d.line(SE0, T_5US + rng.randint(0, 40))


async def fs_suspend(d, variant=None):
    """3 ms of idle at FS/LS.  Returns True when the device reports suspend.  variant:
    plain         idle until suspended
    split         idle X, 1-3 cycle glitch, idle until suspended (X + rest >= 3 ms; each part shorter)
    wrong_prefix  X cycles of a state that is neither idle nor SE0 (K, SE1, the J of the other speed), then idle until suspended
    near          3 ms minus 1..10 cycles of idle, glitch, idle until suspended
    wrong_only    3 ms + of a non-idle, non-SE0 state: no suspend expected"""
    rng = d.rng
    idle = d.idle()
    if variant is None:
        variant = rng.choice(["plain", "split", "split", "split", "wrong_prefix", "wrong_prefix", "wrong_prefix"])
    other = [x for x in (FS_J, FS_K, SE1) if x != idle]
    other += [FS_J + FS_K - idle] * 3            # mostly the J of the other speed (= the K of this one)
    if variant == "wrong_only":
        d.mark("wrong_idle")
        await d.line(rng.choice(other), T_3MS + rng.randint(100, 800))
        got = bool(d.out["susp"])
        await d.line(idle, rng.randint(5, 100))
        return got
    if idle == FS_K and rng.random() < 0.5:
        # low speed: first 3 ms of the *other* speed's J (= LS K): must not suspend (idle is speed specific)
        d.mark("wrong_idle")
        await d.line(FS_J, T_3MS + rng.randint(100, 800))
        if d.out["susp"]:
            return True
    if variant in ("near", "split"):
        await glitch(d, idle)                                            # known starting point for the idle timer
    if variant == "near":
        d.mark("idle_near")
        await d.line(idle, T_3MS - rng.randint(1, 10))
        await glitch(d, idle)
    elif variant == "split":
        d.mark("idle_split")
        await d.line(idle, rng.choice([rng.randint(10000, 60000), rng.randint(10000, 60000), rng.randint(60000, 130000)]))
        await glitch(d, idle)
        if rng.random() < 0.3:
            await d.line(idle, rng.randint(10000, 50000))
            await glitch(d, idle)
    elif variant == "wrong_prefix":
        d.mark("wrong_prefix")
        await d.line(rng.choice(other), rng.randint(10000, 80000))
    d.set("line", idle)
    return await d.until(p_susp, T_3MS + 200)


async def suspended_games(d, leave):
    """SE0 pulses around 2.5 us while suspended, then leave by 'resume' or 'reset'."""
    rng = d.rng
    await d.wait(rng.randint(1, 300))
    if rng.random() < 0.35:
        await disc_pulse_ignored(d, "disc_in_suspend")
    await se0_probes(d, rng.randint(2, 5), T_2P5US, allow_reset=False)
    if not d.out["susp"]:
        return
    if leave == "resume":
        k = FS_K if not d.val["lso"] else FS_J       # resume K of the speed the device is restricted to
        await d.line(k, rng.randint(1, 400))
        await d.until(p_not_susp, 50)
    else:
        await d.line(SE0, T_2P5US + rng.randint(0, 30))
        await d.until(p_not_susp, 50)


async def disconnect_with_se0(d):
    """short soft disconnect; the line goes SE0 while the device is still disconnected and stays SE0 across the release for
    less than 5 us in total after the release: no reset may be reported (timers must restart when the device re-initialises)."""
    rng = d.rng
    d.mark("disconnect")
    d.set("line", rng.choice([FS_J, FS_K]) if d.hs_op() else d.idle())
    await d.wait(2)
    t0 = d.T
    d.set("disc", 1)
    hold = rng.randint(1, 60)
    s = rng.randint(1, 150)
    L = T_5US - s + rng.randint(5, 40)
    for t, fn in sorted([(hold, lambda: d.set("disc", 0)), (s, lambda: (d.set("line", SE0), d.mark("se0_across_disconnect_release")))],
                        key=lambda x: x[0]):
        n = t0 + t - d.T
        if n > 0:
            await d.wait(n)
        fn()
    n = t0 + s + L - d.T
    if n > 0:
        await d.wait(n)
    d.set("line", FS_J)
    await d.wait(rng.randint(20, 200))
    d.set("line", d.idle())
    await d.wait(10)


async def disc_pulse_ignored(d, mark):
    """a soft-disconnect request in a state where the sequencer does not act on it (suspended, handshake)."""
    rng = d.rng
    d.mark(mark)
    d.set("disc", 1)
    await d.wait(rng.randint(1, 300))
    d.set("disc", 0)


async def hs_games(d):
    """things that happen at high speed and do not end it: squelch with traffic-like activity."""
    rng = d.rng
    d.set("line", SE0)
    await d.wait(rng.randint(20, 3000))
    for _ in range(rng.randint(0, 4)):
        await d.line(rng.choice([FS_J, FS_K]), rng.randint(1, 40))
        await d.line(SE0, rng.randint(1, 2000))
    if rng.random() < 0.3:
        d.mark("busy_elsewhere")
        d.set("busy", 1); await d.wait(rng.randint(1, 200)); d.set("busy", 0)


async def hs_exit(d, how, prefer_ls=False):
    """leave high speed by restriction pulse, VBUS loss or soft disconnect; ends at FS/LS with an idle line.
    prefer_ls: use low_speed_only and hold it for >= 3 cycles, so that the device ends up at low speed."""
    rng = d.rng
    if how == "restrict":
        which = "lso" if prefer_ls else rng.choice(["fso", "fso", "lso"])
        d.mark("restr_at_hs")
        d.set(which, 1)
        await d.wait(rng.randint(6, 200) if prefer_ls else rng.choice([1, 1, 2, 3, rng.randint(4, 200)]))
        if rng.random() < 0.7:
            d.set(which, 0)
        await d.wait(rng.randint(1, 100))
        if d.hs_op():
            # a 1-cycle restriction is enough per the statement; if the device is still at HS give it a long one
            d.set(which, 1)
            await d.wait(8)
            d.set(which, 0)
    elif how == "vbus":
        d.mark("vbus_at_hs")
        d.set("vbus", 0)
        await d.wait(rng.randint(1, 100))
        d.set("line", FS_J)
        await d.wait(rng.randint(1, 100))
        d.set("vbus", 1)
    elif rng.random() < 0.5:
        await disconnect_with_se0(d)
    else:
        d.mark("disconnect")
        d.set("line", rng.choice([FS_J, FS_K]))
        d.set("disc", 1)
        await d.wait(rng.randint(1, 500))
        d.set("disc", 0)
        await d.wait(T_2P5US + 20)
    d.set("line", FS_J)
    await d.wait(rng.randint(4, 60))
    d.set("line", d.idle())
    await d.wait(rng.randint(4, 60))


async def hs_three_ms(d, split):
    """3 ms of SE0 at high speed; returns True when the device dropped out of HS operation."""
    rng = d.rng
    await d.line(rng.choice([FS_J, FS_K]), rng.randint(1, 3))        # restart the device's SE0 timer: known starting point
    if split:
        d.mark("hs_se0_split")
        await d.line(SE0, rng.randint(70000, 130000))
        await d.line(rng.choice([FS_J, FS_K]), rng.randint(1, 3))
        await d.line(SE0, rng.randint(60000, 110000))
        await d.line(rng.choice([FS_J, FS_K]), rng.randint(1, 3))
    elif rng.random() < 0.5:
        d.mark("hs_se0_split")
        await d.line(SE0, T_3MS - rng.randint(1, 10))
        await d.line(rng.choice([FS_J, FS_K]), rng.randint(1, 3))
    d.set("line", SE0)
    return await d.until(p_not_hs, T_3MS + 200)


async def hs_window(d, variant, restrict):
    """the 200 us after the device switched from HS to FS terminations.  Returns 'suspend', 'reset' or 'lost'."""
    rng = d.rng
    t0 = d.T
    W = T_200US
    if restrict:
        d.mark("restr_in_window")
        which = rng.choice(["fso", "lso"])
        d.mark("restr_in_window_" + which)
        await d.wait(rng.randint(1, W - 200))
        d.set(which, 1)
        if rng.random() < 0.15:
            d.set("fso", 1); d.set("lso", 1)          # both restrictions at once
            d.mark("both_restrictions")
    # all variants steer by time since t0 (about 1-2 cycles after the switch); the decision is near t0 + W
    async def goto(off):
        n = t0 + off - d.T
        if n > 0:
            await d.wait(n)
    if variant == "se0":
        pass
    elif variant == "k":
        await goto(rng.randint(10, W - 100)); d.set("line", rng.choice([FS_K, SE1]))
    elif variant == "j":
        await goto(rng.randint(10, W - 100)); d.set("line", FS_J)
    elif variant == "late_j":
        d.mark("late_j")
        await goto(W - rng.randint(2, 12)); d.set("line", FS_J)
    elif variant == "j_then_se0":
        d.mark("late_nonj")
        await goto(rng.randint(10, 6000)); d.set("line", FS_J)
        await goto(W - rng.randint(2, 12)); d.set("line", rng.choice([SE0, FS_K]))
    elif variant == "blip":
        await goto(rng.randint(10, 6000)); d.set("line", FS_J)
        await goto(rng.randint(6100, W - 200)); d.set("line", SE0)
        await d.wait(rng.randint(1, 40)); d.set("line", FS_J)
    await goto(W - 20)
    got = await d.until(lambda o: o["susp"] or o["op"] == OP_CHIRP, 400)
    if not got:
        return "reset_restricted" if d.restricted() else "lost"
    return "suspend" if d.out["susp"] else "reset"


# ------------------------------------------------------------------------------------------- sessions

async def after_suspend_attempt(d, got):
    rng = d.rng
    if got:
        await suspended_games(d, rng.choice(["resume", "reset", "reset"]))
        await d.wait(8)
        if d.in_chirp_mode():
            await run_handshake(d, "valid"); await leave_hs_if_needed(d)
        await d.line(d.idle(), rng.randint(5, 100))


async def session_playground(d):
    rng = d.rng
    mode = rng.choice(["fs", "fs", "ls", "ls", "both"])
    d.res.desc["mode"] = mode
    await connect(d, mode)
    if mode == "both":
        d.mark("both_restrictions")
    await se0_probes(d, rng.randint(4, 10), T_5US, allow_reset=True)
    if rng.random() < 0.6:
        await restriction_games_near_reset(d)
    if rng.random() < 0.3:
        d.mark("vbus_fs")
        d.set("vbus", 0); await d.wait(rng.randint(1, 200)); d.set("vbus", 1); await d.wait(rng.randint(1, 50))
    if rng.random() < 0.4:
        d.mark("disconnect")
        d.set("disc", 1); await d.wait(rng.randint(1, 400)); d.set("disc", 0); await d.wait(T_2P5US + 30)
        d.set("line", d.idle()); await d.wait(10)
    for _ in range(rng.choice([0, 1, 1, 2])):
        await disconnect_with_se0(d)
    variant = rng.choice(["plain", "near", "split", "split", "wrong_prefix", "wrong_prefix", "wrong_prefix", "wrong_only", "wrong_only"])
    if mode in ("ls", "both") and rng.random() < 0.25:
        variant = "wrong_only"
    d.res.desc["long"] = [variant]
    await after_suspend_attempt(d, await fs_suspend(d, variant))
    await se0_probes(d, rng.randint(3, 8), T_5US, allow_reset=True)
    if rng.random() < 0.5:
        await restriction_games_near_reset(d)
    if d.T < 300000 and rng.random() < 0.5:
        variant = rng.choice(["split", "wrong_prefix", "wrong_only"])
        d.res.desc["long"].append(variant)
        await after_suspend_attempt(d, await fs_suspend(d, variant))
        await se0_probes(d, rng.randint(2, 5), T_5US, allow_reset=True)


async def session_hs_walk(d):
    """HS-capable device: a budgeted random walk over FS -> handshake -> HS -> (3 ms SE0 -> suspend | reset) -> ..."""
    rng = d.rng
    d.res.desc["mode"] = "hs"
    d.res.desc["walk"] = walk = []
    await connect(d, "hs")
    budget = rng.randint(300000, 550000)
    had_hs_suspend = False
    last_partial = False
    n_handshakes = 0
    while d.T < budget and len(walk) < 30:
        left = budget - d.T
        if d.in_chirp_mode():
            walk.append("finish_handshake")
            await run_handshake(d, "valid")
        elif d.out["susp"]:
            leave = rng.choice(["resume", "resume", "resume", "reset"])
            walk.append("suspended_" + leave)
            if d.restricted() and rng.random() < 0.7:
                d.set("fso", 0); d.set("lso", 0)
            await suspended_games(d, leave)
            await d.wait(6)
        elif d.hs_op():
            await hs_games(d)
            if left > 150000 and rng.random() < 0.75:
                split = rng.random() < 0.2
                if not await hs_three_ms(d, split):
                    walk.append("hs_3ms_lost")
                    continue
                variant = rng.choice(["se0", "k", "j", "j", "late_j", "late_j", "j_then_se0", "j_then_se0", "blip"])
                restrict = rng.random() < 0.35
                w = await hs_window(d, variant, restrict)
                walk.append("hs_3ms_%s%s_%s" % (variant, "_restricted" if restrict else "", w))
                if w == "suspend":
                    had_hs_suspend = True
                elif w == "reset":
                    n_handshakes += 1
                    await run_handshake(d, "valid", restr_games=False)
                    if d.restricted():
                        await d.wait(rng.randint(1, 20))
                        d.set("fso", 0); d.set("lso", 0)
                        d.set("line", FS_J); await d.wait(10); d.set("line", d.idle())
            else:
                how = rng.choice(["restrict", "restrict", "vbus", "disc"])
                walk.append("hs_exit_" + how)
                await hs_exit(d, how)
        else:
            # FS / LS, not suspended
            if had_hs_suspend and left > 190000 and rng.random() < 0.6:
                walk.append("fs_suspend_after_hs_suspend")
                d.mark("fs_suspend_after_hs_suspend")
                had_hs_suspend = False
                if await fs_suspend(d):
                    await suspended_games(d, "resume")
                    await d.wait(10)
                    await d.line(d.idle(), 50)
                continue
            if left < 100000 and n_handshakes > 0:
                break
            await se0_probes(d, rng.randint(1, 5), T_5US, allow_reset=False)
            if d.restricted():
                d.set("fso", 0); d.set("lso", 0)
                await d.wait(rng.randint(2, 30))
            kind = "partial" if (rng.random() < 0.22 and n_handshakes < 2) else "valid"
            if last_partial:
                d.mark("second_handshake")
            walk.append("handshake_" + kind)
            n_handshakes += 1
            await reset_from_fs(d)
            r = await run_handshake(d, kind, busy=rng.random() < 0.5, restr_games=rng.random() < 0.5)
            last_partial = (kind == "partial")
            if r != "hs":
                await d.line(FS_J, rng.randint(10, 200))
                await d.line(d.idle(), 10)


async def fs_to_handshake(d, kind, busy_p=0.4, restr_p=0.4, fresh=False):
    """from FS (not suspended): a few harmless SE0 pulses, a bus reset, the handshake.  Returns 'hs' / 'fallback' / 'lost'."""
    rng = d.rng
    await se0_probes(d, rng.randint(1, 4), T_5US, allow_reset=False)
    if d.restricted():
        d.set("fso", 0); d.set("lso", 0)
        await d.wait(rng.randint(2, 30))
    await reset_from_fs(d)
    r = await run_handshake(d, kind, busy=rng.random() < busy_p, restr_games=rng.random() < restr_p, fresh=fresh)
    if r != "hs":
        await d.line(FS_J, rng.randint(10, 200))
        await d.line(d.idle(), 10)
    return r


WINDOW_SUSPEND = ["j", "late_j", "late_j", "blip"]
WINDOW_RESET = ["se0", "k", "j_then_se0", "j_then_se0", "j_then_se0"]


async def hs_idle_episode(d, variants, restrict_p, fresh=False):
    """at HS: 3 ms of SE0 and the 200 us window.  Returns 'suspend' / 'reset' / 'lost'.
    fresh: the line has been SE0 since the cycle HS operation began and stays so (no activity that would restart timers)."""
    rng = d.rng
    if fresh:
        d.mark("hs_se0_from_entry")
        d.set("line", SE0)
        if not await d.until(p_not_hs, T_3MS + 200):
            return "lost"
    else:
        await hs_games(d)
        if not await hs_three_ms(d, split=rng.random() < 0.25):
            return "lost"
    variant = rng.choice(variants)
    restrict = rng.random() < restrict_p
    w = await hs_window(d, variant, restrict)
    d.res.desc.setdefault("walk", []).append("hs_3ms_%s%s_%s" % (variant, "_restricted" if restrict else "", w))
    if w == "reset_restricted":
        await d.wait(rng.randint(1, 30))
        d.set("fso", 0); d.set("lso", 0)
        d.set("line", FS_J); await d.wait(10); d.set("line", d.idle()); await d.wait(10)
    if w == "reset":
        await run_handshake(d, "valid", restr_games=False)
        if d.restricted():
            await d.wait(rng.randint(1, 20))
            d.set("fso", 0); d.set("lso", 0)
            d.set("line", FS_J); await d.wait(10); d.set("line", d.idle())
    return w


async def plan_resume_then_fs_suspend(d):
    rng = d.rng
    if await fs_to_handshake(d, "valid", restr_p=0) != "hs":
        return
    if await hs_idle_episode(d, WINDOW_SUSPEND, 0.25) != "suspend":
        return
    if d.restricted():
        d.set("fso", 0); d.set("lso", 0)
    await suspended_games(d, "resume")
    await d.wait(6)
    if not d.hs_op():
        return
    await hs_games(d)
    if rng.random() < 0.45:
        await hs_exit(d, "restrict", prefer_ls=True)
    else:
        await hs_exit(d, rng.choice(["restrict", "restrict", "vbus"]))
    if d.hs_op() or d.in_chirp_mode() or d.out["susp"]:
        return
    d.mark("fs_suspend_after_hs_suspend")
    if await fs_suspend(d, "plain" if rng.random() < 0.55 else None):
        await suspended_games(d, "resume")
        await d.wait(10)
        await d.line(d.idle(), 50)


async def plan_hs_reset_chain(d):
    rng = d.rng
    fresh = rng.random() < 0.4
    if await fs_to_handshake(d, "valid", restr_p=0, fresh=fresh) != "hs":
        return
    for i in range(rng.choice([1, 2, 2, 2])):
        if not d.hs_op():
            if i == 0 or d.T > 420000 or d.in_chirp_mode() or d.out["susp"]:
                return
            if await fs_to_handshake(d, "valid", busy_p=0.2, restr_p=0) != "hs":      # after a restricted (FS) reset: back to HS
                return
        w = await hs_idle_episode(d, WINDOW_RESET if rng.random() < 0.8 else WINDOW_SUSPEND, 0.75, fresh=(fresh and i == 0))
        if w == "suspend":
            if d.restricted():
                d.set("fso", 0); d.set("lso", 0)
            await suspended_games(d, "resume")
            await d.wait(6)


async def plan_timeout(d):
    rng = d.rng
    await fs_to_handshake(d, "partial", busy_p=0.3, restr_p=0.2)
    if rng.random() < 0.5 and not d.in_chirp_mode() and not d.hs_op():
        # idle right after the fall-back, far shorter than 3 ms: no suspend expected (idle timer must restart at the fall-back)
        d.mark("idle_after_fallback")
        await d.line(d.idle(), rng.randint(45000, 100000))
    if rng.random() < 0.5:
        await se0_probes(d, rng.randint(1, 4), T_5US, allow_reset=False)
        return
    d.mark("second_handshake")
    if await fs_to_handshake(d, "valid") == "hs":
        await hs_games(d)
        await hs_exit(d, rng.choice(["restrict", "vbus", "disc"]))


async def plan_handshake_exits(d):
    rng = d.rng
    for _ in range(2):
        if await fs_to_handshake(d, "valid", busy_p=0.6, restr_p=0.6) == "hs":
            await hs_games(d)
            await hs_exit(d, rng.choice(["restrict", "vbus", "vbus", "disc", "disc"]))


async def plan_suspend_reset(d):
    rng = d.rng
    if await fs_to_handshake(d, "valid", restr_p=0) != "hs":
        return
    if await hs_idle_episode(d, WINDOW_SUSPEND, 0.2) != "suspend":
        return
    if d.restricted() and rng.random() < 0.6:
        d.set("fso", 0); d.set("lso", 0)
    await suspended_games(d, "reset")
    await d.wait(6)
    if d.in_chirp_mode():
        if await run_handshake(d, "valid") == "hs":
            await hs_games(d)
            await hs_exit(d, rng.choice(["restrict", "vbus", "disc"]))
    else:
        await d.line(d.idle(), rng.randint(5, 60))
        await se0_probes(d, rng.randint(1, 4), T_5US, allow_reset=d.restricted())


PLANS = [("resume_then_fs_suspend", plan_resume_then_fs_suspend, 20), ("hs_reset_chain", plan_hs_reset_chain, 32),
         ("timeout", plan_timeout, 23), ("handshake_exits", plan_handshake_exits, 11),
         ("suspend_reset", plan_suspend_reset, 8), ("walk", None, 6)]


async def session_hs(d):
    rng = d.rng
    pick = rng.randrange(sum(w for _n, _f, w in PLANS))
    for pname, pfn, w in PLANS:
        if pick < w:
            break
        pick -= w
    d.res.desc["plan"] = pname
    d.res.sig(pname)
    if pfn is None:
        return await session_hs_walk(d)
    d.res.desc["mode"] = "hs"
    await connect(d, "hs")
    await pfn(d)


SESSIONS = [("playground", session_playground, 30), ("hs", session_hs, 70)]


# ------------------------------------------------------------------------------------------- the judge

def judge(res, d, out_tr, end):
    """out_tr: dict of output traces; d.inp: input traces; end = number of simulated periods."""
    line, vbus, fso, lso, disc = d.inp["line"], d.inp["vbus"], d.inp["fso"], d.inp["lso"], d.inp["disc"]
    rst, susp, speed, op = out_tr["rst"], out_tr["susp"], out_tr["speed"], out_tr["op"]
    txv, txd, term = out_tr["txv"], out_tr["txd"], out_tr["term"]
    restricted = combine(lambda a, b: bool(a or b), fso, lso)
    hsop = combine(lambda s, o: s == SPD_HS and o == OP_NORMAL, speed, op)
    chirpmode = combine(lambda o: o == OP_CHIRP, op)
    devchirp = combine(lambda v, dd, o: bool(v) and dd == 0 and o == OP_CHIRP, txv, txd, op)
    badchirp = combine(lambda v, dd: bool(v) and dd != 0, txv, txd)
    idle = combine(lambda s, l: l == idle_state(s), speed, line)
    is_se0 = lambda v: v == SE0
    truth = bool

    hs_runs = hsop.true_runs(end)
    hs_ends = [b for (_a, b) in hs_runs if b is not None]
    chirp_runs = chirpmode.true_runs(end)
    susp_runs = susp.true_runs(end)
    dev_runs = devchirp.true_runs(end)

    def last_hs_end_before(t):
        i = bisect_right(hs_ends, t) - 1
        return hs_ends[i] if i >= 0 else None

    def hs_left_by_command(e):
        """HS operation that ended at e was (possibly) ended by restriction, disconnect or VBUS loss."""
        return (restricted.any_in(e - SLACK, e, truth) or disc.any_in(e - SLACK, e, truth)
                or vbus.any_in(e - SLACK, e, lambda v: not v))

    def entered_at_hs(s):
        """a suspend that began at period s was entered from high speed (<= 200 us + slack after HS operation)."""
        e = last_hs_end_before(s)
        return e is not None and s - e <= T_200US + 64

    # ---------------------------------------------------------------- 1. bus_reset
    hs_resets = set()
    judged = 0
    for a, b in rst.true_runs(end):
        b = end if b is None else b
        in_vbus_part = False
        for t in range(a, b):
            if vbus.any_in(t - 2, t, lambda v: not v):
                if not in_vbus_part:
                    res.bin("reset_vbus_absent")
                    res.event("bus_reset_periods_judged")
                in_vbus_part = True
                continue
            in_vbus_part = False
            if judged >= 3000:
                break
            judged += 1
            res.event("bus_reset_periods_judged")
            ctx = "period=%d line=%d speed=%d op=%d susp=%d" % (t, line.at(t), speed.at(t), op.at(t), susp.at(t))
            se0_run = max_run_ending_in(line, t - SLACK, t, is_se0)
            e = last_hs_end_before(t)
            if susp.any_in(t - 3, t, truth):
                if se0_run < T_2P5US:
                    res.violation("bus_reset_suspended_se0_shorter_than_2p5us", "%s continuous SE0 before it: %d periods" % (ctx, se0_run))
                else:
                    res.bin("reset_suspended_2p5us")
            elif (e is not None and t - e <= T_200US + 64 and not hs_left_by_command(e)
                  and not susp.any_in(e, t, truth)):
                run_hs = max_run_ending_in(line, e - SLACK, e, is_se0)
                nonj = line.any_in(t - 3, t, lambda v: v != FS_J)
                if run_hs < T_3MS:
                    res.violation("bus_reset_hs_without_3ms_se0", "%s HS operation left at %d after only %d periods of SE0" % (ctx, e, run_hs))
                elif t - e < T_200US - 2:
                    res.violation("bus_reset_hs_before_200us", "%s only %d periods after HS operation was left at %d" % (ctx, t - e, e))
                elif not nonj:
                    res.violation("bus_reset_hs_although_line_idle", "%s line is J (idle): this is a suspend, not a reset" % ctx)
                else:
                    res.bin("reset_hs_3ms_200us")
                    hs_resets.add(t)
            else:
                at_hs = speed.at(t) == SPD_HS and op.at(t) == OP_NORMAL
                active_fs = op.at(t) == OP_NORMAL and speed.at(t) != SPD_HS
                need = T_5US if active_fs else T_2P5US
                if at_hs:
                    res.violation("bus_reset_at_hs_operation", "%s reset reported during HS operation with VBUS present" % ctx)
                elif se0_run < need:
                    mech = "bus_reset_fs_se0_shorter_than_5us" if active_fs else "bus_reset_se0_shorter_than_2p5us"
                    res.violation(mech, "%s continuous SE0 before it: %d periods (need %d)" % (ctx, se0_run, need))
                else:
                    res.bin("reset_fs_5us")
                    if restricted.all_in(t - SLACK, t, truth):
                        res.bin("reset_while_restricted")

    # ---------------------------------------------------------------- 2. suspend entry
    for s, _f in susp_runs:
        if s == 0:
            res.violation("suspended_at_power_up", "suspended = 1 in period 0")
            continue
        res.event("suspend_entries_judged")
        run_idle = max_run_ending_in(idle, s - 3, s, truth)
        ok = run_idle >= T_3MS
        via_hs = False
        if not ok:
            e = last_hs_end_before(s)
            if e is not None and s - e <= T_200US + 64:
                run_hs = max_run_ending_in(line, e - SLACK, e, is_se0)
                if run_hs >= T_3MS:
                    ok = via_hs = True
        if not ok:
            res.violation("suspended_without_3ms_idle", "suspended rose at period %d (speed=%d line=%d) after %d periods of continuous idle"
                          % (s, speed.at(s - 1), line.at(s - 1), run_idle))
        elif via_hs:
            res.bin("suspend_hs")
        elif speed.at(s - 1) == SPD_LS:
            res.bin("suspend_ls")
        else:
            res.bin("suspend_fs")

    # ---------------------------------------------------------------- 3. chirp-mode episodes
    chirp_of_end = {}
    for x, y in chirp_runs:
        res.event("chirp_mode_starts_judged")
        after_hs_reset = any((x - 8) <= t <= x for t in hs_resets)
        if x > SLACK and restricted.all_in(x - SLACK, x, truth):
            mech = "chirp_started_while_restricted_after_hs_reset" if after_hs_reset else "chirp_started_while_restricted"
            res.violation(mech, "chirp mode begins at period %d; full_speed_only=%d low_speed_only=%d asserted since period <= %d"
                          % (x, fso.at(x), lso.at(x), x - SLACK))
        devs = [(a, b) for (a, b) in dev_runs if a >= x and (y is None or a < y)]
        c1 = None
        if devs and devs[-1][1] is not None:
            c1 = devs[-1][1]
        stop = end if y is None else y
        if c1 is not None:
            res.event("device_chirps_measured")
            if stop - c1 > T_2P5MS + 64:
                res.violation("no_fallback_2p5ms_after_device_chirp", "chirp mode from %d, device chirp ended at %d, still in chirp mode at %d"
                              % (x, c1, min(stop, c1 + T_2P5MS + 65)))
        elif stop - x > T_2MS + T_2P5MS + 1000:
            res.violation("chirp_mode_stuck", "chirp mode from %d to %d without a completed device chirp" % (x, stop))
        if y is None:
            continue
        res.event("chirp_mode_ends_judged")
        chirp_of_end[y] = (x, y, devs)
        ok_end = False
        for t in range(y, min(y + 3, end)):
            if hsop.at(t) or (op.at(t) == OP_NORMAL and speed.at(t) != SPD_HS and term.at(t) == 1):
                ok_end = True
        if y + 3 <= end and not ok_end:
            res.violation("chirp_mode_left_to_invalid_state", "after chirp mode ended at %d: speed=%d op=%d term=%d (neither HS operation "
                          "nor FS/LS normal mode with FS/LS termination)" % (y, speed.at(y + 2), op.at(y + 2), term.at(y + 2)))
        if c1 is not None and not hsop.any_in(y, y + 2, truth):
            res.bin("handshake_timeout_fallback" if y - c1 >= T_2P5MS - 64 else "handshake_ended_otherwise")

    for a, b in badchirp.true_runs(end):
        res.violation("device_chirp_not_k", "tx.valid with tx.data != 0 from period %d" % a)
        break

    # ---------------------------------------------------------------- 4. entries into HS operation
    susp_falls = [f for (_s, f) in susp_runs if f is not None]
    for h, _e in hs_runs:
        res.event("hs_entries_judged")
        if h == 0:
            res.violation("hs_at_power_up", "HS operation in period 0")
            continue
        # (b) resume from a suspend that was entered at high speed
        resumed = None
        for s, f in susp_runs:
            if f is not None and h - SLACK <= f <= h:
                resumed = (s, f)
        if resumed is not None:
            if entered_at_hs(resumed[0]):
                res.bin("hs_via_resume")
            else:
                res.violation("hs_after_resume_from_non_hs_suspend", "HS operation at %d after resume (suspended %d..%d) but that suspend "
                              "was not entered from high speed" % (h, resumed[0], resumed[1]))
            continue
        ep = None
        for y in range(h - 2, h + 1):
            if y in chirp_of_end:
                ep = chirp_of_end[y]
        if ep is None:
            res.violation("hs_without_handshake", "HS operation begins at %d without a preceding chirp-mode episode or resume" % h)
            continue
        x, y, devs = ep
        if not rst.any_in(x - 8, x, truth):
            res.violation("hs_handshake_without_bus_reset", "chirp mode %d..%d leading to HS was not started by a bus_reset" % (x, y))
            continue
        done = [(a, b) for (a, b) in devs if b is not None]
        if not done:
            res.violation("hs_without_device_chirp", "HS operation at %d: no device chirp K in chirp mode %d..%d" % (h, x, y))
            continue
        c0, c1 = done[-1]
        if c1 - c0 < T_1MS:
            res.violation("device_chirp_shorter_than_1ms", "device chirp K %d..%d (%d periods)" % (c0, c1, c1 - c0))
        pairs, n = count_valid_pairs(line, c1, h)
        res.event("train_states_scanned", n)
        if pairs < 3:
            seq = [(v, b - a) for a, b, v in line.runs(c1, h)][-14:]
            res.violation("hs_with_fewer_than_3_valid_chirp_pairs",
                          "HS operation at %d; device chirp ended %d; only %d K-J pairs of >=150 periods each; last states (value, periods): %s"
                          % (h, c1, pairs, seq))
        else:
            res.bin("hs_via_chirp")

    # ---------------------------------------------------------------- 5. HS operation under restriction
    both = combine(lambda a, b: bool(a and b), hsop, restricted)
    for a, b in both.true_runs(end):
        res.event("hs_restriction_runs_judged")
        bb = end if b is None else b
        if bb - a >= 3:
            res.violation("hs_not_left_within_2_cycles_of_restriction", "HS operation with full/low-speed restriction from period %d for %d periods"
                          % (a, bb - a))
        res.bin("restriction_at_hs")
    # ---------------------------------------------------------------- 6. HS termination belongs to HS operation only
    # termination_select = 0 is the HS termination (UTMI TermSelect).  Outside HS operation it may appear only while the
    # device is electrically disconnected (non-driving); in chirp mode or in FS/LS normal mode it would be "high speed" without
    # a completed handshake / after the fall-back.
    t0_chirp = combine(lambda tm, o: tm == 0 and o == OP_CHIRP, term, op)
    t0_fs = combine(lambda tm, o, sp: tm == 0 and o == OP_NORMAL and sp != SPD_HS, term, op, speed)
    for a, b in term.true_runs(end, lambda v: v == 0):
        res.event("hs_termination_runs_judged")
    for tr, mech, what in ((t0_chirp, "hs_termination_in_chirp_mode", "in chirp mode (handshake not complete)"),
                           (t0_fs, "hs_termination_at_fs_ls", "in normal mode at full/low speed")):
        for a, b in tr.true_runs(end):
            bb = end if b is None else b
            if bb - a >= 3:
                res.violation(mech, "termination_select = 0 (HS termination) %s from period %d for %d periods" % (what, a, bb - a))
                break

    # ---------------------------------------------------------------- 7. LOW vs FULL follows low_speed_only where the speed is (re)decided
    # decision points: power-up, fall-back out of chirp mode, HS left by restriction / VBUS loss, release of a soft disconnect.
    # Judged only when low_speed_only was constant from 2 periods before to 3 after the point (whatever cycle the device samples).
    points = []
    if end > 12:
        points.append((2, 8, "power-up"))
    for x, y in chirp_runs:
        if y is not None and y + 4 < end and not hsop.any_in(y, y + 3, truth):
            points.append((y, y + 3, "fall-back from the handshake"))
    for h, e in hs_runs:
        if e is not None and e + 4 < end and hs_left_by_command(e) and not disc.any_in(e - SLACK, e, truth):
            points.append((e, e + 3, "HS left by restriction / VBUS loss"))
    for a, b in op.true_runs(end, lambda v: v == OP_NONDRIVING):
        if b is not None and b + 4 < end:
            points.append((b, b + 3, "release of the soft disconnect"))
    for t in sorted(hs_resets):
        if t + 6 < end and not chirpmode.any_in(t, t + 5, truth):
            points.append((t + 1, t + 4, "reset from high speed while restricted"))
    for t, tj, what in points:
        if op.at(tj) != OP_NORMAL or speed.at(tj) == SPD_HS or not lso.all_in(t - 2, tj, lambda v, r=lso.at(tj): v == r):
            continue
        res.event("speed_selections_judged")
        want_low = bool(lso.at(tj))
        if want_low and speed.at(tj) != SPD_LS:
            res.violation("low_speed_restriction_not_applied", "%s at period %d: low_speed_only = 1 throughout, current_speed = %d at %d"
                          % (what, t, speed.at(tj), tj))
        elif not want_low and speed.at(tj) == SPD_LS:
            res.violation("low_speed_without_restriction", "%s at period %d: low_speed_only = 0 throughout, current_speed = LOW at %d" % (what, t, tj))
        else:
            res.bin("speed_selected_low" if want_low else "speed_selected_full")

    return {"hs_runs": hs_runs, "chirp_runs": chirp_runs, "susp_runs": susp_runs, "hs_resets": hs_resets,
            "restricted": restricted, "hsop": hsop, "idle": idle, "chirpmode": chirpmode}


def workload_bins(res, d, out_tr, info, end):
    """coverage bins that describe what the stimulus reached (only counted when the situation really occurred)."""
    rst, susp = out_tr["rst"], out_tr["susp"]
    line = d.inp["line"]
    m = d.marks
    # SE0 pulses just below the thresholds that indeed produced no reset
    for t in m.get("below_thr_300", []):
        if not rst.any_in(t, t + T_5US + 8, bool):
            res.bin("se0_just_below_5us_no_reset")
    for t in m.get("below_thr_150", []):
        if susp.at(t) and not rst.any_in(t, t + T_2P5US + 8, bool):
            res.bin("se0_just_below_2p5us_suspended")
    for t in m.get("split_300", []) + m.get("split_150", []):
        res.bin("se0_split_by_glitch")
    chirp = info["chirpmode"]
    for t in m.get("short_state", []):
        if chirp.at(t):
            res.bin("train_state_just_below_2p5us")
    for t in m.get("glitch_state", []):
        if chirp.at(t):
            res.bin("train_state_split_by_glitch")
    for t in m.get("two_pairs_then_junk", []):
        if chirp.at(t):
            res.bin("train_two_pairs_then_junk")
    for t in m.get("second_handshake", []):
        if any(x >= t for x, _y in info["chirp_runs"]):
            res.bin("second_handshake_after_partial")
    for t in m.get("idle_near", []):
        res.bin("idle_just_below_3ms")
    for t in m.get("idle_split", []):
        res.bin("idle_split")
    for t in m.get("wrong_idle", []):
        if not susp.any_in(t, t + T_3MS + 50, bool):
            res.bin("non_idle_3ms_no_suspend")
            if out_tr["speed"].at(t) == SPD_LS:
                res.bin("non_idle_3ms_no_suspend_ls")
    for t in m.get("wrong_prefix", []):
        res.bin("non_idle_prefix_before_idle_ls" if out_tr["speed"].at(t) == SPD_LS else "non_idle_prefix_before_idle_fs")
    for t in m.get("timeout_in_state", []):
        if chirp.at(t):
            res.bin("handshake_deadline_inside_chirp_state")
    for t in m.get("restr_in_handshake", []):
        if chirp.at(t):
            res.bin("restriction_during_handshake")
    for t in m.get("restr_in_window", []):
        res.bin("restriction_in_hs_detect_window")
    for which, tr in (("lso", d.inp["lso"]), ("fso", d.inp["fso"])):
        for t in m.get("restr_in_window_" + which, []):
            if any(t <= r <= t + T_200US + 100 and tr.at(r) for r in info["hs_resets"]):
                res.bin("%s_in_hs_detect_window_reset" % which)
    for t in m.get("both_restrictions", []):
        res.bin("fso_and_lso_together")
    for t in m.get("se0_across_disconnect_release", []):
        if out_tr["op"].any_in(t - 160, t + 5, lambda v: v == OP_NONDRIVING):
            res.bin("se0_across_disconnect_release")
    for t in m.get("disc_in_suspend", []):
        if susp.at(t):
            res.bin("disconnect_request_while_suspended")
    for t in m.get("disc_in_handshake", []):
        if chirp.at(t):
            res.bin("disconnect_request_during_handshake")
    for t in m.get("busy_elsewhere", []):
        res.bin("bus_busy_outside_chirp_preparation")
    for t in m.get("restr_toggle_near_reset", []):
        res.bin("restriction_toggled_near_reset")
    for t in m.get("late_j", []):
        res.bin("hs_window_j_at_decision")
    for t in m.get("late_nonj", []):
        res.bin("hs_window_nonj_at_decision")
    for t in m.get("hs_se0_split", []):
        res.bin("hs_se0_split")
    for t in m.get("hs_se0_from_entry", []):
        for h, e in info["hs_runs"]:
            if h <= t and (e is None or t < e) and line.all_in(h - 1, t, lambda v: v == SE0):
                res.bin("hs_se0_from_first_hs_cycle")
    for t in m.get("fs_suspend_after_hs_suspend", []):
        if any(s >= t for s, _f in info["susp_runs"]):
            res.bin("fs_suspend_after_hs_suspend")
    for t in m.get("idle_after_fallback", []):
        res.bin("idle_right_after_fallback")
    for t in m.get("disconnect", []):
        res.bin("disconnect_used")
    for t in m.get("busy", []):
        res.bin("bus_busy_used")
    for t in m.get("vbus_at_hs", []):
        res.bin("vbus_loss_at_hs")


# ------------------------------------------------------------------------------------------- case

def run_case(rng, tier, res):
    from amaranth import Elaboratable, Module, Signal
    from amaranth.sim import Simulator, BrokenTrigger
    from luna.gateware.usb.usb2.reset import USBResetSequencer
    import warnings

    class Harness(Elaboratable):
        """the real sequencer plus one harness flip-flop used to calibrate the time stamps (it only toggles on demand)."""
        def __init__(self):
            self.dut = USBResetSequencer()
            self.probe_d = Signal()
            self.probe_q = Signal()

        def elaborate(self, platform):
            m = Module()
            m.submodules.dut = self.inner if self.inner is not None else self.dut
            m.d.usb += self.probe_q.eq(self.probe_d)
            return m

    class FakePlatform:
        """what the sequencer looks at on a platform: the device name and the ignore_phy_vbus override"""
        device = "LFE5U-25F"
        ignore_phy_vbus = True

    class OnPlatform(Elaboratable):
        def __init__(self, inner):
            self.inner = inner

        def elaborate(self, platform):
            return self.inner.elaborate(FakePlatform())

    total = sum(w for _n, _f, w in SESSIONS)
    pick = rng.randrange(total)
    for sname, sfn, w in SESSIONS:
        if pick < w:
            break
        pick -= w
    ignore_vbus = sname == "playground" and rng.random() < 0.45
    top = Harness()
    dut = top.dut
    top.inner = OnPlatform(dut) if ignore_vbus else None
    # input signals are taken before elaboration (with ignore_phy_vbus the sequencer replaces its vbus_connected attribute)
    sig = {"line": dut.line_state, "vbus": dut.vbus_connected, "fso": dut.full_speed_only,
           "lso": dut.low_speed_only, "disc": dut.disconnect, "busy": dut.bus_busy}
    sim = Simulator(top)
    sim.add_clock(1 / 60e6, domain="usb")

    names = ["rst", "susp", "speed", "op", "term", "txv", "txd"]
    outs = [dut.bus_reset, dut.suspended, dut.current_speed, dut.operating_mode, dut.termination_select,
            dut.tx.valid, dut.tx.data]
    res.desc = {"session": sname, "ignore_phy_vbus": ignore_vbus}
    res.sig(sname, ignore_vbus)
    log = []
    probe_log = []
    holder = {}

    async def calibrate(d, ctx, v):
        """toggle the probe flip-flop: set during period T, so its output must be stamped T+1."""
        t = d.T
        ctx.set(top.probe_d, v)
        await d.wait(3, force=True)
        if not probe_log or probe_log[-1] != (t + 1, v):
            raise RuntimeError("time-stamp calibration failed: probe set in period %d, log %r" % (t, probe_log[-3:]))
        res.event("timestamp_calibrations")

    async def driver(ctx):
        d = Drv(ctx, dut, rng, res, sig)
        holder["d"] = d
        d.out = dict(zip(names, (ctx.get(s) for s in outs)))
        log.append((0, tuple(d.out[n] for n in names)))
        d.tick = ctx.tick("usb").__aiter__()
        d.calibrate = lambda v: calibrate(d, ctx, v)
        try:
            try:
                await sfn(d)
                await d.wait(20)
            except StopScenario:
                res.bin("case_cut_at_cycle_budget")
            await calibrate(d, ctx, 0)
        except BaseException as e:       # keep the original error: the simulator would mask it with BrokenTrigger
            holder["error"] = e
            raise

    async def monitor(ctx):
        # A testbench is resumed only after all delta cycles of a time step have settled, but the values a
        # `changed()` trigger returns are sampled when its *first* signal changed, and a second signal changing one
        # delta later (register output, then a combinational output of the new state) marks the trigger broken.
        # Both are harmless here: the settled values are read with ctx.get() after every wake-up.
        sigs = outs + [top.probe_q]
        last_probe = 0
        while True:
            try:
                await ctx.changed(*sigs)
            except BrokenTrigger:
                res.event("same_edge_multi_delta_changes")
            vals = tuple(ctx.get(s) for s in sigs)
            d = holder["d"]
            if vals[-1] != last_probe:
                last_probe = vals[-1]
                probe_log.append((d.T, last_probe))
            vals = vals[:-1]
            if vals != log[-1][1]:
                d.out = dict(zip(names, vals))
                log.append((d.T, vals))

    sim.add_testbench(driver)
    sim.add_testbench(monitor, background=True)
    with warnings.catch_warnings():
        warnings.simplefilter("ignore")
        try:
            sim.run()
        except BaseException:
            if "error" in holder:
                raise holder["error"]
            raise

    d = holder["d"]
    end = d.T
    res.cycles = end
    res.event("output_changes", len(log) - 1)
    out_tr = {}
    for i, n in enumerate(names):
        tr = Trace(log[0][1][i])
        for t, vals in log[1:]:
            tr.add(t, vals[i])
        out_tr[n] = tr
    if ignore_vbus:
        # the platform says VBUS sensing is to be ignored: a missing VBUS must then not hold the device in reset
        v = d.inp["vbus"]
        blind = [(a, b) for a, b, val in v.runs(0, end) if not val and b - a >= 3]
        if blind and not any(out_tr["rst"].any_in(a + 1, b - 1, bool) and d.inp["line"].all_in(a - 310, b, lambda x: x != SE0) for a, b in blind):
            res.bin("platform_ignore_phy_vbus")
        # for the judge VBUS counts as present throughout (that is what the platform asserts)
        d.inp["vbus"] = Trace(1)
    info = judge(res, d, out_tr, end)
    workload_bins(res, d, out_tr, info, end)
    res.desc.update({"cycles": end, "first_inputs": d.steps[:40],
                     "hs_episodes": len(info["hs_runs"]), "suspends": len(info["susp_runs"]),
                     "chirp_episodes": len(info["chirp_runs"])})
    judged_resets = res.events.get("bus_reset_periods_judged", 0)
    res.nontrivial = judged_resets >= 2 and bool(info["hs_runs"] or info["susp_runs"] or info["chirp_runs"]
                                                 or res.bins.get("reset_while_restricted"))
