"""C47 — isochronous timestamp packets are decoded in full.

DUT: luna.gateware.usb.usb3.protocol.timestamp.TimestampPacketReceiver, stand-alone, driven at its `header_sink`
(HeaderQueue: valid / header / ready) the way the protocol layer's header demultiplexer presents headers: the header at the
head of the queue is shown to the receiver; a timestamp packet stays until the receiver takes it (ready), a header of any
other type disappears after 1-4 cycles (another consumer took it).

Workload (per case 250-600 headers): isochronous timestamp packets (ITP, type 0b01100) whose 27 timestamp bits are random /
one-hot / all-ones / zero / one bit away from the previous ITP / counter+1, with random DW1, DW2 and link-layer words;
interleaved headers of every other 5-bit type value, preferably types one bit away from the ITP type, carrying the
same kind of field bits; back-to-back headers (no idle cycle between them) and random gaps.

Monitors (every cycle): header transfers (valid & ready & type), `update_received`, `bus_interval_counter`, `delta`.

Oracle (written from USB 3.2 section 8.7, figure "Isochronous Timestamp Packet"; no luna code): DW0[4:0] = type,
DW0[18:5] = bus interval counter (14 bits), DW0[31:19] = delta (13 bits).  Every accepted ITP must be followed by exactly
one cycle of `update_received` a fixed number L of cycles later (L in 0..3, the same L for the whole case: the documented
value is 1, a design with another output register is accepted) and in that cycle the two outputs must equal the full
fields of that packet.  A strobe that belongs to no accepted ITP, a consumed header of another type and an ITP that is not
taken within 8 cycles are violations with their own mechanism names.  Classifier for the known defect: the mechanism
`*_truncated_to_lsb` is used only if the output port is one bit wide and shows bit 0 of the field; everything else is `*_wrong`.

Second DUT (35 % of the cases, 30-60 headers): the real USB3ProtocolLayer (protocol/layer.py) on a port-only stub link
layer; headers enter at the link's `header_source`, go through the layer's own demultiplexer, and the layer's
`bus_interval` output must show the full 14-bit counter of each ITP within 4 cycles of its transfer (ITPs are spaced
wider than that).  Checks the wiring and width of `bus_interval`; nothing else of the layer is judged.

Deviation from DESIGN.md section 7: "other types untouched" is checked as "no update strobe and not consumed"; that the
outputs hold their value between packets is not demanded (see below).
Mutation results (quick tier): caught delta from DW0[18:31], counter from DW0[6:20] / DW0[5:18] / DW1, 13-bit counter and
12-bit delta ports (on the repaired tree), type compare ignoring low or top bits, missing valid gate, sticky strobe, no
strobe; not flagged because every ITP is still decoded: accepting the second of two back-to-back ITPs one cycle later.

Not judged: the outputs in cycles without `update_received` (the docstring of the block says it "keeps time", a correct
implementation may advance the counter on its own between packets); `ready` while `valid` is low.
"""
from rv.sim import Bench

PROPERTY = "C47"
CASES = {"quick": 200, "thorough": 3000}
RULE = ("case = 250-600 headers: timestamp packets with random / one-hot / all-ones / zero / single-bit-changed 27-bit timestamps "
        "and random other words, mixed with headers of all other 5-bit types (types one bit away from ITP preferred), back-to-back "
        "or separated by 0-5 idle cycles; non-trivial = >= 20 ITPs with counter > 1 and delta > 1 plus >= 10 foreign headers; "
        "distinct = hash of the header sequence and gaps")
REQUIRED_BINS = ["itp_random", "itp_one_hot_counter_bit", "itp_one_hot_delta_bit", "itp_all_ones", "itp_zero",
                 "itp_single_bit_change", "itp_back_to_back", "itp_after_foreign_header", "foreign_type_one_bit_off",
                 "foreign_type_other", "counter_upper_bits_set", "delta_upper_bits_set", "counter_top_bit_set", "delta_top_bit_set",
                 "layer_itp_taken", "layer_counter_upper_bits_set", "layer_counter_top_bit_set"]
REQUIRED_EVENTS = ["itp_accepted", "update_strobes", "counter_compared", "delta_compared", "foreign_headers_presented",
                   "layer_bus_interval_compared"]
ASSUMPTIONS = ["headers are presented as the protocol layer's demultiplexer does: an ITP is held until taken, other types vanish after 1-4 cycles",
               "outputs are judged only in the cycle update_received is high (free-running time keeping between packets is allowed)",
               "the update latency must be constant within a case and 0..3 cycles"]

ITP_TYPE = 0b01100
MAX_ACCEPT_WAIT = 8
LATENCIES = (1, 0, 2, 3)        # preference order


def itp_fields(dw0):
    """USB 3.2 8.7: isochronous timestamp = DW0[31:5]; bus interval counter = its low 14 bits, delta = its high 13 bits."""
    stamp = (dw0 >> 5) & ((1 << 27) - 1)
    return stamp & 0x3FFF, (stamp >> 14) & 0x1FFF


def _run_receiver(rng, tier, res):
    from luna.gateware.usb.usb3.protocol.timestamp import TimestampPacketReceiver
    dut = TimestampPacketReceiver()
    hs = dut.header_sink
    hdr = hs.header
    n_headers = rng.randint(250, 600)
    p_itp = rng.choice([0.4, 0.6, 0.8, 0.95])
    p_b2b = rng.choice([0.1, 0.5, 0.9])

    # ---------------------------------------------------------------- stimulus script
    script = []          # (dw0, dw1, dw2, link, gap_before, hold)
    prev_stamp = rng.getrandbits(27)
    other_types = [t for t in range(32) if t != ITP_TYPE]
    near_types = [ITP_TYPE ^ (1 << i) for i in range(5)]
    prev_foreign = False
    prev_itp_b2b = False
    for i in range(n_headers):
        gap = 0 if rng.random() < p_b2b else rng.randint(1, 5)
        if rng.random() < p_itp:
            kind = rng.choice(["random", "random", "random", "hot_counter", "hot_delta", "ones", "zero", "bitflip", "incr"])
            if kind == "random":
                stamp = rng.getrandbits(27)
            elif kind == "hot_counter":
                stamp = 1 << rng.randrange(0, 14)
            elif kind == "hot_delta":
                stamp = 1 << rng.randrange(14, 27)
            elif kind == "ones":
                stamp = (1 << 27) - 1
            elif kind == "zero":
                stamp = 0
            elif kind == "bitflip":
                stamp = prev_stamp ^ (1 << rng.randrange(27))
            else:
                stamp = (prev_stamp + 1) & ((1 << 27) - 1)
            res.bin({"random": "itp_random", "hot_counter": "itp_one_hot_counter_bit", "hot_delta": "itp_one_hot_delta_bit",
                     "ones": "itp_all_ones", "zero": "itp_zero", "bitflip": "itp_single_bit_change", "incr": "itp_increment"}[kind])
            prev_stamp = stamp
            dw0 = (stamp << 5) | ITP_TYPE
            if prev_foreign:
                res.bin("itp_after_foreign_header")
            if gap == 0 and prev_itp_b2b:
                res.bin("itp_back_to_back")
            prev_foreign = False
            prev_itp_b2b = True
            hold = 0
        else:
            t = rng.choice(near_types) if rng.random() < 0.6 else rng.choice(other_types)
            res.bin("foreign_type_one_bit_off" if t in near_types else "foreign_type_other")
            dw0 = (rng.getrandbits(27) << 5) | t
            prev_foreign = True
            prev_itp_b2b = False
            hold = rng.randint(1, 4)
        script.append((dw0, rng.getrandbits(32), rng.getrandbits(32), rng.getrandbits(32), gap, hold))
    res.sig(script)
    res.desc = {"headers": n_headers, "p_itp": p_itp, "p_back_to_back": p_b2b,
                "first": [("%08x" % s[0], s[4], s[5]) for s in script[:6]]}

    b = Bench(dut, domain="ss", freq=125e6, max_cycles=n_headers * 16 + 100)
    link_fields = [hdr.crc16, hdr.sequence_number, hdr.dw3_reserved, hdr.hub_depth, hdr.delayed, hdr.deferred, hdr.crc5]
    b.watch(hs.valid, hs.ready, hdr.dw0, dut.update_received, dut.bus_interval_counter, dut.delta)

    accepted = {}        # cycle -> (counter, delta, dw0)
    strobes = {}         # cycle -> (counter_out, delta_out)
    seen = set()

    def report(mech, detail):
        if mech not in seen:
            seen.add(mech)
            res.violation(mech, detail)

    def put(dw0, dw1, dw2, link):
        b.set(hs.valid, 1)
        b.set(hdr.dw0, dw0); b.set(hdr.dw1, dw1); b.set(hdr.dw2, dw2)
        pos = 0
        for f in link_fields:
            b.set(f, (link >> pos) & ((1 << len(f)) - 1))
            pos += len(f)

    def driver():
        b.set(hs.valid, 0)
        yield
        for dw0, dw1, dw2, link, gap, hold in script:
            if gap:
                b.set(hs.valid, 0)
                if rng.random() < 0.5:          # the queue output is don't-care while not valid: leave garbage there
                    b.set(hdr.dw0, (rng.getrandbits(27) << 5) | rng.choice([ITP_TYPE, rng.randrange(32)]))
                for _ in range(gap):
                    yield
            put(dw0, dw1, dw2, link)
            if dw0 & 0x1F == ITP_TYPE:
                waited = 0
                while True:
                    yield
                    if b.get(hs.ready):
                        break
                    waited += 1
                    if waited > MAX_ACCEPT_WAIT:
                        report("timestamp_packet_not_accepted", "ITP dw0=%08x presented at cycle %d not taken within %d cycles"
                               % (dw0, b.cycle - waited, MAX_ACCEPT_WAIT))
                        break
            else:
                res.event("foreign_headers_presented")
                for _ in range(hold):
                    yield
        b.set(hs.valid, 0)
        for _ in range(8):
            yield

    def monitor(b):
        if b.get(hs.valid) and b.get(hs.ready):
            dw0 = b.get(hdr.dw0)
            if dw0 & 0x1F == ITP_TYPE:
                c, d = itp_fields(dw0)
                accepted[b.cycle] = (c, d, dw0)
                res.event("itp_accepted")
                if c > 1:
                    res.bin("counter_upper_bits_set")
                if d > 1:
                    res.bin("delta_upper_bits_set")
                if c >> 13:
                    res.bin("counter_top_bit_set")
                if d >> 12:
                    res.bin("delta_top_bit_set")
            else:
                report("non_timestamp_header_consumed", "cycle %d: header of type %d (dw0=%08x) was taken by the timestamp receiver"
                       % (b.cycle, dw0 & 0x1F, dw0))
        if b.get(dut.update_received):
            strobes[b.cycle] = (b.get(dut.bus_interval_counter), b.get(dut.delta))
            res.event("update_strobes")

    b.add_driver(driver())
    b.add_monitor(monitor)
    b.run()
    res.cycles = b.cycle

    # ---------------------------------------------------------------- judgement: one latency for the whole case
    best = None
    for rank, lat in enumerate(LATENCIES):
        missing = [a for a in accepted if a + lat not in strobes]
        spurious = [s for s in strobes if s - lat not in accepted]
        wrong = [a for a in accepted if a + lat in strobes and strobes[a + lat] != accepted[a][:2]]
        key = (len(missing) + len(spurious), len(wrong), rank)
        if best is None or key < best[0]:
            best = (key, lat, missing, spurious)
    _, lat, missing, spurious = best
    res.desc["update_latency"] = lat
    for a in sorted(missing)[:1]:
        report("update_strobe_missing", "ITP dw0=%08x accepted at cycle %d: no update_received at cycle %d (latency %d fits the rest of the case best)"
               % (accepted[a][2], a, a + lat, lat))
    for s in sorted(spurious)[:1]:
        report("update_without_timestamp_packet", "update_received at cycle %d but no ITP was accepted at cycle %d (latency %d)" % (s, s - lat, lat))
    for a in sorted(accepted):
        if a + lat not in strobes:
            continue
        c, d, dw0 = accepted[a]
        oc, od = strobes[a + lat]
        res.event("counter_compared")
        res.event("delta_compared")
        if oc != c:
            mech = "bus_interval_counter_truncated_to_lsb" if (oc == (c & 1) and len(dut.bus_interval_counter) == 1) else "bus_interval_counter_wrong"
            report(mech, "ITP dw0=%08x (cycle %d): bus_interval_counter=%#x expected %#x (14 bits, DW0[18:5]); port width %d"
                   % (dw0, a, oc, c, len(dut.bus_interval_counter)))
        if od != d:
            mech = "delta_truncated_to_lsb" if (od == (d & 1) and len(dut.delta) == 1) else "delta_wrong"
            report(mech, "ITP dw0=%08x (cycle %d): delta=%#x expected %#x (13 bits, DW0[31:19]); port width %d"
                   % (dw0, a, od, d, len(dut.delta)))
    res.desc["cycles_receiver"] = b.cycle
    res.nontrivial = res.bins.get("counter_upper_bits_set", 0) >= 20 and res.bins.get("delta_upper_bits_set", 0) >= 20 \
        and res.events.get("foreign_headers_presented", 0) >= 10


# ======================================================================================== in the protocol layer

LAYER_WINDOW = 4          # cycles after the header transfer within which bus_interval must show the counter


def _run_layer(rng, res):
    """The receiver as wired inside the real USB3ProtocolLayer (anchored file protocol/layer.py): headers enter through a stub
    link layer's `header_source`, the layer's own demultiplexer presents them to all handlers, and the layer's `bus_interval`
    output must show the full 14-bit counter of every timestamp packet within LAYER_WINDOW cycles of its transfer."""
    from amaranth import Elaboratable, Module, Signal
    from luna.gateware.usb.usb3.protocol.layer import USB3ProtocolLayer
    from luna.gateware.usb.usb3.link.header import HeaderQueue
    from luna.gateware.usb.usb3.link.data import DataHeaderPacket
    from luna.gateware.usb.stream import SuperSpeedStreamInterface

    class StubLink:                      # the ports USB3ProtocolLayer reads/drives on its link layer; no behaviour
        def __init__(self):
            self.header_sink = HeaderQueue()
            self.header_source = HeaderQueue()
            self.data_source = SuperSpeedStreamInterface()
            self.data_header_from_host = DataHeaderPacket()
            self.data_source_complete = Signal()
            self.data_source_invalid = Signal()
            self.data_sink = SuperSpeedStreamInterface()
            self.data_sink_send_zlp = Signal()
            self.data_sink_sequence_number = Signal(5)
            self.data_sink_endpoint_number = Signal(4)
            self.data_sink_length = Signal(range(1024 + 1))
            self.data_sink_direction = Signal()
            self.trained = Signal()
            self.ready = Signal()
            self.in_reset = Signal()

    link = StubLink()
    layer = USB3ProtocolLayer(link_layer=link)

    class Top(Elaboratable):
        def elaborate(self, platform):
            m = Module()
            m.submodules.layer = layer
            return m

    src = link.header_source
    hdr = src.header
    n = rng.randint(30, 60)
    script = []
    for _ in range(n):
        if rng.random() < 0.7:
            stamp = rng.choice([rng.getrandbits(27), rng.getrandbits(27), 1 << rng.randrange(0, 14), (1 << 27) - 1, 0x3FFF, 0x2000 | rng.getrandbits(13)])
            script.append(((stamp << 5) | ITP_TYPE, rng.randint(LAYER_WINDOW + 2, LAYER_WINDOW + 6)))
        else:       # other header types: taken (or not) by the layer's other handlers; only shown for a few cycles
            t = rng.choice([0b00000, 0b00100, 0b01000, ITP_TYPE ^ 1, ITP_TYPE ^ 16, rng.choice([x for x in range(32) if x != ITP_TYPE])])
            script.append(((rng.getrandbits(27) << 5) | t, rng.randint(1, 4)))
    res.sig("layer", script)
    res.desc["layer_first"] = [("%08x" % d, g) for d, g in script[:4]]

    b = Bench(Top(), domain="ss", freq=125e6, max_cycles=n * 40 + 200)
    b.watch(src.valid, src.ready, hdr.dw0, layer.bus_interval)
    expect = []           # [cycle of transfer, counter, dw0, satisfied]
    seen = set()

    def report(mech, detail):
        if mech not in seen:
            seen.add(mech)
            res.violation(mech, "[protocol layer] " + detail)

    def driver():
        b.set(link.ready, 1); b.set(link.trained, 1); b.set(link.header_sink.ready, 1)
        b.set(src.valid, 0)
        for _ in range(3):
            yield
        for dw0, hold in script:
            b.set(hdr.dw0, dw0); b.set(hdr.dw1, rng.getrandbits(32)); b.set(hdr.dw2, rng.getrandbits(32))
            b.set(src.valid, 1)
            if dw0 & 0x1F == ITP_TYPE:
                waited = 0
                while True:
                    yield
                    if b.get(src.ready):
                        break
                    waited += 1
                    if waited > MAX_ACCEPT_WAIT:
                        report("timestamp_packet_not_accepted_by_layer", "ITP dw0=%08x not taken from the link layer's header queue within %d cycles" % (dw0, MAX_ACCEPT_WAIT))
                        break
                b.set(src.valid, 0)
                for _ in range(hold):       # quiet time: the next header comes after the judgement window
                    yield
            else:
                for _ in range(hold):
                    yield
                    if b.get(src.ready):
                        break
                b.set(src.valid, 0)
                yield
        for _ in range(LAYER_WINDOW + 2):
            yield

    def monitor(b):
        t = b.cycle
        bi = b.get(layer.bus_interval)
        for e in expect:
            if not e[3] and 0 <= t - e[0] <= LAYER_WINDOW and bi == e[1]:
                e[3] = True
        if expect and not expect[-1][3] and t - expect[-1][0] == LAYER_WINDOW:
            e = expect[-1]
            report("protocol_layer_bus_interval_wrong", "ITP dw0=%08x taken at cycle %d: bus_interval never showed %#x within %d cycles (now %#x, port width %d)"
                   % (e[2], e[0], e[1], LAYER_WINDOW, bi, len(layer.bus_interval)))
        if t - (expect[-1][0] if expect else -99) == LAYER_WINDOW:
            res.event("layer_bus_interval_compared")
        if b.get(src.valid) and b.get(src.ready):
            dw0 = b.get(hdr.dw0)
            if dw0 & 0x1F == ITP_TYPE:
                c, _ = itp_fields(dw0)
                expect.append([t, c, dw0, False])
                res.bin("layer_itp_taken")
                if c > 0xFF:
                    res.bin("layer_counter_upper_bits_set")
                if c >> 13:
                    res.bin("layer_counter_top_bit_set")

    b.add_driver(driver())
    b.add_monitor(monitor)
    b.run()
    return b.cycle


def run_case(rng, tier, res):
    _run_receiver(rng, tier, res)
    if rng.random() < 0.35:
        res.cycles += _run_layer(rng, res)
