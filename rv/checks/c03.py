"""C03 — USB2 transmitted data packets are correctly framed with a valid CRC16.

DUTs (one per case):
  * `USBDataPacketGenerator(standalone=True)` (own CRC unit, advancing on `tx.ready`),
  * the generator inside a real `USBDevice(bus=UTMIInterface())`: the testbench plays an endpoint (an object with an
    `EndpointInterface`, added with `add_endpoint()`, a second idle endpoint sits in front of it in the multiplexers) and
    drives `interface.tx` / `tx_pid_toggle`, so the endpoint multiplexer, the transmit multiplexer and the device wiring
    `data_crc.tx_valid = output.valid & tx_ready` with the CRC unit *shared with the receiver* are in the loop.  Between
    transmissions the host sends packets (data packets leave the shared CRC register in an arbitrary state) and the
    endpoint issues handshakes.

Workload: 25-50 transmit requests per case: payloads of 0 (ZLP: `last` without `first`, one-cycle pulse) to 70 bytes
(lengths 1,2,3,7,8,9,63,64,65 favoured; position-tagged / random / constant / PID look-alike bytes), PID select 0-3 (changed
between packets, a different value is shown while idle), `first` held until the byte is taken or pulsed for one cycle,
`valid` held from first to last byte (USBInStream contract; under-run is outside the contract and never generated);
the next request follows 0.. cycles after the last payload byte was taken (i.e. also while the previous CRC is still
being sent), ZLP requests from the very first idle cycle of the transmitter on.  `tx_ready` profiles: always, 1-in-k,
random p, bursty, low until tx_valid is seen (ULPI-like), each combined with stalls placed on purpose on the PID, the
first / a middle / the last payload byte, the first and the second CRC byte.

Monitors: (1) UTMI capture: a byte is sent when `tx_valid & tx_ready`, a packet ends when `tx_valid` falls; per byte the number
of stall cycles in front of it is recorded (coverage is derived from what was observed, not from what was intended);
(2) stream monitor: every `valid & ready` on the endpoint stream with payload; (3) progress watchdogs (bounded liveness /
conservation): work pending and no byte accepted during 40 cycles with `tx_ready` high, work pending and `tx_valid` low for 60
cycles, or a byte sent although everything requested has already left => violation, case aborted.

Oracle (rv.ref PID table + bit-serial CRC16; no luna code): the k-th packet on the wire == PID(DATA0/1/2/MDATA by select) ||
payload_k || CRC16(payload_k) low byte first; number of packets == number of requests (no split, duplicate or unsolicited
packet); the stream handshakes between request k and request k+1 are exactly payload_k, in order, once (none for a ZLP).

Not judged: stability of tx_data while stalled (the statement defines a packet by the accepted bytes), latency (only the
progress bound above), under-run (`valid` dropped inside a packet), simultaneous transmit requests of several endpoints,
host transmitting while the device transmits.

Validation (tools/mut.py, 93 repository tests green unless noted): caught — device `data_crc.tx_valid` without `& tx_ready`,
stand-alone CRC advancing on tx.valid, SEND_PAYLOAD / SEND_PID / SEND_CRC_FIRST / SEND_CRC_SECOND left without tx.ready,
device data_pid reduced to one bit.  Killed by the repository tests (and also caught): live CRC instead of `remaining_crc`,
`is_zlp` never cleared, PID latched only while the stream is idle, no CRC clear for a ZLP, conditional `remaining_crc`
capture, CRC clear only while the PID is stalled, multiplexer PID select without the `tx.valid` term, single byte sent as ZLP.
"""
from rv.sim import Bench
from rv.usb2host import UTMIHost, init_device_signals
from rv.ref import usb2 as U
from rv.ref.crc import usb2_crc16

PROPERTY = "C03"
CASES = {"quick": 400, "thorough": 6400}
RULE = ("case = DUT (stand-alone generator | generator inside USBDevice driven through an endpoint interface) + tx_ready profile + "
        "25-50 transmit requests (payload 0-70 bytes, PID select 0-3, request spacing, first-as-strobe, directed stalls on PID / "
        "first / middle / last payload byte / CRC bytes; in-device: host packets and handshakes in between); non-trivial = the case "
        "contains a ZLP, a payload packet and observed stalls on a CRC byte and on a last payload byte; distinct = hash of all of it")
REQUIRED_BINS = [
    "mode_standalone", "mode_device",
    "pid_DATA0", "pid_DATA1", "pid_DATA2", "pid_MDATA",
    "zlp", "len1", "len2", "len_ge64",
    "stall_on_pid", "stall_on_first_payload", "stall_on_mid_payload", "stall_on_last_payload", "stall_on_crc0", "stall_on_crc1",
    "stall_only_on_crc0", "stall_only_on_crc1", "stall_only_on_last_payload", "unstalled_packet",
    "request_during_previous_crc", "zlp_in_first_idle_cycle", "zlp_after_data", "data_after_zlp", "zlp_stall_on_crc",
    "first_as_strobe", "first_held", "pid_differs_from_idle_value", "pid_changed_between_packets",
    "ready_low_until_valid", "ready_high_before_valid", "device_rx_data_before_tx", "device_handshake_before_tx",
]
REQUIRED_EVENTS = ["packets_compared", "payload_bytes_compared", "crc_bytes_compared", "stream_handshakes", "cycles_monitored",
                   "requests_issued"]
ASSUMPTIONS = [
    "stream contract: valid held from the first to the last byte of a packet, payload/first/last stable until ready; ZLP = one-cycle "
    "valid & last & ~first pulse while tx_valid is low",
    "tx_pid_toggle / data_pid stable from the first valid cycle of a request until its last payload byte was taken (ZLP: until the "
    "packet has left)",
    "in-device: one endpoint transmits at a time, host silent while the device transmits",
]

PIDS = [U.DATA0, U.DATA1, U.DATA2, U.MDATA]      # select 0..3 (documented mapping of data_pid)
PIDNAME = {0: "DATA0", 1: "DATA1", 2: "DATA2", 3: "MDATA"}
LENGTHS = [0, 0, 0, 1, 1, 2, 2, 3, 4, 7, 8, 9, 16, 31, 32, 33, 63, 64, 64, 65, 70]


def gen_payload(rng, n):
    style = rng.random()
    if style < 0.5:
        salt = rng.randrange(256)
        return bytes((salt + 37 * i + (i >> 8)) & 0xFF for i in range(n))
    if style < 0.8:
        return bytes(rng.randrange(256) for _ in range(n))
    if style < 0.9:
        return bytes([rng.choice([0x00, 0xFF, 0x80, 0x01])] * n)
    return bytes(rng.choice([0xC3, 0x4B, 0x87, 0x0F, 0xD2, 0x5A, 0x1E]) for _ in range(n))


class WirePkt:
    __slots__ = ("data", "stalls", "first_valid", "end", "ready_before")

    def __init__(self, cyc, ready_before):
        self.ready_before = ready_before      # tx_ready in the cycle before tx_valid rose
        self.data = bytearray()
        self.stalls = {}          # byte index -> stall cycles observed in front of that byte
        self.first_valid = cyc
        self.end = None


def build_standalone():
    from luna.gateware.usb.usb2.packet import USBDataPacketGenerator
    dut = USBDataPacketGenerator(standalone=True)
    return dut


def build_device():
    from amaranth import Elaboratable, Module
    from luna.gateware.interface.utmi import UTMIInterface
    from luna.gateware.usb.usb2.device import USBDevice
    from luna.gateware.usb.usb2.endpoint import EndpointInterface

    class TbEndpoint(Elaboratable):
        def __init__(self):
            self.interface = EndpointInterface()

        def elaborate(self, platform):
            return Module()

    utmi = UTMIInterface()
    dev = USBDevice(bus=utmi)
    idle_ep = TbEndpoint()
    ep = TbEndpoint()
    dev.add_endpoint(idle_ep)
    dev.add_endpoint(ep)
    return dev, utmi, ep


class QuietHost(UTMIHost):
    """UTMIHost whose tx_ready is driven by this check's own ready driver."""

    def _ready_driver(self):
        while True:
            yield


def run_case(rng, tier, res):
    mode = rng.choice(["standalone", "device"])
    res.bin("mode_" + mode)
    in_device = mode == "device"
    if in_device:
        dev, utmi, ep = build_device()
        b = Bench(dev, domain="usb", freq=60e6, max_cycles=120000)
        host = QuietHost(b, utmi, rng, timing="fs12", ready_profile="always")
        stream, pid_sig = ep.interface.tx, ep.interface.tx_pid_toggle
        t_valid, t_data, t_ready = utmi.tx_valid, utmi.tx_data, utmi.tx_ready
    else:
        dut = build_standalone()
        b = Bench(dut, domain="usb", freq=60e6, max_cycles=120000)
        host = dev = utmi = ep = None
        stream, pid_sig = dut.stream, dut.data_pid
        t_valid, t_data, t_ready = dut.tx.valid, dut.tx.data, dut.tx.ready
    b.watch(stream.valid, stream.ready, stream.payload, stream.first, stream.last, pid_sig, t_valid, t_data, t_ready)

    base = rng.choice(["always", "always", ("every", rng.randint(2, 5)), ("random", rng.choice([0.2, 0.5, 0.8])),
                       ("bursty", rng.randint(2, 12), rng.randint(1, 6)), "after_valid"])
    res.desc = {"mode": mode, "ready": base, "requests": []}
    res.sig(mode, base)

    wire = []                 # WirePkt
    hs = []                   # (cycle, payload) stream handshakes
    requests = []             # dict(t, pid, payload, zlp)
    st = {"cur": None, "acc": 0, "valid": 0, "pending": 0, "ready_idle": 0, "abort": False,
          "directed": {}, "hold_low": False, "last_accept": 0, "prev_ready": 0, "novalid": 0, "idle_pid": None}

    # ------------------------------------------------------------------ monitors
    def monitor(b):
        cyc = b.cycle
        v, r, d = b.get(t_valid), b.get(t_ready), b.get(t_data)
        res.event("cycles_monitored")
        if v:
            if st["cur"] is None:
                st["cur"] = WirePkt(cyc, st["prev_ready"])
            cur = st["cur"]
            st["novalid"] = 0
            if r:
                cur.data.append(d)
                st["pending"] -= 1
                st["ready_idle"] = 0
                st["last_accept"] = cyc
            else:
                i = len(cur.data)
                cur.stalls[i] = cur.stalls.get(i, 0) + 1
        elif st["cur"] is not None:
            st["cur"].end = cyc
            wire.append(st["cur"])
            st["cur"] = None
        st["valid"] = v
        st["prev_ready"] = r
        if st["pending"] < 0 and not st["abort"]:
            st["abort"] = True
            res.violation("more_bytes_sent_than_requested", "cyc=%d: a byte was sent although everything requested had already left; "
                          "wire so far=%s; last requests=%s" % (cyc, [bytes(w.data).hex() for w in wire[-2:]], res.desc["requests"][-2:]))
        if st["pending"] > 0 and not v:
            st["novalid"] += 1
            if st["novalid"] > 60 and not st["abort"]:
                st["abort"] = True
                res.violation("transmitter_never_started", "cyc=%d: %d requested bytes outstanding, tx_valid low for 60 cycles; last "
                              "requests=%s" % (cyc, st["pending"], res.desc["requests"][-2:]))
        st["acc"] = len(st["cur"].data) if st["cur"] is not None else 0
        if b.get(stream.valid) and b.get(stream.ready):
            hs.append((cyc, b.get(stream.payload)))
            res.event("stream_handshakes")
        # progress watchdog (bounded liveness): work pending, PHY ready, nothing accepted
        if st["pending"] > 0 and r and not (v and r):
            st["ready_idle"] += 1
            if st["ready_idle"] > 40 and not st["abort"]:
                st["abort"] = True
                res.violation("transmitter_no_progress", "cyc=%d: %d requested bytes outstanding, tx_ready high for 40 cycles without a "
                              "byte being sent; last requests=%s" % (cyc, st["pending"], res.desc["requests"][-2:]))

    # ------------------------------------------------------------------ tx_ready driver
    def ready_driver():
        i = 0
        burst = [0, 0]
        after_valid_delay = 0
        while True:
            # base profile
            if base == "always":
                r = 1
            elif base == "after_valid":
                if not st["valid"]:
                    r = 0
                    after_valid_delay = rng.randint(0, 3)
                elif after_valid_delay > 0:
                    after_valid_delay -= 1
                    r = 0
                else:
                    r = 1 if rng.random() < 0.85 else 0
            elif base[0] == "every":
                r = 1 if i % base[1] == base[1] - 1 else 0
            elif base[0] == "random":
                r = 1 if rng.random() < base[1] else 0
            else:
                if burst[0] == 0 and burst[1] == 0:
                    burst = [rng.randint(1, base[1]), rng.randint(1, base[2])]
                if burst[0] > 0:
                    burst[0] -= 1
                    r = 0
                else:
                    burst[1] -= 1
                    r = 1
            i += 1
            # directed stalls, on top
            dct = st["directed"]
            if st["valid"]:
                k = st["acc"]
                if dct.get(k, 0) > 0:
                    dct[k] -= 1
                    r = 0
            elif st["hold_low"]:
                r = 0
            b.set(t_ready, r)
            yield

    # ------------------------------------------------------------------ endpoint (stream) driver
    def set_idle_stream():
        b.set(stream.valid, 0); b.set(stream.first, 0); b.set(stream.last, 0)

    def host_activity():
        """in-device: something on the receive side / a handshake before the next transmission"""
        k = rng.random()
        if k < 0.5:
            # OUT token + data packet: the shared CRC register is left in an arbitrary state
            if rng.random() < 0.5:
                yield from host.send_raw(U.token(U.OUT, 0, rng.randrange(16)))
                yield from host.idle(rng.randint(3, 8))
            pl = bytes(rng.randrange(256) for _ in range(rng.choice([0, 1, 8, rng.randint(0, 20)])))
            pkt = bytearray(U.data(rng.choice(U.DATA_PIDS), pl))
            if rng.random() < 0.3:
                pkt[-1] ^= 1 << rng.randrange(8)
            yield from host.send_raw(bytes(pkt), gaps=rng.choice(["none", "random"]))
            res.bin("device_rx_data_before_tx")
            yield from host.idle(rng.choice([6, 6, 8, 12, 20]))
        elif k < 0.75:
            yield from host.send_raw(U.token(U.IN, 0, rng.randrange(16)))
            yield from host.idle(rng.choice([6, 8, 12]))
        else:
            sig = rng.choice([ep.interface.handshakes_out.ack, ep.interface.handshakes_out.nak, ep.interface.handshakes_out.stall])
            st["pending"] += 1
            requests.append({"t": b.cycle, "handshake": True, "pid": None, "payload": b"", "zlp": False})
            b.set(sig, 1)
            yield
            b.set(sig, 0)
            for _ in range(3000):
                if st["abort"] or (st["pending"] <= 0 and not st["valid"] and st["cur"] is None):
                    break
                yield
            res.bin("device_handshake_before_tx")
            yield from host.idle(rng.randint(1, 4))

    def wait_wire_idle():
        """until everything requested so far has left and tx_valid was seen low"""
        for _ in range(30000):
            if st["abort"]:
                return
            if st["pending"] <= 0 and not st["valid"] and st["cur"] is None:
                return
            yield

    def driver():
        if in_device:
            init_device_signals(b, dev, utmi)
        set_idle_stream()
        b.set(pid_sig, rng.randrange(4))
        for _ in range(rng.randint(3, 8)):
            yield
        nreq = rng.randint(25, 50)
        prev_pid = None
        prev_zlp = None
        early_next = None        # cycles after the last payload byte was taken at which the next request may start
        for k in range(nreq):
            if st["abort"]:
                break
            n = rng.choice(LENGTHS) if rng.random() < 0.75 else rng.randint(0, 70)
            if rng.random() < (0.02 if tier == "thorough" else 0.008):   # both tiers: maximum-size boundaries
                n = rng.choice([511, 512, 513, 1023, 1024])          # high-speed bulk / isochronous sizes
            payload = gen_payload(rng, n)
            pid = rng.randrange(4)
            zlp = n == 0
            # ---- spacing with respect to the previous packet
            spacing = rng.random()
            if k == 0 or zlp or in_device and rng.random() < 0.5:
                # needs the transmitter idle (ZLP pulse) or host activity first
                first_idle = zlp and k > 0 and rng.random() < 0.4
                if first_idle and prev_zlp is False:
                    # pulse in the very first cycle in which the transmitter is idle again: the last CRC byte is the
                    # (n_prev + 3)-th accepted byte; act in the cycle after it was seen accepted
                    for _ in range(30000):
                        if st["abort"] or (st["pending"] <= 0):
                            break
                        yield
                    res.bin("zlp_in_first_idle_cycle")
                else:
                    yield from wait_wire_idle()
                    if in_device and rng.random() < 0.7:
                        yield from host_activity()
                    for _ in range(rng.choice([0, 0, 1, 2, 3, 5, 9])):
                        yield
            else:
                # payload packet requested `g` cycles after the previous payload was consumed (possibly during its CRC)
                g = rng.choice([0, 0, 1, 2, 3, 4, 5, 7, 12])
                for _ in range(g):
                    yield
                if st["pending"] > 0:
                    res.bin("request_during_previous_crc")
            if st["abort"]:
                break
            # ---- directed stalls for this packet (wire byte indexes: 0 = PID, 1..n payload, n+1, n+2 CRC)
            directed = {}
            if rng.random() < 0.6:
                cands = [0, n + 1, n + 2] + ([1, n] if n else []) + ([rng.randint(1, n)] if n > 2 else [])
                for idx in rng.sample(cands, rng.randint(1, min(3, len(cands)))):
                    directed[idx] = rng.choice([1, 1, 2, 3, 7])
            only_if_idle = st["pending"] == 0 and not st["valid"]
            if only_if_idle:
                st["directed"] = directed
                st["hold_low"] = 0 in directed
            # (when the previous packet is still leaving, its directed stalls stay in force; the new ones are dropped)
            # ---- the request
            # (what is set now is seen by the DUT from the next cycle on)
            req = {"t": b.cycle + 1, "pid": pid, "payload": payload, "zlp": zlp, "handshake": False}
            requests.append(req)
            res.event("requests_issued")
            st["pending"] += n + 3
            if len(res.desc["requests"]) < 12:
                res.desc["requests"].append([pid, payload.hex(), sorted(directed.items())])
            res.sig(pid, payload, sorted(directed.items()), b.cycle)
            if prev_pid is not None and prev_pid != pid:
                res.bin("pid_changed_between_packets")
            if prev_zlp is True and not zlp:
                res.bin("data_after_zlp")
            if prev_zlp is False and zlp:
                res.bin("zlp_after_data")
            prev_pid, prev_zlp = pid, zlp
            if st["idle_pid"] is not None and st["idle_pid"] != pid:
                res.bin("pid_differs_from_idle_value")
            st["idle_pid"] = None
            b.set(pid_sig, pid)
            if zlp:
                b.set(stream.valid, 1); b.set(stream.last, 1); b.set(stream.first, 0); b.set(stream.payload, rng.randrange(256))
                yield
                set_idle_stream()
                yield
                # wait until the ZLP has left before anything else (a real endpoint waits for the host here)
                yield from wait_wire_idle()
            else:
                # `first` may be a one-cycle strobe only when the transmitter is idle (it samples first & valid in its idle state)
                strobe_first = only_if_idle and rng.random() < 0.5
                res.bin("first_as_strobe" if strobe_first else "first_held")
                idx = 0
                b.set(stream.valid, 1); b.set(stream.first, 1); b.set(stream.last, n == 1); b.set(stream.payload, payload[0])
                yield
                if strobe_first:
                    b.set(stream.first, 0)
                for _ in range(40000):
                    if st["abort"]:
                        break
                    if b.get(stream.valid) and b.get(stream.ready):
                        idx += 1
                        if idx >= n:
                            break
                        b.set(stream.payload, payload[idx]); b.set(stream.first, 0); b.set(stream.last, idx == n - 1)
                    yield
                set_idle_stream()
            # show a different PID select while idle (stand-alone only; in the device the multiplexer hides it anyway)
            if not in_device and rng.random() < 0.6 and st["pending"] <= 0:
                st["idle_pid"] = rng.randrange(4)
                b.set(pid_sig, st["idle_pid"])
        yield from wait_wire_idle()
        for _ in range(30):
            yield

    b.add_monitor(monitor)
    b.add_driver(ready_driver(), main=False)
    b.add_driver(driver())
    b.run()
    res.cycles = b.cycle
    if b.hit_max_cycles and not st["abort"]:
        res.violation("harness_max_cycles", "case did not finish in %d cycles" % b.max_cycles)
        return
    if st["cur"] is not None:
        wire.append(st["cur"])
    judge(res, mode, requests, wire, hs, st["abort"], b.cycle)


def judge(res, mode, requests, wire, hs, aborted, end_cycle):
    HANDSHAKES = {U.pid_byte(U.ACK), U.pid_byte(U.NAK), U.pid_byte(U.STALL)}
    if not aborted:
        if len(wire) < len(requests):
            res.violation("packet_missing", "mode=%s %d requests, %d packets on the wire; last wire packets=%s" % (
                mode, len(requests), len(wire), [bytes(w.data).hex() for w in wire[-3:]]))
        elif len(wire) > len(requests):
            res.violation("unsolicited_or_split_packet", "mode=%s %d requests, %d packets on the wire; wire=%s" % (
                mode, len(requests), len(wire), [bytes(w.data).hex() for w in wire[:6]]))
    seen = {"zlp": 0, "data": 0, "crc_stall": 0, "last_stall": 0}
    pid_idle_diff = 0
    for k, (rq, w) in enumerate(zip(requests, wire)):
        got = bytes(w.data)
        if rq["handshake"]:
            if len(got) != 1 or got[0] not in HANDSHAKES:
                res.violation("handshake_request_produced_other_packet", "mode=%s request#%d wire=%s" % (mode, k, got.hex()))
            continue
        payload = rq["payload"]
        n = len(payload)
        exp = bytes([U.pid_byte(PIDS[rq["pid"]])]) + payload + usb2_crc16(payload)
        lo = rq["t"]
        hi = requests[k + 1]["t"] if k + 1 < len(requests) else end_cycle + 1
        taken = bytes(v for c, v in hs if lo <= c < hi)
        stalled = sorted(i for i, c in w.stalls.items() if c)
        ctx = "mode=%s request#%d pid_select=%d payload=%s wire=%s expected=%s stalls_before_byte=%s" % (
            mode, k, rq["pid"], payload.hex(), got.hex(), exp.hex(), dict(sorted(w.stalls.items())))
        res.event("packets_compared")
        res.event("payload_bytes_compared", n)
        res.event("crc_bytes_compared", 2)
        if got != exp:
            if len(got) == 0 or got[0] != exp[0]:
                mech = "pid_wrong"
            elif rq["zlp"] and len(got) != 3:
                mech = "zlp_not_empty"
            elif len(got) != len(exp):
                mech = "packet_length_wrong"
            elif got[1:1 + n] != payload:
                mech = "payload_wrong"
            elif got[-2:] == exp[-2:][::-1]:
                mech = "crc16_byte_order"
            elif got[-2] == exp[-2]:
                mech = "crc16_second_byte_wrong"
            else:
                mech = "crc16_wrong"
            res.violation(mech, ctx)
        if taken != payload:
            res.violation("stream_handshake_mismatch", "%s stream bytes taken=%s" % (ctx, taken.hex()))
        # ---- coverage from what was observed
        if got == exp:
            res.bin("pid_" + PIDNAME[rq["pid"]])
        if rq["zlp"]:
            res.bin("zlp")
            seen["zlp"] += 1
            if (n + 1) in stalled or (n + 2) in stalled:
                res.bin("zlp_stall_on_crc")
        else:
            seen["data"] += 1
            if n == 1:
                res.bin("len1")
            elif n == 2:
                res.bin("len2")
            elif n >= 64:
                res.bin("len_ge64")
        if not stalled:
            res.bin("unstalled_packet")
        if 0 in stalled:
            res.bin("stall_on_pid")
        res.bin("ready_low_until_valid" if not w.ready_before else "ready_high_before_valid")
        if n and 1 in stalled:
            res.bin("stall_on_first_payload")
        if n > 2 and any(1 < i < n for i in stalled):
            res.bin("stall_on_mid_payload")
        if n and n in stalled:
            res.bin("stall_on_last_payload")
            seen["last_stall"] += 1
            if stalled == [n]:
                res.bin("stall_only_on_last_payload")
        if (n + 1) in stalled:
            res.bin("stall_on_crc0")
            seen["crc_stall"] += 1
            if stalled == [n + 1]:
                res.bin("stall_only_on_crc0")
        if (n + 2) in stalled:
            res.bin("stall_on_crc1")
            seen["crc_stall"] += 1
            if stalled == [n + 2]:
                res.bin("stall_only_on_crc1")
    res.nontrivial = all(seen.values())
