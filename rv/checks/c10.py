"""C10 -- unsupported or unclaimed control requests are STALLed, never answered.

DUT: real USBDevice(bus=UTMIInterface()) with the standard control endpoint (StandardRequestHandler + luna's fallback
stall handler), in half of the cases plus a vendor request handler (written here, on the public
add_request_handler() extension point) that claims exactly one vendor request; two real USBStreamInEndpoints (EP1, EP2
IN, 8-byte packets, stream always valid) supply traffic "to another endpoint" and visible data toggles; a passive spy
endpoint observes active_address / active_config / clear_endpoint_halt strobes.  12 MHz full-speed tables
(USBDevice(bus=UTMIInterface())) or the 60 MHz full-speed tables (always_fs=False, full_speed_only held).

Workload: a session of 14-30 control transfers.  About 60 % are unsupported requests (judged): standard requests
outside {GET_STATUS, CLEAR_FEATURE, SET_ADDRESS, GET_DESCRIPTOR, GET_CONFIGURATION, SET_CONFIGURATION}, with
parameters that differ from a supported request in one field / one bit; CLEAR_FEATURE with recipient != endpoint or
feature != ENDPOINT_HALT; class / vendor / reserved-type requests nobody claims (also the claimed vendor request
number with another type, and other numbers with the claimed type); both directions; wLength 0 and > 0.  Each is
followed by a host plan of data-stage / status-stage transactions (IN first, OUT data then IN, OUT status first,
repeated INs, bulk IN to EP1 with ACK in the middle, SOF).  The rest are supported requests that move the device
state (SET_ADDRESS, SET_CONFIGURATION, GET_DESCRIPTOR, GET_STATUS, GET_CONFIGURATION, CLEAR_FEATURE(ENDPOINT_HALT),
the claimed vendor request), completed legally or (in 60 % of the sessions, ~20 % of them) abandoned by the host part-way, so that the unsupported
request meets the handlers in every state; and pairs "GET_DESCRIPTOR of a descriptor the device lacks (ends with STALL)
immediately followed by an unsupported request" (no-data / IN with data + OUT status / OUT with data).

Monitors: every packet the device transmits (wire capture of the host model), attributed to the host transaction
that solicited it; every cycle: address, configuration, clear-halt strobe at the spy endpoint; EP1 data PID sequence.

Oracle (from the statement and USB 2.0 8.5.3 / 9.4): the request class is decided from the eight setup bytes only.
For an unsupported request: SETUP is ACKed; no transaction of the transfer is answered with a data packet (payload or
zero length) or an ACK; the first IN token (data stage or status stage; NAKs before it are tolerated) is answered
with STALL, and so is an OUT status stage that comes first; between its SETUP and the next SETUP the address and the
configuration do not change, no clear-halt strobe is raised and the EP1 toggle is not disturbed.

Not judged: supported requests (their outcome is C07-C09); what the device answers after it has STALLed once, as long
as it is neither data nor ACK; OUT data-stage packets may stay unanswered (the statement only forbids an ACK); PING.
A failed supported request is only counted (event `supported_failed`).  The effect of a clear-halt strobe on the EP1 / EP2
toggle is not judged a second time (the strobe is); an unexplained toggle change is.

Mechanism names = effect + classifier context (history pattern only; the verdict never depends on it):
  * handler context `abandoned`: the host abandoned the previous standard-type transfer (script flag) or an unsupported
    standard request never reached a STALL, and no supported standard transfer has completed since (not sticky: since
    the repair of StandardRequestHandler a new SETUP restarts the handler, so nothing later may be excused)
    -> `unsupported_request_{answered,not_stalled,state_changed}_after_abandoned_transfer`;
  * handler context `clear_feature`: the previous standard-type transfer was an unsupported CLEAR_FEATURE and the host has
    not sent an ACK while a standard request was current since
    -> `unsupported_request_{answered,not_stalled,state_changed}_after_unsupported_clear_feature`;
  * fresh handler, request itself an unsupported CLEAR_FEATURE: `unsupported_clear_feature_clears_halt_on_host_ack`,
    `unsupported_clear_feature_not_stalled_after_host_ack` (a host ACK was sent since its SETUP),
    `unsupported_clear_feature_data_stage_not_stalled`;
  * a supported request that failed on a fresh handler -> context `failed` (`..._after_failed_supported_request`, not known);
  * everything else: `unsupported_request_<effect>` (answered_with_data, answered_with_zlp, acked, out_data_acked,
    not_stalled_at_{data_in,status_in,status_out}, address_changed, config_changed, clear_halt_strobe, ...).
"""
from rv.sim import Bench
from rv.usb2host import UTMIHost, init_device_signals
from rv.ref import usb2 as U

PROPERTY = "C10"
CASES = {"quick": 256, "thorough": 4096}
RULE = ("case = (timing table, vendor handler present?, tx_ready / rx gap profile, 14-30 control transfers: ~60% unsupported "
        "requests of every class with a random host plan, rest supported requests completed or abandoned); non-trivial = >=5 "
        "judged unsupported requests of >=3 classes and address or configuration non-zero at some point; distinct = hash of "
        "the transfer script")
REQUIRED_BINS = ["std_unimplemented_request", "std_request_one_bit_from_supported", "clear_feature_wrong_recipient",
                 "clear_feature_wrong_feature", "class_request", "vendor_unclaimed", "reserved_type", "vendor_handler_present",
                 "vendor_handler_absent", "no_handler_at_all", "handlers_1", "handlers_2", "handlers_3", "skiplist_present",
                 "skiplist_via_skiplist", "skiplist_via_blacklist", "std_skiplisted", "std_no_standard_handler",
                 "neighbour_of_extra_handler", "unsupported_neighbour_windex_wlength_flip", "claimed_number_other_type", "claimed_type_other_number", "wlength_zero", "in_with_data",
                 "out_with_data", "plan_out_data_then_in", "plan_out_status_first", "plan_second_in", "plan_bulk_between",
                 "address_nonzero_during_request", "config_nonzero_during_request", "after_abandoned_transfer",
                 "after_unsupported_clear_feature", "after_completed_supported", "after_stalled_supported_request",
                 "after_stalled_nodata", "after_stalled_in_data", "after_stalled_out_data", "endpoint_recipient_value0", "one_field_from_supported", "timing_fs12",
                 "timing_fs60", "tx_backpressure"]
REQUIRED_EVENTS = ["cycles_monitored", "unsupported_judged", "stall_seen", "setup_acked", "first_in_judged", "out_data_judged",
                   "bulk_in_packets", "bulk_toggle_checked", "supported_ended_with_stall", "supported_completed", "legit_clear_halt_strobes", "address_changes", "config_changes"]
ASSUMPTIONS = [
    "supported standard requests are those StandardRequestHandler documents: GET_STATUS, CLEAR_FEATURE(ENDPOINT_HALT) on an "
    "endpoint, SET_ADDRESS, GET_DESCRIPTOR, GET_CONFIGURATION, SET_CONFIGURATION; everything else of type standard is unsupported",
    "the host always addresses the device at its actual current address (read from the spy endpoint) so that a wrongly "
    "changed address is reported once by the state monitor instead of de-synchronising the session",
    "NAKs before the STALL of the first IN token are tolerated (at most 3)",
    "full speed only; PING is not generated",
]

GROUP = {"answered_with_zlp": "answered", "answered_with_data": "answered", "acked": "answered", "out_data_acked": "answered",
         "malformed_response": "answered", "not_stalled_at_data_in": "not_stalled", "not_stalled_at_status_in": "not_stalled",
         "not_stalled_at_status_out": "not_stalled", "address_changed": "state_changed", "config_changed": "state_changed",
         "clear_halt_strobe": "state_changed", "endpoint_toggle_disturbed": "state_changed"}
VENDOR_REQ = 0x42
STD_SUPPORTED = (0, 1, 5, 6, 8, 9)
STALL_B, ACK_B, NAK_B = U.pid_byte(U.STALL), U.pid_byte(U.ACK), U.pid_byte(U.NAK)


# ------------------------------------------------------------------------------------------------ reference: request class

SKIPS = {   # name -> predicate over the setup bytes: the standard requests the StandardRequestHandler is told to skip
    "get_status": lambda s: s[1] == 0,
    "get_config": lambda s: s[1] == 8,
    "set_config_2": lambda s: s[1] == 9 and (s[2] | (s[3] << 8)) == 2,
    "string_desc": lambda s: s[1] == 6 and s[3] == 3,
}


class Cfg:
    """handler configuration of the control endpoint (truthy iff the (vendor, VENDOR_REQ) handler is present)"""
    def __init__(self, claimed=(), skip=None, skip_kw="skiplist", standard=True):
        self.claimed, self.skip, self.skip_kw, self.standard = set(claimed), skip, skip_kw, standard

    def __bool__(self):
        return (2, VENDOR_REQ) in self.claimed

    def __repr__(self):
        return "Cfg(claimed=%s skip=%s/%s standard=%s)" % (sorted(self.claimed), self.skip, self.skip_kw, self.standard)


def classify_request(s, vendor_present):
    """-> ('supported', name) | ('unsupported', class-bin)  from the eight setup bytes only (USB 2.0 table 9-2 .. 9-4)
    and the handler configuration (which (type, bRequest) pairs are claimed, which standard requests are skipped)."""
    cfg = vendor_present if isinstance(vendor_present, Cfg) else Cfg([(2, VENDOR_REQ)] if vendor_present else [])
    typ, recipient = (s[0] >> 5) & 3, s[0] & 0x1F
    req, value = s[1], s[2] | (s[3] << 8)
    if (typ, req) in cfg.claimed:
        return "supported", "vendor_claimed"
    if typ == 0 and not cfg.standard:
        return "unsupported", "std_no_standard_handler"
    if typ == 0 and cfg.skip and SKIPS[cfg.skip](s):
        return "unsupported", "std_skiplisted"
    if typ == 0:
        if req == 1:
            if recipient != 2:
                return "unsupported", "clear_feature_wrong_recipient"
            if value != 0:
                return "unsupported", "clear_feature_wrong_feature"
            return "supported", "clear_halt"
        if req in STD_SUPPORTED:
            return "supported", "std_%d" % req
        return "unsupported", "std_unimplemented_request"
    return "unsupported", {1: "class_request", 2: "vendor_unclaimed", 3: "reserved_type"}[typ]


# ------------------------------------------------------------------------------------------------ script

def gen_unsupported(rng, vendor_present, res):
    """eight setup bytes of an unsupported request + coverage bins"""
    r = rng.random()
    wlen = rng.choice([0, 0, 0, 1, 2, 8, 18, 64, 255, 0x100, 0xFFFF])
    direction = rng.choice([0, 0x80])
    recipient = rng.choice([0, 0, 1, 2, 2, 3, rng.randrange(32)])
    value = rng.choice([0, 0, 1, 2, 0x100, 0x200, 0x300, rng.randrange(1 << 16)])
    index = rng.choice([0, 0, 1, 0x81, 0x01, 0x80, rng.randrange(1 << 16)])
    cfg = vendor_present
    if isinstance(cfg, Cfg) and cfg.skip and rng.random() < 0.22:
        # a standard request the StandardRequestHandler was told to skip and nobody else claims: the fallback must STALL it
        s = {"get_status": U.setup_bytes(rng.choice([0x80, 0x81, 0x82]), 0, 0, rng.choice([0, 0x81]), 2),
             "get_config": U.setup_bytes(0x80, 8, 0, 0, 1),
             "set_config_2": U.setup_bytes(0x00, 9, 2, 0, 0),
             "string_desc": U.setup_bytes(0x80, 6, 0x0300 | rng.choice([0, 1, 2]), rng.choice([0, 0x0409]), rng.choice([2, 4, 255]))}[cfg.skip]
        return s, classify_request(s, cfg)[1]
    if isinstance(cfg, Cfg) and len(cfg.claimed) >= 2 and rng.random() < 0.12:
        # one bit / the type next to a request one of the extra handlers claims
        typ, req = rng.choice(sorted(cfg.claimed))
        if rng.random() < 0.5:
            req ^= 1 << rng.randrange(8)
        else:
            typ = rng.choice([t for t in (1, 2, 3) if t != typ])
        s = U.setup_bytes(direction | (typ << 5) | rng.choice([0, 1, 2]), req, value, index, rng.choice([0, 0, wlen]))
        c = classify_request(s, cfg)
        if c[0] == "unsupported":
            res.bin("neighbour_of_extra_handler")
            return s, c[1]
    if r < 0.08:
        # one bit anywhere (also wIndex / wLength) away from a well-known request the device does NOT support
        for _ in range(50):
            base = bytearray(rng.choice([
                U.setup_bytes(0x02, 3, 0, 0x81, 0), U.setup_bytes(0x00, 1, 1, 0, 0), U.setup_bytes(0x00, 3, 1, 0, 0),
                U.setup_bytes(0x82, 12, 0, 0x81, 2), U.setup_bytes(0x81, 10, 0, 0, 1), U.setup_bytes(0x01, 11, 0, 0, 0),
                U.setup_bytes(0x00, 7, 0x0100, 0, 18), U.setup_bytes(0x02, 1, 1, 0x81, 0)]))
            i = rng.choice([4, 4, 5, 6, 6, 7, 0, 1, 2])
            base[i] ^= 1 << rng.randrange(8)
            cls = classify_request(bytes(base), vendor_present)
            if cls[0] == "unsupported":
                res.bin("unsupported_neighbour_windex_wlength_flip" if i >= 4 else "unsupported_neighbour_other_flip")
                return bytes(base), cls[1]
    if r < 0.25:
        # exactly one field / one bit away from a request the device supports
        for _ in range(50):
            base = bytearray(rng.choice([
                U.setup_bytes(0x02, 1, 0, rng.choice([0x81, 0x01]), 0), U.setup_bytes(0x02, 1, 0, 0x81, 0),
                U.setup_bytes(0x00, 5, rng.randrange(1, 128), 0, 0), U.setup_bytes(0x00, 9, 1, 0, 0),
                U.setup_bytes(0x80, 6, 0x0100, 0, 18), U.setup_bytes(0x80, 0, 0, 0, 2), U.setup_bytes(0x80, 8, 0, 0, 1)]))
            w = rng.random()
            if w < 0.35:
                base[1] ^= 1 << rng.randrange(8)                 # bRequest, one bit
            elif w < 0.6:
                base[0] ^= rng.choice([0x20, 0x40, 0x60])        # type
            elif w < 0.8:
                base[0] ^= 1 << rng.randrange(5)                 # recipient, one bit
            else:
                base[rng.choice([2, 3])] ^= 1 << rng.randrange(8)   # wValue, one bit
            cls = classify_request(bytes(base), vendor_present)
            if cls[0] == "unsupported":
                res.bin("one_field_from_supported")
                return bytes(base), cls[1]
    if r < 0.45:
        # unimplemented standard request
        if rng.random() < 0.6:
            req = rng.choice([3, 3, 7, 10, 11, 12, 2, 4, 13, 0x10 | rng.choice(STD_SUPPORTED), 0x80 | rng.choice(STD_SUPPORTED)])
        else:
            req = rng.choice([x for x in range(256) if x not in STD_SUPPORTED])
        if any(bin(req ^ s).count("1") == 1 for s in STD_SUPPORTED):
            res.bin("std_request_one_bit_from_supported")
        typ = 0
    elif r < 0.62:
        # CLEAR_FEATURE that is not ENDPOINT_HALT on an endpoint
        typ, req = 0, 1
        if rng.random() < 0.5:
            recipient = rng.choice([0, 0, 1, 3, 6, 10, 18, rng.choice([x for x in range(32) if x != 2])])
            value = rng.choice([0, 0, 1, 2])
        else:
            recipient = 2
            value = rng.choice([1, 2, 0x100, 0x8000, rng.randrange(1, 1 << 16)])
        index = rng.choice([0x81, 0x82, 0x82, 0x01, 0, index])
        wlen = rng.choice([0, 0, 0, 0, wlen])
    else:
        typ = rng.choice([1, 2, 2, 3])
        req = rng.choice([VENDOR_REQ, VENDOR_REQ ^ (1 << rng.randrange(8)), 0, 1, 5, 6, 9, rng.randrange(256)])
        if typ == 2 and req == VENDOR_REQ and vendor_present:
            req ^= 1 << rng.randrange(8)
        if req == VENDOR_REQ and typ != 2 and vendor_present:
            res.bin("claimed_number_other_type")
        if typ == 2 and vendor_present:
            res.bin("claimed_type_other_number")
    s = U.setup_bytes(direction | (typ << 5) | recipient, req, value, index, wlen)
    cls = classify_request(s, vendor_present)
    if cls[0] != "unsupported":
        return gen_unsupported(rng, vendor_present, res)      # collided with a claimed (type, bRequest): draw again
    return s, cls[1]


def gen_plan(rng, s, res):
    """host transactions after the SETUP of an unsupported request"""
    wlen = s[6] | (s[7] << 8)
    is_in = bool(s[0] & 0x80)
    plan = []
    if rng.random() < 0.2:
        plan.append(("bulk",))
    if wlen == 0:
        res.bin("wlength_zero")
        plan.append(("in",))
    elif is_in:
        res.bin("in_with_data")
        if rng.random() < 0.15:
            res.bin("plan_out_status_first")
            plan.append(("out", 0, U.DATA1, "status"))
        else:
            plan.append(("in",))
    else:
        res.bin("out_with_data")
        k = rng.choice([0, 1, 1, 2])
        pid = U.DATA1
        for _ in range(k):
            n = min(wlen, rng.choice([0, 1, 8, 8, 64 if rng.random() < 0.1 else 3]))
            plan.append(("out", n, pid, "data"))
            pid = U.DATA0 if pid == U.DATA1 else U.DATA1
        if k:
            res.bin("plan_out_data_then_in")
        if rng.random() < 0.2:
            plan.append(("bulk",))
        plan.append(("in",))
    # extras after the transfer has (or should have) been stalled
    for _ in range(rng.choice([0, 0, 1, 1, 2])):
        w = rng.random()
        if w < 0.45:
            plan.append(("in",))
        elif w < 0.7:
            plan.append(("out", rng.choice([0, 0, 2]), U.DATA1, "extra"))
        elif w < 0.9:
            plan.append(("bulk",))
        else:
            plan.append(("sof",))
    if sum(1 for p in plan if p[0] == "in") >= 2:
        res.bin("plan_second_in")
    if any(p[0] == "bulk" for p in plan):
        res.bin("plan_bulk_between")
    return plan


def gen_supported(rng, vendor_present, allow_abandon=True):
    """(name, setup bytes, abandon) ; abandon: None | 'after_setup' | 'after_first_data' | 'no_ack'"""
    name = rng.choice(["set_address", "set_address", "set_config", "set_config", "get_descriptor", "get_descriptor", "get_status",
                       "get_config", "clear_halt", "clear_halt"] + (["vendor_claimed"] * 2 if vendor_present else []))
    if name == "set_address":
        s = U.setup_bytes(0x00, 5, rng.choice([0, 1, 5, 0x55, 0x7F, rng.randrange(128)]), 0, 0)
    elif name == "set_config":
        s = U.setup_bytes(0x00, 9, rng.choice([0, 1, 1, 1, 2]), 0, 0)
    elif name == "get_descriptor":
        s = U.setup_bytes(0x80, 6, rng.choice([0x0100, 0x0100, 0x0200]), 0, rng.choice([8, 18, 18, 64, 255]))
    elif name == "get_status":
        s = U.setup_bytes(rng.choice([0x80, 0x81, 0x82]), 0, 0, 0, 2)
    elif name == "get_config":
        s = U.setup_bytes(0x80, 8, 0, 0, 1)
    elif name == "clear_halt":
        s = U.setup_bytes(0x02, 1, 0, rng.choice([0x81, 0x81, 0x01, 0x82]), 0)
    else:
        s = U.setup_bytes(0x40, VENDOR_REQ, rng.randrange(1 << 16), rng.randrange(1 << 16), 0)
    if classify_request(s, vendor_present)[0] != "supported":
        return gen_supported(rng, vendor_present, allow_abandon)        # e.g. skiplisted in this configuration
    abandon = None
    if allow_abandon and rng.random() < 0.22:
        abandon = rng.choice(["after_setup", "after_setup", "after_first_data", "no_ack"])
    return name, s, abandon


# ------------------------------------------------------------------------------------------------ DUT

def _build(rng, timing, vendor_present):
    from amaranth import Module, Elaboratable
    from luna.gateware.interface.utmi import UTMIInterface
    from luna.gateware.usb.usb2.device import USBDevice
    from luna.gateware.usb.usb2.endpoint import EndpointInterface
    from luna.gateware.usb.usb2.request import USBRequestHandler
    from luna.gateware.usb.usb2.endpoints.stream import USBStreamInEndpoint
    from usb_protocol.emitters import DeviceDescriptorCollection
    from usb_protocol.types import USBTransferType

    class SpyEndpoint(Elaboratable):
        def __init__(self):
            self.interface = EndpointInterface()

        def elaborate(self, platform):
            return Module()

    class VendorHandler(USBRequestHandler):
        """claims exactly one (type, bRequest) pair; no data stage: ZLP in the status stage"""
        def __init__(self, typ=2, req=VENDOR_REQ):
            super().__init__()
            self.typ, self.req = typ, req

        def elaborate(self, platform):
            m = Module()
            i = self.interface
            mine = (i.setup.type == self.typ) & (i.setup.request == self.req)
            m.d.comb += i.claim.eq(mine)
            with m.If(mine):
                with m.If(i.status_requested):
                    m.d.comb += self.send_zlp()
                with m.If(i.data_requested):
                    m.d.comb += i.handshakes_out.stall.eq(1)
            return m

    utmi = UTMIInterface()
    dev = USBDevice(bus=utmi)
    if timing == "fs60":
        dev.always_fs = False
        dev.data_clock = 60e6
    d = DeviceDescriptorCollection()
    with d.DeviceDescriptor() as dd:
        dd.idVendor = 0x1209
        dd.idProduct = 0x0010
        dd.iManufacturer = "rv"
        dd.iProduct = "c10"
        dd.bNumConfigurations = 1
    with d.ConfigurationDescriptor() as c:
        with c.InterfaceDescriptor() as i:
            i.bInterfaceNumber = 0
            for a in (0x81, 0x82):
                with i.EndpointDescriptor() as e:
                    e.bEndpointAddress = a
                    e.wMaxPacketSize = 8
                    e.bmAttributes = USBTransferType.BULK
    cfg = vendor_present
    if not cfg.standard:
        ep0 = dev.add_control_endpoint()                 # no handler at all: everything goes to the fallback
    elif cfg.skip:
        luna_pred = {"get_status": lambda su: su.request == 0, "get_config": lambda su: su.request == 8,
                     "set_config_2": lambda su: (su.request == 9) & (su.value == 2),
                     "string_desc": lambda su: (su.request == 6) & (su.value[8:16] == 3)}[cfg.skip]
        import warnings
        with warnings.catch_warnings():
            warnings.simplefilter("ignore")
            ep0 = dev.add_standard_control_endpoint(d, **{cfg.skip_kw: [luna_pred]})
    else:
        ep0 = dev.add_standard_control_endpoint(d)
    for typ, req in sorted(cfg.claimed):
        ep0.add_request_handler(VendorHandler(typ, req))
    bulk = [USBStreamInEndpoint(endpoint_number=n, max_packet_size=8) for n in (1, 2)]
    for e in bulk:
        dev.add_endpoint(e)
    spy = SpyEndpoint()
    dev.add_endpoint(spy)
    return dev, utmi, bulk, spy


# ------------------------------------------------------------------------------------------------ the case

def run_case(rng, tier, res):
    timing = rng.choice(["fs12", "fs12", "fs60"])
    # handler configuration: 0-3 extra handlers next to the standard one (or no handler at all), optional skiplist
    r0 = rng.random()
    if r0 < 0.07:
        vendor_present = Cfg(standard=False)
        res.bin("no_handler_at_all")
    else:
        extra = rng.choice([[], [], [(2, VENDOR_REQ)], [(2, VENDOR_REQ)], [(2, VENDOR_REQ), (1, 0x21)],
                            [(2, VENDOR_REQ), (1, 0x21), (2, VENDOR_REQ ^ 1)], [(1, 0x21), (3, 0x07), (2, 0x43)]])
        skip = rng.choice([None, None, "get_status", "get_config", "set_config_2", "string_desc"])
        vendor_present = Cfg(extra, skip, rng.choice(["skiplist", "skiplist", "blacklist"]))
        res.bin("handlers_%d" % min(3, 1 + len(extra)))
        if skip:
            res.bin("skiplist_present")
            res.bin("skiplist_via_" + vendor_present.skip_kw)
    res.bin("timing_" + timing)
    res.bin("vendor_handler_present" if vendor_present else "vendor_handler_absent")
    ready_profile = rng.choice(["always", "always", ("random", 0.6), ("every", 2), ("bursty", 4, 6)])
    gap_profile = rng.choice(["none", "none", "random", "onestall"])
    if ready_profile != "always":
        res.bin("tx_backpressure")
    dev, utmi, bulk, spy = _build(rng, timing, vendor_present)
    b = Bench(dev, domain="usb", freq=60e6, max_cycles=95000)
    host = UTMIHost(b, utmi, rng, timing=timing, ready_profile=ready_profile, gap_profile=gap_profile)
    host.ep0_mps = 64
    si = spy.interface
    halt = si.clear_endpoint_halt_in.as_value()
    b.watch(si.active_address, si.active_config, halt)

    # ---- script (explicit, generated up front)
    allow_abandon = rng.random() < 0.6          # 40 % of the sessions contain no abandoned transfer at all
    script = []
    for _ in range(rng.randint(14, 30)):
        if rng.random() < 0.6:
            s, cls = gen_unsupported(rng, vendor_present, res)
            script.append({"what": "unsupported", "cls": cls, "setup": s, "plan": gen_plan(rng, s, res)})
            if rng.random() < 0.25:
                # the same request again / a one-field neighbour directly behind
                s2 = bytearray(s)
                if rng.random() < 0.5:
                    s2[rng.choice([2, 4, 6])] ^= 1 << rng.randrange(8)
                if classify_request(bytes(s2), vendor_present)[0] == "unsupported":
                    script.append({"what": "unsupported", "cls": classify_request(bytes(s2), vendor_present)[1], "setup": bytes(s2),
                                   "plan": gen_plan(rng, bytes(s2), res)})
        elif vendor_present.standard:
            name, s, abandon = gen_supported(rng, vendor_present, allow_abandon)
            script.append({"what": "supported", "name": name, "setup": s, "abandon": abandon})
        if vendor_present.standard and rng.random() < 0.22:
            # a supported-type request that *ends with a STALL* (descriptor the device lacks), IMMEDIATELY followed by an
            # unsupported request: the handler must be idle again
            val = rng.choice([0x0600, 0x0600, 0x0700, 0x0F00, 0x0305, 0x0201, 0x2200, 0x0400])
            script.append({"what": "supported", "name": "get_descriptor_missing", "abandon": None, "expect_stall": True,
                           "setup": U.setup_bytes(0x80, 6, val, rng.choice([0, 0, 0x0409]), rng.choice([10, 18, 18, 255]))})
            w = rng.random()
            if w < 0.35:
                s2 = U.setup_bytes(rng.choice([0x00, 0x01, 0x02]), rng.choice([3, 3, 11, 7]), rng.choice([0, 1, 2]), rng.choice([0, 1, 0x81]), 0)
                plan = [("in",)] + ([("in",)] if rng.random() < 0.3 else [])
            elif w < 0.75:
                s2 = U.setup_bytes(rng.choice([0x80, 0x81, 0x82]), rng.choice([10, 10, 12, 2, 0x86]), rng.choice([0x0100, 0x0100, 0x0200, 0]),
                                   rng.choice([0, 0, 0x81]), rng.choice([18, 18, 1, 2, 64]))
                plan = [("in",), ("out", 0, U.DATA1, "extra")] + ([("in",)] if rng.random() < 0.3 else [])
            else:
                s2 = U.setup_bytes(rng.choice([0x00, 0x01]), rng.choice([7, 3, 11]), rng.choice([0x0100, 0]), 0, rng.choice([18, 8, 2]))
                plan = [("out", min(8, s2[6]), U.DATA1, "data"), ("in",)]
            c2 = classify_request(s2, vendor_present)
            if c2[0] == "unsupported":
                script.append({"what": "unsupported", "cls": c2[1], "setup": s2, "plan": plan, "after_stalled": True})
        if rng.random() < 0.15:
            script.append({"what": "bulk"})
    res.sig(timing, repr(vendor_present), ready_profile, gap_profile, [(t["what"], t.get("setup"), t.get("plan"), t.get("abandon")) for t in script])
    res.desc = {"timing": timing, "handlers": repr(vendor_present), "ready_profile": ready_profile, "gap_profile": gap_profile,
                "script": [(t["what"], t.get("cls") or t.get("name"), t["setup"].hex() if "setup" in t else None,
                            t.get("plan") or t.get("abandon")) for t in script[:12]]}

    out = []                       # (mechanism, detail)
    st = {"cur": None,             # the transfer whose SETUP was sent last: dict(judged, setup, addr, cfg, ...)
          "prev_addr": 0, "prev_cfg": 0,
          "ever_abandoned": False,
          "std_stale": None,       # classifier: None | 'abandoned' | 'clear_feature'  (why the standard handler may not be idle)
          "bulk_expect": {1: U.DATA0, 2: U.DATA0}, "classes": set()}

    def ctx():
        c = st["cur"]
        return "setup=%s class=%s handler_ctx=%s vendor_handler=%s timing=%s history=%s" % (
            c["setup"].hex(), c.get("cls"), c.get("ctx"), vendor_present, timing, c.get("hist"))

    def flag(effect, detail):
        """mechanism name = effect + classifier context (see GROUP / module docstring); never decides the verdict"""
        cur = st["cur"]
        c, cls = cur.get("ctx"), cur.get("cls") or ""
        if c == "abandoned":
            mech = "unsupported_request_%s_after_abandoned_transfer" % GROUP[effect]
        elif c == "clear_feature":
            mech = "unsupported_request_%s_after_unsupported_clear_feature" % GROUP[effect]
        elif c == "failed":
            mech = "unsupported_request_%s_after_failed_supported_request" % GROUP[effect]
        elif cls.startswith("clear_feature") and effect in ("clear_halt_strobe", "endpoint_toggle_disturbed"):
            mech = "unsupported_clear_feature_clears_halt_on_host_ack"
        elif cls.startswith("clear_feature") and effect in ("not_stalled_at_status_in", "not_stalled_at_status_out") and cur["host_acks"]:
            mech = "unsupported_clear_feature_not_stalled_after_host_ack"
        elif cls.startswith("clear_feature") and effect == "not_stalled_at_data_in":
            mech = "unsupported_clear_feature_data_stage_not_stalled"
        else:
            mech = "unsupported_request_" + effect
        out.append((mech, detail + " " + ctx()))

    def monitor(b):
        res.event("cycles_monitored")
        a, c, h = b.get(si.active_address), b.get(si.active_config), b.get(halt)
        cur = st["cur"]
        judged = cur is not None and cur["judged"]
        if a != st["prev_addr"]:
            res.event("address_changes")
            if judged:
                flag("address_changed", "cyc=%d address %d->%d" % (b.cycle, st["prev_addr"], a))
            st["prev_addr"] = a
        if c != st["prev_cfg"]:
            res.event("config_changes")
            if judged:
                flag("config_changed", "cyc=%d configuration %d->%d" % (b.cycle, st["prev_cfg"], c))
            st["prev_cfg"] = c
        if h & 1:
            if (h >> 2) & 15 in st["bulk_expect"]:
                st["bulk_expect"][(h >> 2) & 15] = None     # the strobe itself is judged below; its effect on the toggle is not judged twice
            if judged:
                flag("clear_halt_strobe", "cyc=%d clear-halt strobe dir=%d number=%d" % (b.cycle, (h >> 1) & 1, (h >> 2) & 15))
            elif cur is not None and cur.get("name") == "clear_halt":
                res.event("legit_clear_halt_strobes")
                st["bulk_expect"] = {1: None, 2: None}
            else:
                res.unjudged += 1
                st["bulk_expect"] = {1: None, 2: None}

    def addr():
        return b.get(si.active_address)

    hist = []

    def begin(t, judged):
        cur = {"judged": judged, "setup": t["setup"], "cls": t.get("cls"), "name": t.get("name"), "ctx": st["std_stale"],
               "hist": list(hist[-6:]), "stalled": False, "host_acks": 0, "stale0": st["std_stale"]}
        hist.append((t.get("cls") or t.get("name"), t["setup"].hex(), t.get("abandon")))
        return cur

    def send_setup(t, judged):
        """SETUP transaction; st['cur'] switches when the data packet is on the wire."""
        a = addr()
        yield from host.token(U.SETUP, a, 0)
        yield from host.idle(rng.randint(1, 4))
        cur = begin(t, judged)
        st["cur"] = None                       # state changes while the SETUP itself is in flight belong to nobody
        yield from host.data(U.DATA0, t["setup"])
        st["cur"] = cur
        pkt = yield from host.wait_response()
        ok = pkt is not None and bytes(pkt.data) == bytes([ACK_B])
        if ok:
            res.event("setup_acked")
        yield from host.gap()
        return ok

    def bulk_in():
        """IN to EP1 / EP2, ACK the data: traffic to another endpoint (its ACK reaches every handler)."""
        ep = rng.choice([1, 1, 2])
        for _ in range(4):
            r = yield from host.in_transaction(addr(), ep)
            yield from host.gap()
            if r["kind"] == "handshake" and r["pid"] == U.NAK:
                continue
            if r["kind"] == "data":
                res.event("bulk_in_packets")
                exp = st["bulk_expect"][ep]
                if exp is not None and r["pid"] != exp:
                    cur = st["cur"]
                    if cur is not None and cur["judged"]:
                        flag("endpoint_toggle_disturbed", "EP%d sent %s expected %s" % (ep, U.PID_NAMES[r["pid"]], U.PID_NAMES[exp]))
                    else:
                        res.unjudged += 1
                res.event("bulk_toggle_checked")
                st["bulk_expect"][ep] = U.DATA1 if r["pid"] == U.DATA0 else U.DATA0
                if st["cur"] is not None:
                    st["cur"]["host_acks"] += 1
                # a host ACK releases a standard handler that waits for one
                if st["std_stale"] == "clear_feature" and st["cur"] is not None and ((st["cur"]["setup"][0] >> 5) & 3) == 0:
                    st["std_stale"] = None      # (the standard handler only runs while the current request is of type standard)
            return

    def run_unsupported(t):
        res.event("unsupported_judged")
        res.bin(t["cls"])
        st["classes"].add(t["cls"])
        s = t["setup"]
        if (s[0] & 0x1F) == 2 and s[2] == 0 and s[3] == 0 and s[6] == 0 and s[7] == 0:
            res.bin("endpoint_recipient_value0")
        c0 = st["std_stale"]
        if t.get("after_stalled"):
            res.bin("after_stalled_supported_request")
            res.bin("after_stalled_nodata" if (t["setup"][6] | t["setup"][7]) == 0 else
                    ("after_stalled_in_data" if t["setup"][0] & 0x80 else "after_stalled_out_data"))
        if c0 == "abandoned":
            res.bin("after_abandoned_transfer")
        elif c0 == "clear_feature":
            res.bin("after_unsupported_clear_feature")
        else:
            res.bin("after_completed_supported")
        ok = yield from send_setup(t, True)
        cur = st["cur"]
        if addr():
            res.bin("address_nonzero_during_request")
        if b.get(si.active_config):
            res.bin("config_nonzero_during_request")
        if not ok:
            out.append(("unsupported_setup_not_acked", ctx()))
            return
        wlen = s[6] | (s[7] << 8)
        is_in = bool(s[0] & 0x80)
        first_in_done = False
        first_txn = True
        seen_tx = [len(host.tx_packets), None]      # [index up to which device packets were examined, packet examined as response]
        def sweep():
            # packets the device sends beyond the one answer the host looked at (second / late packets)
            for extra in host.tx_packets[seen_tx[0]:]:
                if extra is not seen_tx[1]:
                    info = U.classify(extra.data)
                    if info["kind"] == "data":
                        flag("answered_with_data", "extra device packet %s" % bytes(extra.data).hex())
                    elif info["kind"] == "handshake" and info["pid"] == U.ACK:
                        flag("acked", "extra ACK from the device")
            seen_tx[0] = len(host.tx_packets)

        for op in t["plan"]:
            sweep()
            if op[0] == "bulk":
                yield from bulk_in()
                seen_tx[0] = len(host.tx_packets)
                continue
            if op[0] == "sof":
                yield from host.sof(rng.randrange(2048))
                yield from host.gap()
                continue
            if op[0] == "in":
                naks = 0
                while True:
                    r = yield from host.in_transaction(addr(), 0)
                    yield from host.gap()
                    if r["kind"] == "handshake" and r["pid"] == U.NAK and naks < 3:
                        naks += 1
                        continue
                    break
                seen_tx[1] = r.get("pkt")
                what = "first IN" if not first_in_done else "later IN"
                if r["kind"] == "data":
                    flag("answered_with_zlp" if len(r["payload"]) == 0 else "answered_with_data",
                         "%s -> %s %s" % (what, U.PID_NAMES[r["pid"]], bytes(r["payload"]).hex()))
                    cur["host_acks"] += 1
                    if st["std_stale"] == "clear_feature" and ((s[0] >> 5) & 3) == 0:
                        st["std_stale"] = None          # the host ACKed that packet
                elif r["kind"] == "handshake" and r["pid"] == U.ACK:
                    flag("acked", "%s -> ACK" % what)
                elif r["kind"] == "handshake" and r["pid"] == U.STALL:
                    res.event("stall_seen")
                    cur["stalled"] = True
                elif not first_in_done and not cur["stalled"]:
                    got = "no response" if r["kind"] == "timeout" else "%s %s" % (r["kind"], bytes(r["pkt"].data).hex() if r.get("pkt") else "")
                    stage = "status" if (wlen == 0 or not is_in) else "data"
                    flag("not_stalled_at_%s_in" % stage, "first IN -> %s" % got)
                elif r["kind"] not in ("timeout", "handshake"):
                    flag("malformed_response", "%s -> %s" % (what, r))
                if not first_in_done:
                    res.event("first_in_judged")
                first_in_done = True
            else:
                _, n, pid, role = op
                payload = bytes(rng.randrange(256) for _ in range(n))
                r = yield from host.out_transaction(addr(), 0, pid, payload)
                yield from host.gap()
                res.event("out_data_judged")
                seen_tx[1] = r.get("pkt")
                if r["kind"] == "handshake" and r["pid"] == U.ACK:
                    flag("out_data_acked", "OUT(%s, %d bytes) -> ACK" % (role, n))
                elif r["kind"] == "data":
                    flag("answered_with_data", "OUT -> data %s" % bytes(r["pkt"].data).hex())
                elif r["kind"] == "handshake" and r["pid"] == U.STALL:
                    res.event("stall_seen")
                    cur["stalled"] = True
                elif role == "status" and first_txn and not cur["stalled"]:
                    got = "no response" if r["kind"] == "timeout" else "%s" % (bytes(r["pkt"].data).hex() if r.get("pkt") else r["kind"])
                    flag("not_stalled_at_status_out", "OUT status -> %s" % got)
            first_txn = False
        yield from host.idle(4)
        sweep()
        # classifier bookkeeping: what this transfer leaves behind in the standard handler
        typ = (s[0] >> 5) & 3
        if typ == 0 and cur["stale0"] is None and st["std_stale"] is None:
            if t["cls"].startswith("clear_feature"):
                st["std_stale"] = "clear_feature"
            elif not cur["stalled"]:
                st["std_stale"] = "abandoned"

    def run_supported(t):
        name, s, abandon = t["name"], t["setup"], t["abandon"]
        ok = yield from send_setup(t, False)
        typ = (s[0] >> 5) & 3
        if not ok:
            res.event("supported_failed")
            if typ == 0 and st["std_stale"] is None:
                st["std_stale"] = "failed"
            return
        wlen = s[6] | (s[7] << 8)
        done = False
        if abandon == "after_setup":
            pass
        elif t.get("expect_stall"):
            r = yield from host.in_transaction(addr(), 0)
            yield from host.gap()
            done = r["kind"] == "handshake" and r["pid"] == U.STALL
            if done:
                res.event("supported_ended_with_stall")
        elif s[0] & 0x80:
            # IN data stage
            r = yield from host.in_transaction(addr(), 0, ack="none" if abandon == "no_ack" else "ack")
            yield from host.gap()
            if abandon is None:
                got = bytes(r.get("payload", b"")) if r["kind"] == "data" else None
                while got is not None and len(got) < wlen and len(r["payload"]) == 64:
                    r = yield from host.in_transaction(addr(), 0)
                    yield from host.gap()
                    if r["kind"] != "data":
                        break
                    got += bytes(r["payload"])
                r2 = yield from host.out_transaction(addr(), 0, U.DATA1, b"")
                yield from host.gap()
                done = got is not None and r2.get("kind") == "handshake" and r2.get("pid") == U.ACK
                if not done:
                    res.event("supported_failed")
        else:
            # no data stage: status IN answered with a ZLP, which the host ACKs
            naks = 0
            while True:
                r = yield from host.in_transaction(addr(), 0, ack="none" if abandon in ("no_ack", "after_first_data") else "ack")
                yield from host.gap()
                if r["kind"] == "handshake" and r["pid"] == U.NAK and naks < 3:
                    naks += 1
                    continue
                break
            if abandon is None:
                done = r["kind"] == "data" and len(r["payload"]) == 0
                if not done:
                    res.event("supported_failed")
        if done:
            res.event("supported_completed")
        if name == "set_config":
            st["bulk_expect"] = {1: None, 2: None}      # a device may reset its toggles on SET_CONFIGURATION
        if typ == 0:
            if done:
                st["std_stale"] = None
            elif abandon is not None or st["std_stale"] is not None:
                st["std_stale"] = "abandoned" if abandon is not None else st["std_stale"]
                st["ever_abandoned"] = st["ever_abandoned"] or abandon is not None
            else:
                st["std_stale"] = "failed"      # a fresh handler failed a supported request: not a known pattern

    def driver():
        init_device_signals(b, dev, utmi)
        if timing == "fs60":
            b.set(dev.full_speed_only, 1)
        for n, e in enumerate(bulk):
            b.set(e.stream.valid, 1)
            b.set(e.stream.payload, 0x5A + n)
        yield from host.idle(8)
        for t in script:
            if t["what"] == "unsupported":
                yield from run_unsupported(t)
            elif t["what"] == "supported":
                yield from run_supported(t)
            else:
                yield from bulk_in()
            yield from host.idle(rng.randint(1, 10))
        yield from host.idle(20)

    b.add_monitor(monitor)
    b.add_driver(driver())
    b.run()
    res.cycles = b.cycle
    if b.hit_max_cycles:
        res.violation("harness_max_cycles", "case did not finish in %d cycles" % b.max_cycles)
    seen = {}
    for mech, detail in out:
        seen[mech] = seen.get(mech, 0) + 1
        if seen[mech] <= 2:
            res.violation(mech, detail)
    res.nontrivial = (res.events.get("unsupported_judged", 0) >= 5 and len(st["classes"]) >= 3
                      and bool(res.bins.get("address_nonzero_during_request") or res.bins.get("config_nonzero_during_request")))
