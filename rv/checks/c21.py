"""C21 — frame / microframe numbers track received SOFs.

DUT: real USBDevice(bus=UTMIInterface()) with a standard control endpoint; 12 MHz full-speed tables or (30 %) the 60 MHz
tables at full speed.  High speed itself is not entered (the frame logic has no speed input; SOF repeats = microframes
are generated at full speed as well).
Workload: sequences of SOFs (repeats up to 10, skips, wrap at 2047), damaged SOFs (CRC5, PID nibble, truncated,
over-long), other tokens / data / handshakes in between, all rx byte-gap profiles.
Monitor: samples frame_number / microframe_number / new_frame / sof_detected every cycle.
Oracle: reference tracker fed with the packets the host put on the wire.
"""
from rv.sim import Bench
from rv.usb2host import UTMIHost, init_device_signals
from rv.ref import usb2 as U

PROPERTY = "C21"
CASES = {"quick": 192, "thorough": 4000}
RULE = ("case = 40-120 packets: SOF number walk (repeat/skip/wrap/random) with damaged SOFs and foreign packets between; "
        "non-trivial = >=1 repeat, >=1 change and >=1 damaged SOF; distinct = hash of packet list and gap profile")
REQUIRED_BINS = ["sof_repeat", "sof_change", "sof_wrap", "damaged_sof", "other_packet_between", "microframe_wrap_8", "sof_one_bit_change", "bus_reset", "first_sof_after_bus_reset", "config_fs12", "config_fs60"]
REQUIRED_EVENTS = ["sof_detected_strobes", "new_frame_strobes", "good_sofs_sent", "cycles_monitored"]
ASSUMPTIONS = ["across a bus reset the remembered frame/microframe numbers are not specified: the first SOF after a reset may or may not raise new_frame, the microframe number is judged again from the next frame change; strobes outside packets are violations at all times",
               "frame outputs are judged from 3 cycles after the end of each packet until the next packet ends (registration latency is not constrained)",
               "the first SOF after reset whose number is 0 equals the reset value: new_frame is then not expected (number did not change)"]


def build_device():
    from luna.gateware.interface.utmi import UTMIInterface
    from luna.gateware.usb.usb2.device import USBDevice
    from usb_protocol.emitters import DeviceDescriptorCollection
    utmi = UTMIInterface()
    dev = USBDevice(bus=utmi)
    d = DeviceDescriptorCollection()
    with d.DeviceDescriptor() as dd:
        dd.idVendor = 0x1209
        dd.idProduct = 1
        dd.bNumConfigurations = 1
    with d.ConfigurationDescriptor() as c:
        with c.InterfaceDescriptor() as i:
            i.bInterfaceNumber = 0
    dev.add_standard_control_endpoint(d)
    return dev, utmi


def run_case(rng, tier, res):
    dev, utmi = build_device()
    # device configuration: the 12 MHz full-speed-only tables (what USBDevice picks for a raw UTMI bus) or the 60 MHz
    # tables of a ULPI/UTMI PHY run at full speed (token detector and timers are built with other constants)
    fs60 = rng.random() < 0.3
    if fs60:
        dev.always_fs = False
        dev.data_clock = 60e6
        res.bin("config_fs60")
    else:
        res.bin("config_fs12")
    b = Bench(dev, domain="usb", freq=60e6, max_cycles=150000)
    gap_profile = rng.choice(["random", "fixed4"]) if fs60 else rng.choice(["none", "random", "fixed4", "onestall"])
    host = UTMIHost(b, utmi, rng, timing="fs60" if fs60 else "fs12", ready_profile="always", gap_profile=gap_profile)
    outs = [dev.frame_number, dev.microframe_number, dev.new_frame, dev.sof_detected]
    b.watch(*outs)
    res.desc = {"gap_profile": gap_profile, "fs60": fs60, "packets": []}
    res.sig(gap_profile, fs60)

    # reference state
    ref = {"frame": 0, "micro": 0}
    pending = []   # expectations from packets that have ended: (cycle_end, kind, frame)
    # windows: list of (start_cycle, end_cycle, good_sof(bool), changed(bool))
    windows = []
    strobes = {"sof": [], "new": []}

    def monitor(b):
        f, mf, nf, sd = (b.get(s) for s in outs)
        res.event("cycles_monitored")
        if sd:
            strobes["sof"].append(b.cycle)
            res.event("sof_detected_strobes")
        if nf:
            strobes["new"].append(b.cycle)
            res.event("new_frame_strobes")
        # a strobe may only occur while a packet is on the wire or in the few cycles after it
        if (sd or nf) and not host.rx_busy and b.cycle > host.last_rx_end + 6:
            res.violation("strobe_outside_any_sof", "cyc=%d sof_detected=%d new_frame=%d with no packet on the wire since cycle %d%s" % (
                b.cycle, sd, nf, host.last_rx_end, " (after a bus reset)" if state["after_reset"] else ""))
        # steady-state comparison
        st = state
        if st["stable_from"] is not None and b.cycle >= st["stable_from"] and not host.rx_busy and ref["frame"] is not None:
            if f != ref["frame"]:
                res.violation("frame_number_mismatch", "cyc=%d frame=%d expected=%d" % (b.cycle, f, ref["frame"]))
            if ref["micro"] is not None and mf != ref["micro"]:
                res.violation("microframe_mismatch", "cyc=%d frame=%d micro=%d expected=%d last=%s" % (b.cycle, f, mf, ref["micro"], res.desc["packets"][-3:]))

    state = {"stable_from": 0, "window_end": 0, "after_reset": False}

    def send(pkt, kind, **kw):
        # outputs may change while the packet is in flight / just after; suspend steady-state comparison
        state["stable_from"] = None
        n_sof, n_new = len(strobes["sof"]), len(strobes["new"])
        t0 = b.cycle
        yield from host.send_raw(pkt, **kw)
        info = U.classify(pkt) if not kw.get("abort_after") else {"kind": "aborted"}
        good = info["kind"] == "sof" and kw.get("abort_after") is None
        changed = False
        unknown = good and ref["frame"] is None
        if unknown:
            # first SOF after a bus reset: what the device remembered across the reset is not specified
            res.event("good_sofs_sent")
            res.bin("first_sof_after_bus_reset")
            ref["frame"], ref["micro"] = info["frame"], None
        elif good:
            res.event("good_sofs_sent")
            fr = info["frame"]
            changed = fr != ref["frame"]
            if changed:
                ref["micro"] = 0
                res.bin("sof_change")
                if fr < ref["frame"]:
                    res.bin("sof_wrap")
            else:
                if ref["micro"] is not None:
                    ref["micro"] = (ref["micro"] + 1) % 8
                res.bin("sof_repeat")
                if ref["micro"] == 0:
                    res.bin("microframe_wrap_8")
            ref["frame"] = fr
        yield from host.idle(4)
        # judge strobes for this packet
        ds = len(strobes["sof"]) - n_sof
        dn = len(strobes["new"]) - n_new
        state["window_end"] = b.cycle + 2
        if unknown:
            if ds != 1:
                res.violation("sof_detected_count", "good SOF %s (first after bus reset) -> %d sof_detected strobes" % (pkt.hex(), ds))
            if dn > 1:
                res.violation("new_frame_count", "good SOF %s (first after bus reset) -> %d new_frame strobes" % (pkt.hex(), dn))
        elif good:
            if ds != 1:
                res.violation("sof_detected_count", "good SOF %s -> %d sof_detected strobes" % (pkt.hex(), ds))
            if dn != (1 if changed else 0):
                res.violation("new_frame_count", "good SOF %s changed=%s -> %d new_frame strobes" % (pkt.hex(), changed, dn))
        else:
            if ds or dn:
                res.violation("spurious_sof_strobe", "packet %s (%s) -> sof_detected=%d new_frame=%d" % (pkt.hex(), kind, ds, dn))
        state["stable_from"] = b.cycle + 1
        res.desc["packets"].append((kind, pkt.hex()))
        if len(res.desc["packets"]) > 12:
            res.desc["packets"] = res.desc["packets"][-12:]
        res.sig(kind, pkt)

    def driver():
        init_device_signals(b, dev, utmi)
        if fs60:
            b.set(dev.full_speed_only, 1)     # stay at full speed across the bus resets of this workload
        yield from host.idle(5)
        frame = rng.choice([0, 0, 1, 2040, rng.randrange(2048)])
        n = rng.randint(40, 120)
        for _ in range(n):
            r = rng.random()
            if rng.random() < 0.04:
                # bus reset: SE0 on the line for longer than 2.5 us (150 cycles of the 60 MHz sequencer), then idle J again
                yield from host.idle(rng.randint(8, 30))
                b.set(utmi.line_state, 0b00)
                yield from host.idle(rng.randint(200, 420))
                b.set(utmi.line_state, 0b01)
                yield from host.idle(rng.randint(20, 200))
                ref["frame"], ref["micro"] = None, None
                state["after_reset"] = True
                res.bin("bus_reset")
                res.sig("bus_reset")
                continue
            if r < 0.55:
                # SOF walk
                w = rng.random()
                if w < 0.45:
                    pass                                    # repeat (microframe)
                elif w < 0.8:
                    frame = (frame + 1) % 2048
                elif w < 0.87:
                    frame = (frame + rng.randint(2, 40)) % 2048
                elif w < 0.94:
                    frame ^= 1 << rng.randrange(11)         # numbers differing in exactly one bit
                    res.bin("sof_one_bit_change")
                else:
                    frame = rng.choice([2046, 2047, 0, rng.randrange(2048)])
                yield from send(U.sof(frame), "sof")
                if rng.random() < 0.12:
                    for _ in range(rng.randint(7, 10)):      # long run of microframes (wraps the 3-bit counter)
                        yield from host.idle(rng.randint(1, 6))
                        yield from send(U.sof(frame), "sof")
            elif r < 0.75:
                # damaged SOF
                res.bin("damaged_sof")
                fr = rng.choice([frame, (frame + 1) % 2048, rng.randrange(2048)])
                pkt = bytearray(U.sof(fr))
                kind = rng.choice(["crc5", "pidnibble", "truncated", "overlong", "aborted"])
                if kind == "crc5":
                    i = rng.randrange(1, 3)
                    pkt[i] ^= 1 << rng.randrange(8)
                    yield from send(bytes(pkt), "sof_bad_crc5")
                elif kind == "pidnibble":
                    pkt[0] ^= 1 << rng.randrange(4, 8)
                    yield from send(bytes(pkt), "sof_bad_pid")
                elif kind == "truncated":
                    yield from send(bytes(pkt[:rng.randint(1, 2)]), "sof_truncated")
                elif kind == "overlong":
                    yield from send(bytes(pkt) + bytes(rng.randrange(256) for _ in range(rng.randint(1, 3))), "sof_overlong")
                else:
                    yield from send(bytes(pkt), "sof_aborted", abort_after=rng.randint(1, 2))
            else:
                res.bin("other_packet_between")
                k = rng.choice(["in", "out_data", "setup_foreign", "handshake", "ping", "data_only"])
                if k == "in":
                    yield from send(U.token(U.IN, rng.choice([0, 5]), rng.choice([1, 3])), "in_token")
                elif k == "out_data":
                    yield from send(U.token(U.OUT, rng.choice([0, 9]), rng.choice([2, 3])), "out_token")
                    yield from send(U.data(rng.choice([U.DATA0, U.DATA1]), bytes(rng.randrange(256) for _ in range(rng.randint(0, 12)))), "data")
                elif k == "setup_foreign":
                    yield from send(U.token(U.SETUP, rng.randint(1, 127), 0), "setup_foreign")
                    yield from send(U.data(U.DATA0, bytes(rng.randrange(256) for _ in range(8))), "data")
                elif k == "handshake":
                    yield from send(U.handshake(rng.choice([U.ACK, U.NAK, U.STALL, U.NYET])), "handshake")
                elif k == "ping":
                    yield from send(U.token(U.PING, 0, rng.randrange(16)), "ping")
                else:
                    # a data packet whose payload looks like a SOF
                    yield from send(U.data(U.DATA0, U.sof(rng.randrange(2048))), "data_sof_payload")
            yield from host.idle(rng.randint(1, 12))
        yield from host.idle(10)

    b.add_monitor(monitor)
    b.add_driver(driver())
    b.run()
    res.cycles = b.cycle
    if b.hit_max_cycles:
        res.violation("harness_max_cycles", "case did not finish in %d cycles" % b.max_cycles)
    res.nontrivial = all(res.bins.get(k) for k in ("sof_repeat", "sof_change", "damaged_sof"))
