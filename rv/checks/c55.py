"""C55 — stretch_strobe_signal holds its output for exactly the requested number of cycles.

DUT: a small wrapper Elaboratable that calls the real luna.gateware.utils.cdc.stretch_strobe_signal once per
configuration (to_cycles, allow_delay), all fed from one shared strobe input.  Per case the stretchers are placed in the
default domain, in sync passed explicitly, or in another domain passed as domain= (then strobe, outputs and the cycle
count are that domain's; sync runs at an unrelated faster/slower rate as a bystander and must not influence anything).  Every case instantiates the complete
small grid to_cycles 1..6 x both allow_delay settings plus 8 random configurations with to_cycles in 1..40.
Workload: phase 1 enumerates all 2^8 eight-cycle strobe patterns (each followed by 8 idle cycles, enough for the
grid stretchers to drain) -> for the grid configurations every pattern is seen from the quiescent state;
phase 2 is a random strobe stream whose density changes (isolated pulses, bursts, long highs, pulses exactly
N-1 / N / N+1 cycles apart for the N of a random configuration).
Monitor: every cycle, every output.
Oracle: out[t] = OR(strobe[t-k] for k in 0..N-1) without delay.  With allow_delay the statement permits the window to
start one cycle later, so either k in 0..N-1 or k in 1..N is accepted, but the same choice for the whole case and
configuration.
"""
from rv.sim import Bench

PROPERTY = "C55"
CASES = {"quick": 96, "thorough": 2000}
RULE = ("case = domain mode (default / explicit sync / explicit other domain with unrelated sync clock) x 12 grid configs (to_cycles 1..6 x allow_delay) + 8 random configs (to_cycles 1..40) sharing one strobe stream: "
        "all 256 8-cycle patterns from quiescence, then 1500-3000 random cycles with adversarial spacings; "
        "non-trivial always (grid enumerated in every case); distinct = hash(random configs, random stream)")
REQUIRED_BINS = ["grid_pattern_from_quiescence", "pulse_spacing_N_minus_1", "pulse_spacing_N", "pulse_spacing_N_plus_1",
                 "long_high", "to_cycles_1", "to_cycles_ge_20", "allow_delay", "no_delay",
                 "domain_default", "domain_explicit_sync", "domain_explicit_other", "other_domain_sync_faster", "other_domain_sync_slower"]
REQUIRED_EVENTS = ["output_cycles_compared", "output_high_cycles", "strobes_driven"]
ASSUMPTIONS = ["with allow_delay the window may start in the strobe cycle or one cycle later (fixed per configuration)"]


def run_case(rng, tier, res):
    from amaranth import Elaboratable, Module, Signal
    from luna.gateware.utils.cdc import stretch_strobe_signal

    configs = [(n, d) for n in range(1, 7) for d in (False, True)]
    for _ in range(8):
        configs.append((rng.choice([1, 2, 7, 8, 9, 15, 16, 17, 31, 32, 33, 40, rng.randint(1, 40)]), rng.random() < 0.5))
    nmax = max(n for n, _ in configs)

    class Wrapper(Elaboratable):
        def __init__(self):
            self.strobe = Signal()
            self.outs = [Signal(name="out_%d" % i) for i in range(len(configs))]
            self.bystander = Signal()

        def elaborate(self, platform):
            m = Module()
            # keep the sync domain alive in every mode (it is only a bystander when another domain is requested)
            m.d.sync += self.bystander.eq(~self.bystander)
            for (n, d), o in zip(configs, self.outs):
                kw = {}
                if dom_mode == "explicit_sync":
                    kw["domain"] = m.d.sync
                elif dom_mode == "explicit_other":
                    kw["domain"] = m.d.aux
                if rng_use_output[0]:
                    stretch_strobe_signal(m, self.strobe, to_cycles=n, output=o, allow_delay=d, **kw)
                else:
                    r = stretch_strobe_signal(m, self.strobe, to_cycles=n, allow_delay=d, **kw)
                    m.d.comb += o.eq(r)
            return m

    rng_use_output = [rng.random() < 0.5]
    # which clock domain the stretcher is asked to live in: the default, sync given explicitly, or another domain
    # ("aux": strobe, outputs and "cycles" are all aux cycles; sync runs at an unrelated rate and must not matter)
    dom_mode = rng.choice(["default", "explicit_sync", "explicit_other", "explicit_other"])
    sync_freq = rng.choice([20e6, 180e6, 47e6, 120e6, 60e6 * 1.0001, 13e6]) if dom_mode == "explicit_other" else None
    dut = Wrapper()
    res.bin("domain_" + dom_mode)
    if sync_freq:
        res.bin("other_domain_sync_faster" if sync_freq > 60e6 else "other_domain_sync_slower")
    for n, d in configs:
        res.bin("allow_delay" if d else "no_delay")
        if n == 1:
            res.bin("to_cycles_1")
        if n >= 20:
            res.bin("to_cycles_ge_20")
    res.desc = {"random_configs": configs[12:], "output_param": rng_use_output[0], "domain": dom_mode, "sync_freq": sync_freq}
    res.sig(configs, dom_mode, sync_freq)

    if dom_mode == "explicit_other":
        try:
            b = Bench(dut, domain="aux", freq=60e6, clocks={"sync": sync_freq}, max_cycles=400000)
        except (NameError, ValueError) as e:
            if "not present" not in str(e):
                raise
            res.violation("requested_domain_not_used", "stretch_strobe_signal(domain=m.d.aux): %s" % e)
            return
    else:
        b = Bench(dut, domain="sync", freq=60e6, max_cycles=400000)
    from amaranth import Cat
    allouts = Cat(*dut.outs)          # one sampled expression instead of 20 (sampling cost dominates)
    b.watch(dut.strobe, allouts)
    hist = []                       # recent strobe history (for messages only)
    st = {"t": -1}
    variant = [None] * len(configs)  # for allow_delay: 0 or 1 once disambiguated

    cnt = [0, 0]
    last = {"le_t": None, "lt_t": None}   # index of most recent strobe at <= t and at < t

    def monitor(b):
        s = b.get(dut.strobe)
        hist.append(s)
        if len(hist) > 64:
            del hist[:16]
        st["t"] += 1
        t = st["t"]
        last["lt_t"] = last["le_t"]
        if s:
            res.event("strobes_driven")
            last["le_t"] = t
        le, lt = last["le_t"], last["lt_t"]
        word = b.get(allouts)
        cnt[0] += len(configs)
        for i, ((n, d), o) in enumerate(zip(configs, dut.outs)):
            v = (word >> i) & 1
            if v:
                cnt[1] += 1
            e0 = le is not None and t - le <= n - 1          # strobe within k = 0..n-1
            if not d:
                if bool(v) != e0:
                    res.violation("stretch_mismatch_no_delay", "to_cycles=%d t=%d out=%d expected=%d recent=%s" % (n, t, v, e0, hist[-(n + 3):]))
            else:
                e1 = lt is not None and t - lt <= n            # strobe within k = 1..n
                if variant[i] is None:
                    if bool(v) == e0 and bool(v) != e1:
                        variant[i] = 0
                    elif bool(v) == e1 and bool(v) != e0:
                        variant[i] = 1
                    elif bool(v) != e0 and bool(v) != e1:
                        res.violation("stretch_mismatch_delay", "to_cycles=%d t=%d out=%d matches neither window recent=%s" % (n, t, v, hist[-(n + 3):]))
                else:
                    e = e0 if variant[i] == 0 else e1
                    if bool(v) != e:
                        res.violation("stretch_mismatch_delay", "to_cycles=%d t=%d out=%d expected=%d (window offset %d) recent=%s" % (n, t, v, e, variant[i], hist[-(n + 3):]))

    def driver():
        # phase 1: every 8-cycle pattern from quiescence
        order = list(range(256))
        rng.shuffle(order)
        for p in order:
            for k in range(8):
                b.set(dut.strobe, (p >> k) & 1)
                yield
            b.set(dut.strobe, 0)
            for _ in range(8):            # > longest grid stretch (6) + optional delay: grid configs are quiescent again
                yield
            res.bin("grid_pattern_from_quiescence")
        # phase 2: random stream
        total = rng.randint(1500, 3000)
        t = 0
        while t < total:
            mode = rng.choice(["sparse", "dense", "burst", "long_high", "spacing", "spacing"])
            if mode == "spacing":
                n = rng.choice(configs)[0]
                delta = rng.choice([-1, 0, 1])
                gap = n + delta
                res.bin({-1: "pulse_spacing_N_minus_1", 0: "pulse_spacing_N", 1: "pulse_spacing_N_plus_1"}[delta])
                seq = [1] + [0] * max(0, gap - 1) + [1] + [0] * rng.randint(0, n + 3)
            elif mode == "long_high":
                res.bin("long_high")
                seq = [1] * rng.randint(2, 50) + [0] * rng.randint(1, nmax + 4)
            elif mode == "burst":
                seq = [rng.randint(0, 1) for _ in range(rng.randint(4, 30))] + [0] * rng.randint(0, nmax + 4)
            elif mode == "dense":
                seq = [1 if rng.random() < 0.6 else 0 for _ in range(rng.randint(10, 60))]
            else:
                seq = [1 if rng.random() < 0.04 else 0 for _ in range(rng.randint(20, 120))]
            res.sig(seq)
            for v in seq:
                b.set(dut.strobe, v)
                yield
            t += len(seq)
        b.set(dut.strobe, 0)
        for _ in range(nmax + 4):
            yield

    b.add_monitor(monitor)
    b.add_driver(driver())
    b.run()
    res.cycles = b.cycle
    res.event("output_cycles_compared", cnt[0])
    res.event("output_high_cycles", cnt[1])
    res.desc["delay_window_offset_seen"] = {str(configs[i]): variant[i] for i in range(len(configs)) if configs[i][1]}
