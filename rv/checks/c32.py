"""C32 — receive CTC removes exactly the SKP symbols and nothing else.

DUT: luna.gateware.usb.usb3.physical.ctc.CTCSkipRemover (domain "ss"), `source.ready` tied high as in the
physical layer; `sink.valid` high in every cycle (3 of 4 cases, as in the physical layer) or with random gaps
whose payload is SKP-laden garbage (1 of 4 cases).  Every case ends with 10 cycles of `sink.valid` low to drain.

Workload: 200-700 words of four (data, ctrl) symbols.  Non-SKP symbols carry a running tag so that loss, duplication
and re-ordering are distinguishable; SKP = (0x3C, ctrl 1).  Templates: every one of the 16 SKP masks, SKP pairs
aligned / shifted / split over two words, 1-7 consecutive all-SKP words, single SKPs, "near SKP" symbols that must
*not* be removed (0x3C with ctrl 0, control symbols one bit away from SKP, COM and the other K symbols), random masks,
long SKP-free runs, so that every (buffer fill 0..7) x (symbols added 0..4) combination occurs.

Oracle: the expected symbol sequence is the concatenation of the non-SKP symbols of the accepted words.  Every
output word (source.valid & ready) must continue that sequence exactly (prefix property: order, no loss, no
duplicate, ctrl bit included).  Bounded progress: never more than 16 accepted symbols outstanding and at most 3 after
the drain.  `sink.ready` must be high in every cycle (the physical layer ignores it: rx pins -> sink, valid tied
high; a remover that back-pressures loses words there).  `skip_removed`: one strobe per accepted word that contains a SKP, 0..3 cycles after it, none otherwise.

Not judged: behaviour with `source.ready` low (the statement excludes it); the exact cycle an output word appears;
`bytes_in_buffer` (diagnostic).
"""
from rv.sim import Bench

PROPERTY = "C32"
CASES = {"quick": 320, "thorough": 6000}
RULE = ("case = 200-700 four-symbol words drawn from SKP-placement templates (16 masks, pairs aligned/shifted/split, "
        "runs of all-SKP words, near-SKP symbols, tagged data), sink always valid or with garbage gaps; non-trivial = "
        ">= 8 distinct masks and an all-SKP run and a near-SKP symbol; distinct = hash of the word list and gap pattern")
REQUIRED_BINS = (["mask_%x" % m for m in range(16)] +
                 ["fill%d_add%d" % (f, a) for f in range(8) for a in range(5)] +
                 ["all_skp_run_ge3", "data_3c_kept", "near_skp_ctrl_kept", "skp_pair_split_over_words",
                  "gap_with_skp_garbage", "always_valid_case", "com_symbol", "regroup_offset_1", "regroup_offset_2", "regroup_offset_3"])
REQUIRED_EVENTS = ["sink_ready_checked", "words_in", "words_out", "symbols_compared", "skp_symbols_in", "skip_removed_strobes", "skp_words_in"]
ASSUMPTIONS = ["source.ready is held high (statement); sink.valid low only in the gap cases and in the final drain",
               "an output word may appear any number of cycles after its symbols were accepted as long as at most 16 symbols are outstanding"]

SKP = (0x3C, 1)
K_OTHERS = [0x5C, 0x7C, 0x9C, 0xBC, 0xDC, 0xFB, 0xFD, 0xFE, 0xF7]
NEAR_SKP_CTRL = [0x3D, 0x3E, 0x38, 0x34, 0x2C, 0x1C, 0x7C, 0xBC]      # every single-bit neighbour of SKP (0x3C)


def make_words(rng, n):
    words = []      # list of [sym0..sym3], sym = (byte, ctrl)
    st = {"tag": rng.randrange(256)}

    def sym():
        st["tag"] = (st["tag"] + 1) % 251
        r = rng.random()
        if r < 0.70:
            t = st["tag"]
            return (t, 0) if t != 0x3C or rng.random() < 0.5 else (0x3B, 0)
        if r < 0.78:
            return (0x3C, 0)                                  # data that looks like SKP
        if r < 0.84:
            return (rng.choice(NEAR_SKP_CTRL), 1)             # control symbols close to SKP
        if r < 0.93:
            return (rng.choice(K_OTHERS), 1)
        return (rng.randrange(256), rng.getrandbits(1)) if rng.random() < 0.5 else (st["tag"], 1)

    def clean(s):
        return s if s != SKP else (0x3C, 0)

    def word(mask):
        return [SKP if (mask >> i) & 1 else clean(sym()) for i in range(4)]

    while len(words) < n:
        r = rng.random()
        if r < 0.18:
            words.append(word(rng.randrange(16)))
        elif r < 0.30:
            words.append(word(rng.choice([0b0011, 0b1100, 0b0110])))
        elif r < 0.38:                                       # pair split over two words
            words.append(word(0b1000))
            words.append(word(0b0001))
        elif r < 0.50:
            words.append(word(1 << rng.randrange(4)))
        elif r < 0.60:
            for _ in range(rng.choice([1, 1, 2, 3, 4, 7])):
                words.append(word(0b1111))
        elif r < 0.68:
            words.append(word(rng.choice([0b0111, 0b1110, 0b1011, 0b1101, 0b0101, 0b1010, 0b1001])))
        elif r < 0.74:                                       # alternating heavy masks: drains the buffer
            for _ in range(rng.choice([2, 3, 5])):
                words.append(word(rng.choice([0b1111, 0b0111, 0b1110, 0b1101, 0b1011])))
        else:
            for _ in range(rng.choice([1, 1, 2, 3, 6, 20])):
                words.append(word(0))
    return words[:n]


def pack(w):
    d = c = 0
    for i, (v, k) in enumerate(w):
        d |= v << (8 * i)
        c |= k << i
    return d, c


def run_case(rng, tier, res):
    from luna.gateware.usb.usb3.physical.ctc import CTCSkipRemover
    nwords = rng.randint(200, 700)
    gaps = rng.random() < 0.25
    p_valid = rng.choice([0.9, 0.7, 0.4]) if gaps else 1.0
    words = make_words(rng, nwords)
    dut = CTCSkipRemover()
    sink, source = dut.sink, dut.source
    b = Bench(dut, domain="ss", freq=125e6, max_cycles=nwords * 6 + 200)
    sigs = [sink.valid, sink.payload, sink.ctrl, sink.ready, source.valid, source.payload, source.ctrl, source.ready, dut.skip_removed]
    b.watch(*sigs)
    res.desc = {"words": nwords, "gaps": gaps, "p_valid": p_valid,
                "first_words": ["%08x/%x" % pack(w) for w in words[:8]]}
    res.sig(gaps, p_valid, [pack(w) for w in words])
    if not gaps:
        res.bin("always_valid_case")

    expected = []            # non-SKP symbols accepted, in order
    st = {"ready_low_reported": False, "out": 0, "broken": False, "done": False, "skp_run": 0, "prev_mask": 0, "masks": set()}
    skp_word_cycles = []
    strobe_cycles = []

    def driver():
        b.set(source.ready, 1)
        idx = 0
        pending = None
        while idx < len(words) or pending is not None:
            if pending is None and (not gaps or rng.random() < p_valid):
                pending = words[idx]
                idx += 1
            if pending is not None:
                d, c = pack(pending)
                b.set(sink.valid, 1)
            else:
                # garbage with SKPs while invalid
                g = [SKP if rng.random() < 0.6 else (rng.randrange(256), rng.getrandbits(1)) for _ in range(4)]
                d, c = pack(g)
                b.set(sink.valid, 0)
                if SKP in g:
                    res.bin("gap_with_skp_garbage")
            b.set(sink.payload, d)
            b.set(sink.ctrl, c)
            yield
            if pending is not None and b.get(sink.ready):
                pending = None
        b.set(sink.valid, 0)
        b.set(sink.payload, 0x3C3C3C3C)
        b.set(sink.ctrl, 0xF)
        for _ in range(10):
            yield
        st["done"] = True

    def monitor(b):
        sv, sd, sc, sr = b.get(sink.valid), b.get(sink.payload), b.get(sink.ctrl), b.get(sink.ready)
        ov, od, oc, orr = b.get(source.valid), b.get(source.payload), b.get(source.ctrl), b.get(source.ready)
        strobe = b.get(dut.skip_removed)
        # In the physical layer the PHY receive pins are wired straight to `sink` with valid tied high and `ready`
        # ignored (the PHY cannot be back-pressured): with the downstream always ready the remover must take a word
        # in every cycle, otherwise that word is lost in the real wiring.
        res.event("sink_ready_checked")
        if not sr and not st["ready_low_reported"]:
            st["ready_low_reported"] = True
            res.violation("sink_backpressure_with_downstream_ready",
                          "cyc=%d sink.ready low (sink.valid=%d, %d symbols buffered) although source.ready is tied high: "
                          "the word of this cycle is lost in USB3PhysicalLayer" % (b.cycle, sv, len(expected) - st["out"]))
        fill = len(expected) - st["out"]          # symbols accepted and not yet put out (before this cycle)
        if strobe:
            res.event("skip_removed_strobes")
            strobe_cycles.append(b.cycle)
        # ---- output first: the word visible in this cycle was built from earlier cycles
        if ov and orr:
            res.event("words_out")
            got = [((od >> (8 * i)) & 0xFF, (oc >> i) & 1) for i in range(4)]
            exp = expected[st["out"]:st["out"] + 4]
            if not st["broken"]:
                if len(exp) < 4:
                    st["broken"] = True
                    res.violation("output_without_input", "cyc=%d word %08x/%x emitted but only %d symbols outstanding (%r)"
                                  % (b.cycle, od, oc, len(exp), exp))
                elif got != exp:
                    st["broken"] = True
                    res.violation(classify(got, st["out"]), "cyc=%d output word #%d = %r expected %r (symbol index %d)"
                                  % (b.cycle, st["out"] // 4, got, exp, st["out"]))
                else:
                    res.event("symbols_compared", 4)
                    for s in got:
                        if s == (0x3C, 0):
                            res.bin("data_3c_kept")
                        elif s[1] and s[0] in NEAR_SKP_CTRL:
                            res.bin("near_skp_ctrl_kept")
            st["out"] += 4
        # ---- input
        if sv and sr:
            res.event("words_in")
            syms = [((sd >> (8 * i)) & 0xFF, (sc >> i) & 1) for i in range(4)]
            mask = sum(1 << i for i, s in enumerate(syms) if s == SKP)
            kept = [s for s in syms if s != SKP]
            res.bin("mask_%x" % mask)
            st["masks"].add(mask)
            res.bin("fill%d_add%d" % (min(fill, 7), len(kept)))
            if kept and len(expected) % 4:
                res.bin("regroup_offset_%d" % (len(expected) % 4))
            if (0xBC, 1) in kept:
                res.bin("com_symbol")
            if mask:
                res.event("skp_words_in")
                res.event("skp_symbols_in", bin(mask).count("1"))
                skp_word_cycles.append(b.cycle)
            if mask == 0xF:
                st["skp_run"] += 1
                if st["skp_run"] == 3:
                    res.bin("all_skp_run_ge3")
            else:
                st["skp_run"] = 0
            if (st["prev_mask"] & 0b1000) and (mask & 1) and mask != 0xF and st["prev_mask"] != 0xF:
                res.bin("skp_pair_split_over_words")
            st["prev_mask"] = mask
            expected.extend(kept)
        if not st["broken"] and len(expected) - st["out"] > 16:
            st["broken"] = True
            res.violation("output_starved", "cyc=%d %d accepted symbols outstanding, no output word" % (b.cycle, len(expected) - st["out"]))

    def classify(got, pos):
        if any(s == SKP for s in got):
            return "skp_symbol_not_removed"
        window = expected[max(0, pos - 8):pos + 12]
        exp = expected[pos:pos + 4]
        if all(s in window for s in got):
            # same symbols, wrong place: find what happened to the first wrong symbol
            for i in range(4):
                if got[i] != exp[i]:
                    if got[i] in expected[pos + i + 1:pos + 12]:
                        return "symbol_lost"
                    if got[i] in expected[max(0, pos - 8):pos + i]:
                        return "symbol_duplicated_or_reordered"
                    break
        for i in range(4):
            if got[i] != exp[i] and got[i][0] == exp[i][0]:
                return "ctrl_bit_wrong"
        return "output_symbol_mismatch"

    b.add_driver(driver())
    b.add_monitor(monitor)
    b.run()
    res.cycles = b.cycle
    if b.hit_max_cycles or not st["done"]:
        res.violation("sink_not_ready", "driver did not finish in %d cycles (sink.ready low?)" % b.cycle)
    elif not st["broken"] and len(expected) - st["out"] > 3:
        res.violation("symbols_lost_at_end", "%d accepted symbols never appeared after the drain" % (len(expected) - st["out"]))
    # skip_removed: one strobe per SKP-carrying accepted word, 0..3 cycles later, in order
    if len(strobe_cycles) != len(skp_word_cycles):
        res.violation("skip_removed_count", "%d strobes for %d accepted words containing SKP" % (len(strobe_cycles), len(skp_word_cycles)))
    else:
        for a, s in zip(skp_word_cycles, strobe_cycles):
            if not 0 <= s - a <= 3:
                res.violation("skip_removed_misplaced", "word with SKP accepted in cycle %d, strobe in cycle %d" % (a, s))
                break
    res.nontrivial = len(st["masks"]) >= 8 and bool(res.bins.get("all_skp_run_ge3")) and bool(
        res.bins.get("data_3c_kept") or res.bins.get("near_skp_ctrl_kept"))
