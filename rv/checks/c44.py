"""C44 — idle handshake and U0 link timers meet their timing rules.

Two DUTs per case, both stand-alone and unmodified:

A. luna.gateware.usb.usb3.link.idle.IdleHandshakeHandler
   Workload: 40-70 "episodes" in one run.  An episode = `enable` low for some cycles, then high for 1-16 cycles, while the
   sink stream carries a word pattern built from: valid idle words (data 0, ctrl 0), *invalid* cycles carrying zeros,
   invalid cycles carrying garbage, valid data words (random / a single bit set / a single byte non-zero), valid words with
   data 0 but a control flag set, and half-idle words (two idle symbols + two non-idle ones).  Directed patterns: an idle
   pair placed at every offset -3..+8 around the rise of `enable` (also straddling it, also completely before it), idle /
   invalid-zero / idle, idle / data / idle, idle / K-with-zero-data / idle, invalid zeros only, one valid + one invalid
   zero word, half-idle + idle + half-idle, single idle words separated by data, all idle, very short enables, and
   "re-enable after a successful handshake while no idle arrives", "one-cycle drop of enable in an all-idle stream".
   Oracle (symbol level, written from the statement): `idle_handshake_complete` in an enabled cycle t requires
     (a) at least 4 enabled cycles including t since enable rose (4 symbols are sent per cycle: 16 symbols), and
     (b) a run of >= 8 consecutive *valid* idle symbols (symbols of invalid cycles are not received at all, they neither
         extend nor break a run; both byte orders inside a word are tried) whose last symbol arrived in an enabled cycle of
         this episode, at or before t.
   `complete` while enable is low (and was low the cycle before) is a violation too.  Bounded progress: once two valid
   all-idle words arrived in adjacent enabled cycles and enable is high for its 5th cycle, `complete` must be seen within
   3 further cycles if enable stays high.
   The classifier separates "would be fine if invalid cycles carrying zeros counted as idle words" (the known defect)
   from every other early completion.

B. luna.gateware.usb.usb3.link.timers.LinkMaintenanceTimers(ss_clock_frequency = k * 100 kHz), N = 10 us * f cycles,
   M = 1 ms * f cycles (exact integers for these f).  Mostly k in 10..40 (M = 1000..4000 cycles); some cases at 125 MHz with
   only the keepalive timer reaching its limit; 15 % of the quick cases (8 % thorough) are a full 125 MHz case (M = 125000,
   17-bit counter): a few early events, optionally a short drop of enable, then one silence of M+2..M+60 (60 %: the strobe must
   come), M / M+1 (15 %) or M-3..M-1 (25 %: it must not) cycles and nothing else.
   Workload: independent schedules for `link_command_transmitted`, for `link_command_received` / `packet_received` (one,
   the other or both) and for `enable`: gaps of 1-3 cycles, N-2..N+3 / M-3..M+3, half the interval, random, long (beyond the
   counter roll-over); `enable` dropped for 1..N+3 (or M/4) cycles at random times and, directed, 0-5 cycles before a timer
   would expire followed by silence (the timer must start again).
   Oracle: q(t) = number of cycles since the last cycle in which the respective strobe was high or enable was low.
   `schedule_keepalive` in an enabled cycle needs q >= N-1, and if the silence lasts through q = N+2 a strobe must have been
   seen at N-1..N+2.  `transition_to_recovery` needs q >= M ("never earlier") and must be seen at q = M or M+1 ("within one
   cycle") if the silence lasts that long.  Later strobes in the same silence (counter roll-over) are counted, not judged.

Deviations from DESIGN.md section 7: (1) "sixteen symbols sent" is counted including the cycle in which `complete` is
sampled (the LTSSM leaves Polling.Idle at the end of that cycle), so completion in the 4th enabled cycle is accepted and a
design with RX_CYCLES_REQUIRED = 3 does not violate the statement (= 2 does); (2) the eight idle symbols are tracked symbol
by symbol instead of "two all-idle words", and a run may start before enable rose, because the statement does not say
otherwise (the bounded-progress rule uses the stricter two-adjacent-words condition, so both readings are satisfied);
(3) the recovery strobe is accepted at M or M+1 only ("within one cycle ... never earlier"), not at M-1.
Mutation results (quick tier): caught RX_CYCLES 4->2, dropped ctrl terms, single-word detection, ignored top byte,
seen_idle / enable_counter not cleared on disable, counter overrun (never completes), recovery at half / one early / two
late / wrong reset inputs / not reset or counting while disabled, keepalive at half / 20 us / reset by rx / not reset on
disable; not flagged because the statement still holds: RX_CYCLES 4->3, recovery one cycle late.

Not judged: `idle_detected`; how long `complete` stays high; strobes while `enable` is low (the statement speaks about
U0); the keepalive's upper bound is taken as N+2 cycles, not the statement's outer limit of 10 ms (see ASSUMPTIONS);
absolute time (cycles at the block's own `ss_clock_frequency` parameter).
"""
from rv.sim import Bench

PROPERTY = "C44"
CASES = {"quick": 160, "thorough": 3000}
TIMEOUT = {"quick": 1200, "thorough": 6 * 3600}
RULE = ("case = (A) 40-70 idle-handshake episodes with directed word patterns around the rise of enable (idle pair at offsets -3..+8, "
        "gaps made of invalid-zero / invalid-garbage / data / K words, half-idle straddles, short enables, re-enable without idle) plus (B) one "
        "LinkMaintenanceTimers(f = k*100 kHz) session of ~6-9 recovery intervals with independent tx / rx / enable schedules whose gaps sit at "
        "N-2..N+3, M-3..M+3, half intervals, roll-over distance and random; non-trivial = >= 5 completed and >= 5 refused handshakes, >= 3 "
        "keepalives and >= 1 recovery strobe judged; distinct = hash of all patterns and schedules")
REQUIRED_BINS = [
    # handshake
    "hs_idle_pair_inside_enable", "hs_idle_pair_straddles_enable_rise", "hs_idle_pair_before_enable_only", "hs_gap_invalid_zero",
    "hs_gap_invalid_garbage", "hs_gap_data", "hs_gap_ctrl_zero_data", "hs_invalid_zeros_only", "hs_valid_plus_invalid_zero",
    "hs_half_idle_straddle", "hs_single_idles", "hs_all_idle", "hs_short_enable", "hs_reenable_without_idle", "hs_enable_glitch_in_idle",
    "hs_random_mix", "hs_completed", "hs_not_completed", "hs_complete_judged_cycles", "hs_liveness_judged",
    # timers
    "tm_tx_gap_N_minus_1", "tm_tx_gap_N", "tm_tx_gap_N_plus_1", "tm_rx_gap_M_minus_1", "tm_rx_gap_M", "tm_rx_gap_M_plus_1",
    "tm_rx_by_link_command", "tm_rx_by_packet", "tm_disable_before_keepalive", "tm_disable_before_recovery",
    "tm_keepalive_in_window", "tm_recovery_in_window", "tm_keepalive_silence_broken_early", "tm_recovery_silence_broken_early",
    "tm_keepalive_repeat", "tm_f125_keepalive", "tm_f125_recovery", "tm_f125_recovery_must_fire", "tm_f125_recovery_in_window",
    "tm_f125_recovery_after_enable_drop",
]
REQUIRED_EVENTS = ["hs_cycles", "hs_complete_cycles", "hs_valid_idle_words", "tm_cycles", "tm_keepalive_strobes", "tm_recovery_strobes",
                   "tm_tx_strobes", "tm_rx_strobes"]
ASSUMPTIONS = ["4 symbols are sent in every cycle enable is high; 'sixteen symbols sent' = completion in the 4th enabled cycle or later",
               "the run of eight idle symbols may begin before enable rose but must end in an enabled cycle of the same enable period",
               "symbols of invalid cycles are not received: they neither extend nor break a run of idle symbols",
               "keepalive: silence is counted from the later of the last transmitted link command and the rise of enable; accepted window N-1..N+2 "
               "cycles (the statement's outer limit of 10 ms is not used: it would make every timeout up to 10 ms acceptable)",
               "recovery: accepted window M..M+1 cycles of silence, silence counted from the later of the last received command/packet and the rise of enable",
               "strobes after the first one within the same silence (counter roll-over) and strobes while enable is low are not judged",
               "the first two cycles after power-up carry non-idle words (the DUT's reset state is not treated as received symbols)"]

HS_LIVENESS_SLACK = 3
KA_EARLY_TOL, KA_LATE_TOL = 1, 2
REC_LATE_TOL = 1


# ======================================================================================== A. idle handshake

def _word(rng, kind):
    """-> (valid, data, ctrl)"""
    if kind == "I":
        return (1, 0, 0)
    if kind == "Z":
        return (0, 0, 0)
    if kind == "G":
        return (0, rng.getrandbits(32) | (1 << rng.randrange(32)), rng.choice([0, 0, rng.randrange(16)]))
    if kind == "D":
        how = rng.randrange(4)
        if how == 0:
            return (1, rng.getrandbits(32) | (1 << rng.randrange(32)), 0)
        if how == 1:
            return (1, 1 << rng.randrange(32), 0)
        if how == 2:
            return (1, rng.randrange(1, 256) << (8 * rng.randrange(4)), 0)
        return (1, rng.getrandbits(32) | 1, rng.randrange(16))
    if kind == "K":      # data zero, a control flag set (e.g. the K-symbol 0x00 does not exist, but the word is not logical idle)
        return (1, 0, rng.choice([1, 2, 4, 8, rng.randrange(1, 16)]))
    if kind == "H":      # upper two symbols idle, lower two not
        return (1, rng.randrange(1, 1 << 16) | 0x0101, 0)
    if kind == "L":      # lower two symbols idle, upper two not
        return (1, (rng.randrange(1, 1 << 16) | 0x0101) << 16, 0)
    raise ValueError(kind)


def _episodes(rng, res, n):
    """-> list of (pre, en) : strings of word kinds for the disabled and for the enabled phase."""
    out = []
    noise = "DDDGK"

    def fill(k):
        return "".join(rng.choice(noise) for _ in range(k))

    prev_completed_like = False
    for _ in range(n):
        pat = rng.choice(["pair", "pair", "pair", "gapZ", "gapG", "gapD", "gapK", "zeros", "mixZ", "half", "singles", "all_idle",
                          "short", "reenable", "glitch", "random", "random"])
        pre_len = rng.randint(1, 6)
        en_len = rng.randint(5, 16)
        if pat == "pair":
            off = rng.randint(-3, 8)          # position of the first idle word relative to the first enabled cycle
            pre_len = max(pre_len, 4)
            seq = list(fill(pre_len + en_len))
            i = pre_len + off
            if i + 1 < len(seq):
                seq[i] = seq[i + 1] = "I"
            pre, en = "".join(seq[:pre_len]), "".join(seq[pre_len:])
            res.bin("hs_idle_pair_inside_enable" if off >= 0 else "hs_idle_pair_straddles_enable_rise" if off == -1
                    else "hs_idle_pair_before_enable_only")
        elif pat in ("gapZ", "gapG", "gapD", "gapK"):
            g = pat[-1] * rng.choice([1, 1, 2, 3])
            off = rng.randint(0, 6)
            core = "I" + g + "I"
            en = fill(off) + core + fill(max(0, en_len - off - len(core)))
            pre = fill(pre_len)
            res.bin({"Z": "hs_gap_invalid_zero", "G": "hs_gap_invalid_garbage", "D": "hs_gap_data", "K": "hs_gap_ctrl_zero_data"}[pat[-1]])
        elif pat == "zeros":
            off = rng.randint(0, 4)
            en = fill(off) + "Z" * rng.randint(2, 5) + fill(rng.randint(2, 6))
            pre = fill(pre_len)
            res.bin("hs_invalid_zeros_only")
        elif pat == "mixZ":
            off = rng.randint(0, 4)
            en = fill(off) + rng.choice(["IZ", "ZI", "ZIZ", "IZD", "DZI"]) + fill(rng.randint(3, 6))
            pre = fill(pre_len)
            res.bin("hs_valid_plus_invalid_zero")
        elif pat == "half":
            off = rng.randint(0, 4)
            en = fill(off) + rng.choice(["HIL", "LIH", "HI", "IL", "LI", "IH", "HL", "LH"]) + fill(rng.randint(3, 6))
            pre = fill(pre_len)
            res.bin("hs_half_idle_straddle")
        elif pat == "singles":
            en = "".join(rng.choice(["ID", "IK", "IG", "IDD"]) for _ in range(rng.randint(3, 6)))
            pre = fill(pre_len) if rng.random() < 0.5 else fill(pre_len - 1) + "I"
            if rng.random() < 0.5:
                en = "D" + en
            res.bin("hs_single_idles")
        elif pat == "all_idle":
            pre = "I" * pre_len if rng.random() < 0.5 else fill(pre_len)
            en = "I" * en_len
            res.bin("hs_all_idle")
        elif pat == "short":
            en = "I" * rng.randint(1, 4)
            pre = rng.choice(["I" * pre_len, fill(pre_len)])
            res.bin("hs_short_enable")
        elif pat == "reenable":
            # a successful handshake, enable drops for 1-3 cycles, comes back while no idle pair arrives any more
            out.append((fill(pre_len), "II" + "I" * rng.randint(4, 8)))
            pre = rng.choice(["D", "DD", "DDD", "I", "ID", "DI"])
            en = "".join(rng.choice(["D", "D", "K", "ID", "G", "Z"]) for _ in range(rng.randint(6, 10)))
            res.bin("hs_reenable_without_idle")
        elif pat == "glitch":
            # all-idle stream, enable high long enough to complete, low for 1-2 cycles, high again for 1-5 cycles
            out.append((fill(pre_len), "I" * rng.randint(6, 9)))
            pre = "I" * rng.randint(1, 2)
            en = "I" * rng.randint(1, 5)
            res.bin("hs_enable_glitch_in_idle")
        else:
            weights = rng.choice([[5, 2, 1, 3, 1, 1, 1], [3, 3, 2, 2, 1, 0, 0], [6, 0, 0, 3, 1, 0, 0], [2, 1, 1, 6, 2, 1, 1]])
            pre = "".join(rng.choices("IZGDKHL", weights)[0] for _ in range(pre_len))
            en = "".join(rng.choices("IZGDKHL", weights)[0] for _ in range(en_len))
            res.bin("hs_random_mix")
        out.append((pre, en))
    return out


class _Run:
    """longest run of consecutive idle symbols, symbol by symbol, for one byte order."""

    def __init__(self, little_endian):
        self.le = little_endian
        self.run = 0

    def word(self, data, ctrl):
        """feed one received word; -> True if the run is >= 8 right after one of its (idle) symbols."""
        hit = False
        order = range(4) if self.le else range(3, -1, -1)
        for i in order:
            idle = ((data >> (8 * i)) & 0xFF) == 0 and not ((ctrl >> i) & 1)
            self.run = self.run + 1 if idle else 0
            if self.run >= 8:
                hit = True
        return hit


def _run_handshake(rng, res):
    from luna.gateware.usb.usb3.link.idle import IdleHandshakeHandler
    dut = IdleHandshakeHandler()
    sink = dut.sink
    eps = _episodes(rng, res, rng.randint(40, 70))
    res.sig(eps)
    res.desc["handshake_first_episodes"] = eps[:5]

    words = [(0, _word(rng, "D")), (0, _word(rng, "D")), (0, _word(rng, "K"))]      # (enable, (valid, data, ctrl))
    for pre, en in eps:
        words += [(0, _word(rng, k)) for k in pre]
        words += [(1, _word(rng, k)) for k in en]
    words += [(0, _word(rng, "D"))] * 3
    res.sig(words)

    b = Bench(dut, domain="ss", freq=125e6, max_cycles=len(words) + 20)
    b.watch(dut.enable, sink.valid, sink.data, sink.ctrl, dut.idle_handshake_complete)
    seen = set()

    def report(mech, detail):
        if mech not in seen:
            seen.add(mech)
            res.violation(mech, "[handshake] " + detail)

    def driver():
        for en, (v, d, c) in words:
            b.set(dut.enable, en); b.set(sink.valid, v); b.set(sink.data, d); b.set(sink.ctrl, c)
            yield

    strict = [_Run(True), _Run(False)]          # only valid words are received
    lenient = [_Run(True), _Run(False)]         # as if the valid flag did not exist
    st = {"prev_en": 0, "t0": None, "earned": False, "earned_lenient": False, "prev_valid_idle_en": False, "pair_at": None,
          "completed": False, "live_checked": False, "hist": []}

    def monitor(b):
        t = b.cycle
        en, v, d, c, done = (b.get(s) for s in (dut.enable, sink.valid, sink.data, sink.ctrl, dut.idle_handshake_complete))
        res.event("hs_cycles")
        st["hist"].append("%s%s%08x/%x" % ("E" if en else "-", "v" if v else "x", d, c))
        del st["hist"][:-14]
        if en and not st["prev_en"]:
            st.update(t0=t, earned=False, earned_lenient=False, prev_valid_idle_en=False, pair_at=None, completed=False, live_checked=False)
        # ---- what has been received
        hit = False
        if v:
            hit = any([r.word(d, c) for r in strict])
        hit_l = any([r.word(d, c) for r in lenient])
        valid_idle = bool(v and d == 0 and c == 0)
        if valid_idle:
            res.event("hs_valid_idle_words")
        if en:
            if hit:
                st["earned"] = True
            if hit_l:
                st["earned_lenient"] = True
            if valid_idle and st["prev_valid_idle_en"] and st["pair_at"] is None:
                st["pair_at"] = t
            st["prev_valid_idle_en"] = valid_idle
        # ---- safety
        if done:
            res.event("hs_complete_cycles")
            ctx = "cycle %d, enabled since %s; last cycles (E=enable v=valid data/ctrl): %s" % (t, st["t0"], " ".join(st["hist"]))
            if not en:
                if st["prev_en"]:
                    res.unjudged += 1
                else:
                    report("complete_while_not_enabled", ctx)
            else:
                res.bin("hs_complete_judged_cycles")
                st["completed"] = True
                if t - st["t0"] + 1 < 4:
                    report("complete_before_sixteen_symbols_sent", ctx)
                if not st["earned"]:
                    if st["earned_lenient"]:
                        report("complete_counts_invalid_zero_words_as_idle", ctx)
                    else:
                        report("complete_without_eight_idle_symbols", ctx)
        # ---- bounded progress
        if en and st["pair_at"] is not None and not st["live_checked"]:
            deadline = max(st["pair_at"], st["t0"] + 4) + HS_LIVENESS_SLACK
            if st["completed"]:
                st["live_checked"] = True
                res.bin("hs_liveness_judged")
            elif t >= deadline:
                st["live_checked"] = True
                res.bin("hs_liveness_judged")
                report("handshake_not_completed", "two valid idle words in adjacent enabled cycles by cycle %d, enabled since %d, no completion by cycle %d; %s"
                       % (st["pair_at"], st["t0"], t, " ".join(st["hist"])))
        if st["prev_en"] and not en:
            res.bin("hs_completed" if st["completed"] else "hs_not_completed")
        if not en:
            st["earned"] = st["earned_lenient"] = False
        st["prev_en"] = en

    b.add_driver(driver())
    b.add_monitor(monitor)
    b.run()
    return b.cycle


# ======================================================================================== B. U0 timers

def _timer_schedule(rng, res, N, M, mode):
    """-> (T, tx set, rx dict cycle->kind, disabled set)"""
    if mode == "both":
        T = rng.randint(6, 9) * M
    elif mode == "ka_only":
        T = rng.randint(8, 14) * N
    else:
        T = M + rng.randint(4000, 6000)
    rollover = 1 << (N - 1).bit_length() if N > 1 else 2
    tx, t = [], rng.randint(3, 8)
    while t < T:
        tx.append(t)
        r = rng.random()
        if r < 0.2:
            g = rng.randint(1, 3)
        elif r < 0.6:
            g = N + rng.choice([-2, -1, -1, 0, 0, 1, 1, 2, 3])
            res.bin({-1: "tm_tx_gap_N_minus_1", 0: "tm_tx_gap_N", 1: "tm_tx_gap_N_plus_1"}.get(g - N, "tm_tx_gap_near_N"))
        elif r < 0.8:
            g = rng.randint(1, 3 * N)
        elif r < 0.9:
            g = rng.randint(3 * N, 12 * N)
        else:
            g = rollover + N + rng.choice([-1, 0, 1, 2, N])
        t += max(1, g)
    rx, t = {}, rng.randint(3, 8)
    extra_disabled = set()
    near = [-3, -2, -1, -1, 0, 0, 1, 1, 2, 3]
    while t < T:
        rx[t] = rng.choice(["lcr", "pr", "both", "lcr", "pr"])
        r = rng.random()
        if mode == "ka_only":
            g = rng.randint(1, max(2, min(M - 5, 3 * N)))
        elif mode == "rec125":        # a few early events, then exactly one silence of about M cycles, then the end of the case
            if t < 2000 and r < 0.5:
                g = rng.randint(1, 1000)
            else:
                base = t
                if rng.random() < 0.4:    # enable drops shortly after the last event: the real-width counter must start again
                    d = t + rng.randint(1, 1500)
                    dur = rng.choice([1, 1, 2, 3, 40])
                    extra_disabled.update(range(d, d + dur))
                    base = d + dur - 1
                    res.bin("tm_f125_recovery_after_enable_drop")
                rr = rng.random()
                if rr < 0.6:              # silence long enough that a missing or late strobe is a violation
                    g = M + rng.choice([2, 2, 2, 3, 4, rng.randint(5, 60)])
                    res.bin("tm_f125_recovery_must_fire")
                elif rr < 0.75:
                    g = M + rng.choice([0, 1])
                    res.bin("tm_f125_recovery_boundary")
                else:
                    g = M - rng.choice([1, 1, 2, 3])
                    res.bin("tm_f125_recovery_must_not_fire")
                res.bin({-1: "tm_rx_gap_M_minus_1", 0: "tm_rx_gap_M", 1: "tm_rx_gap_M_plus_1"}.get(g - M, "tm_rx_gap_near_M"))
                rx[base + g] = rng.choice(["lcr", "pr"])
                T = base + g + 40
                break
        elif r < 0.2:
            g = rng.randint(1, 50)
        elif r < 0.65:
            g = M + rng.choice(near)
            res.bin({-1: "tm_rx_gap_M_minus_1", 0: "tm_rx_gap_M", 1: "tm_rx_gap_M_plus_1"}.get(g - M, "tm_rx_gap_near_M"))
        elif r < 0.8:
            g = rng.randint(1, M - 1)
        elif r < 0.9:
            g = M + rng.randint(4, 200)
        else:
            g = M // 2 + rng.randint(-2, 2)
        t += max(1, g)
    # enable: low for the first two cycles, then drops
    disabled = {0, 1, 2} | extra_disabled
    n_drops = rng.choice([0, 1, 2, 3, 4]) if mode != "rec125" else 0
    for _ in range(n_drops):
        how = rng.choice(["random", "before_keepalive", "before_recovery"])
        dur = rng.choice([1, 1, 2, 5, rng.randint(1, N + 3), max(1, M // 4)])
        if how == "before_keepalive" and tx:
            ref = rng.choice(tx)
            start = ref + N - rng.randint(0, 5)
            tx = [x for x in tx if not (ref < x <= start + dur + N + 6)]
            res.bin("tm_disable_before_keepalive")
        elif how == "before_recovery" and rx and mode != "ka_only":
            ref = rng.choice(sorted(rx))
            start = ref + M - rng.randint(0, 5)
            dur = min(dur, 5)
            rx = {x: k for x, k in rx.items() if not (ref < x <= start + dur + M + 6)}
            res.bin("tm_disable_before_recovery")
            T = max(T, start + dur + M + 10)
        else:
            start = rng.randint(3, T - 1)
        disabled.update(range(start, start + dur))
    return T, set(tx), rx, disabled


def _run_timers(rng, res, tier):
    from luna.gateware.usb.usb3.link.timers import LinkMaintenanceTimers
    r = rng.random()
    p_full = 0.15 if tier == "quick" else 0.08
    if r < p_full:
        mode, k = "rec125", 1250
    elif r < p_full + 0.18:
        mode, k = "ka_only", 1250
        res.bin("tm_f125_keepalive")
    else:
        mode, k = "both", rng.choice([10, 11, 13, 16, 17, 20, 25, 31, 32, 33, 40, rng.randint(10, 40)])
    f = k * 100000
    N, M = k, 100 * k                      # 10 us and 1 ms at f = k * 100 kHz
    dut = LinkMaintenanceTimers(ss_clock_frequency=float(f))
    T, tx, rx, disabled = _timer_schedule(rng, res, N, M, mode)
    res.sig(f, sorted(tx), sorted(rx.items()), sorted(disabled))
    res.desc["timers"] = {"f_hz": f, "N": N, "M": M, "mode": mode, "cycles": T, "tx_first": sorted(tx)[:6], "rx_first": sorted(rx.items())[:4],
                          "disabled_cycles": len(disabled)}
    if mode == "rec125":
        res.bin("tm_f125_recovery")

    b = Bench(dut, domain="ss", freq=float(f), max_cycles=T + 20)
    sigs = (dut.enable, dut.link_command_received, dut.packet_received, dut.link_command_transmitted,
            dut.schedule_keepalive, dut.transition_to_recovery)
    b.watch(*sigs)
    seen = set()

    def report(mech, detail):
        if mech not in seen:
            seen.add(mech)
            res.violation(mech, "[timers f=%d Hz N=%d M=%d] %s" % (f, N, M, detail))

    def driver():
        last = [None] * 4
        ins = (dut.enable, dut.link_command_transmitted, dut.link_command_received, dut.packet_received)
        for t in range(T):
            kind = rx.get(t)
            vals = (0 if t in disabled else 1, 1 if t in tx else 0, 1 if kind in ("lcr", "both") else 0, 1 if kind in ("pr", "both") else 0)
            for i in range(4):
                if vals[i] != last[i]:          # only changes are handed to the simulator (long silent stretches)
                    last[i] = vals[i]
                    b.set(ins[i], vals[i])
            yield

    class Silence:
        """one timer: silence since the last reset condition, first strobe of the silence judged against [lo, hi]."""

        def __init__(self, name, strobe_word, lo, hi):
            self.name, self.word, self.lo, self.hi = name, strobe_word, lo, hi
            self.last = 0            # last cycle with a reset condition (strobe input or enable low); cycle 0 = before the first edge
            self.by_enable = True
            self.ok = False
            self.why = "start"

        def step(self, t, en, reset_input, strobe, why):
            q = t - self.last
            if strobe:
                res.event("tm_%s_strobes" % self.name)
                if not en:
                    res.unjudged += 1
                elif q < self.lo:
                    report("%s_%s" % (self.word, "early_after_enable" if self.by_enable else "early"),
                           "cycle %d: strobe after only %d cycles of silence (silence began at cycle %d by %s); allowed from %d"
                           % (t, q, self.last, self.why, self.lo))
                elif q <= self.hi:
                    if not self.ok:
                        res.bin("tm_%s_in_window" % self.name)
                        if mode == "rec125":
                            res.bin("tm_f125_%s_in_window" % self.name)
                    self.ok = True
                else:
                    res.bin("tm_%s_repeat" % self.name)
            if en and not reset_input:
                if q == self.hi and not self.ok:
                    report("%s_missing" % self.word, "cycle %d: %d cycles of silence (since cycle %d, %s) and no strobe seen at %d..%d cycles"
                           % (t, q, self.last, self.why, self.lo, self.hi))
            else:
                if self.lo - 3 <= q < self.lo and not self.ok:
                    res.bin("tm_%s_silence_broken_early" % self.name)
                self.last, self.ok = t, False
                self.by_enable = not en
                self.why = "enable low" if not en else why

    ka = Silence("keepalive", "keepalive", N - KA_EARLY_TOL, N + KA_LATE_TOL)
    rec = Silence("recovery", "recovery", M, M + REC_LATE_TOL)

    def monitor(b):
        t = b.cycle
        en, lcr, pr, lct, sk, ttr = (b.get(s) for s in sigs)
        res.event("tm_cycles")
        if lct:
            res.event("tm_tx_strobes")
        if lcr or pr:
            res.event("tm_rx_strobes")
            if en:
                if lcr:
                    res.bin("tm_rx_by_link_command")
                if pr:
                    res.bin("tm_rx_by_packet")
        ka.step(t, en, lct, sk, "link_command_transmitted")
        rec.step(t, en, lcr or pr, ttr, "link_command_received" if lcr else "packet_received")

    b.add_driver(driver())
    b.add_monitor(monitor)
    b.run()
    return b.cycle


def run_case(rng, tier, res):
    res.desc = {}
    c1 = _run_handshake(rng, res)
    c2 = _run_timers(rng, res, tier)
    res.cycles = c1 + c2
    bins = res.bins
    res.nontrivial = bins.get("hs_completed", 0) >= 5 and bins.get("hs_not_completed", 0) >= 5 \
        and bins.get("tm_keepalive_in_window", 0) >= 3 and (bins.get("tm_recovery_in_window", 0) >= 1 or bins.get("tm_f125_keepalive", 0) >= 1 or bins.get("tm_f125_recovery", 0) >= 1)
