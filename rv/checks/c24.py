"""C24 — ULPI control registers always converge to the requested UTMI settings.

DUT: the real `UTMITranslator` (some cases with the `rst` pin, start-up constant scaled to 10-60 cycles) against the
reference ULPI 1.1 PHY model with register file `rv/ref/c22_ulpiphy.py` (command latency 1..9 cycles, NXT throttling of
the register data byte, PHY-originated DIR activity that aborts writes at every stage, including the STP cycle).

Workload: one case = up to 14 episodes on one DUT; each episode applies one pattern and then lets the bus go quiet:
  single       one control field changes
  multi        several fields (both registers) change in the same cycle
  double       a change, then another change (same or other register) 1-12 cycles later (write in flight)
  revert       a change taken back 1-10 cycles later
  under_dir    changes while the PHY holds DIR (receive packet / RxCmds), writes aborted and retried
  abort_stage  the PHY raises DIR exactly when the write reaches a chosen stage (command seen / accepted / data accepted = STP cycle)
  tx_near      a transmission and one change that do not meet while the TXCMD is pending (change first, or change inside the packet body)
  tx_coincide  a UTMI transmission whose start lies -6..+8 cycles around a control change (mostly 0..2 cycles after it)
  traffic      transmit packets, receive activity and control changes at random cycles
After the pattern the bench stops changing things, and waits (bounded) for convergence.

Oracle (ULPI 1.1 register map, no luna code): requested Function Control = XcvrSelect | TermSelect<<2 | OpMode<<3 |
SuspendM<<6, requested OTG Control = IdPullup | DpPulldown<<1 | DmPulldown<<2 | DischrgVbus<<3 | ChrgVbus<<4 |
UseExternalVbusIndicator<<7, computed every cycle from the sampled control inputs.  Judged:
  * every register write the PHY commits addresses 0x04 or 0x0A (or the constant extra register 0x16 that a quarter of the cases
    add through `add_extra_register`) and carries a value the addressed register's inputs
    had at some cycle between the previous commit to that register and this commit (a link may latch the value when it
    requests the write and present the command much later);
  * bounded convergence: within 300 bus-free cycles after the last change / transmission / PHY activity there are 12
    consecutive cycles in which the PHY registers equal the requests and the link issues no command (redundant writes of a
    correct value on the way are tolerated, endless rewriting is not);
  * bounded progress: a pending UTMI transmission gets a byte accepted at least every 150 cycles in which the PHY leaves
    the bus to the link; a pending register difference leads to a committed write within 150 cycles in which the PHY
    leaves the bus to the link and no transmission is pending;
  * every UTMI byte accepted is consumed by the PHY inside a transmit packet (no loss when writes and packets meet);
  * the link commits no ULPI protocol irregularity (command withdrawn / changed before NXT, STP late or missing, ...).

A case ends at the first failed convergence or dead-lock (the DUT state is then no longer comparable).
Known findings on the unchanged tree are named by narrow classifiers (`classify`, see findings/C24.md); anything else keeps
its generic mechanism name and fails the run:
  * `regwrite_uses_live_address_and_data_after_request_changed`: only for a wrong value that equals what some register's live
    inputs request in the cycles the data byte is taken (or 0x00) / a write of 0x00 to register 0x00 / registers not
    converged *with a silent link* (no command for 80 cycles: the defect makes the link believe it is done), and only if at least two distinct control-change cycles lie in the same episode (since the last converged
    checkpoint) -- with a single change per episode (patterns single, multi, abort_stage, tx_near, most under_dir) the
    defect cannot be triggered, so those episodes judge every link without excuse;
  * `regwrite_started_while_txcmd_pending`: only if in the same episode a register write became startable (control change,
    two cycles after a commit with another difference queued, the cycle after a packet's STP, end of the start-up delay)
    in a cycle t0 <= e <= a, where tx_valid rose at t0 and the PHY accepted that TXCMD at a, with a register difference
    pending at e.  (A change one cycle *before* tx_valid is not covered: the unchanged tree handles it.)  Blocked / not
    converged is attributed only with a silent link.
  Never attributed to a finding: `register_rewritten_endlessly` (the same value committed to a register four times in a row
  without any input change), `regwrite_value_unexplained`, writes to other registers, non-convergence with an active link.

Not judged: transmit packet content and STP data (C23), the receive path (C22); op_mode is not changed while a
transmission is pending (the TXCMD would legitimately change).
"""
from rv.sim import Bench
from rv.ref.c22_ulpiphy import ULPIPhy, act_receive, act_rxcmds, rxcmd, TX as PHY_TX, RX as PHY_RX
from rv.checks.c22 import make_ulpi, ResProxy, CTL_FIELDS, CTL_QUIET, function_control, otg_control

PROPERTY = "C24"
CASES = {"quick": 480, "thorough": 7200}
RULE = ("case = up to 14 episodes (single / multi / double / revert / under_dir / abort_stage / tx_near / tx_coincide / traffic) of control-input "
        "changes, transmissions and PHY DIR activity on one UTMITranslator + PHY register file, each followed by a bounded "
        "convergence check; non-trivial = >=1 write aborted by DIR or >=1 change with a write in flight, and >=3 converged "
        "episodes; distinct = hash of all changes, packets and PHY activity")
REQUIRED_BINS = ["ep_single", "ep_multi", "ep_double", "ep_revert", "ep_under_dir", "ep_tx_coincide", "ep_traffic", "ep_abort_stage", "ep_tx_near",
                 "converged_episode", "change_inside_tx_body", "write_aborted_at_command", "write_aborted_before_data",
                 "write_aborted_by_dir", "write_aborted_in_stp_cycle", "change_while_write_in_flight", "change_same_cycle_as_tx_start",
                 "regwrite_startable_while_txcmd_pending", "tx_waits_for_regwrite", "both_registers_pending", "with_rst_pin",
                 "reg_data_nxt_throttled", "change_of_0x04_while_0x0a_in_flight", "revert_before_data_byte", "extra_register", "initial_random", "initial_near_reset",
                 "extra_int_default", "extra_int_no_default", "extra_signal", "extra_two", "op_mode_3_requested", "op_mode_01_or_11_initially",
                 "phy_dir_high_at_startup"]
REQUIRED_EVENTS = ["writes_committed", "writes_value_checked", "convergence_checks", "tx_packets_completed", "progress_cycles_watched",
                   "control_changes"]
ASSUMPTIONS = ["eventually = within 300 bus-free cycles (convergence) / 150 bus-free cycles (progress)",
               "op_mode is not changed while a transmission is pending",
               "the PHY does not raise DIR inside a transmit packet body; it aborts register writes at any stage",
               "start-up counter (_CYCLES_1_MILLISECONDS) scaled to 10-60 cycles in the cases with a rst pin"]

M_LIVE = "regwrite_uses_live_address_and_data_after_request_changed"
M_TXCMD = "regwrite_started_while_txcmd_pending"
KNOWN = (M_LIVE, M_TXCMD)
LIVE_KINDS = ("regwrite_blocked", "registers_not_converged", "regwrite_value_never_requested", "regwrite_to_register_0")
NEVER_KNOWN = ("register_rewritten_endlessly", "regwrite_value_unexplained", "regwrite_to_unrequested_register")

CONVERGE_BOUND = 300
PROGRESS_BOUND = 150
PATTERNS = ["single", "single", "multi", "double", "double", "revert", "revert", "under_dir", "abort_stage", "abort_stage", "abort_stage",
            "tx_coincide", "tx_coincide", "tx_near", "tx_near", "traffic", "traffic"]


def run_case(rng, tier, res0):
    res = ResProxy(res0)
    res._col.KNOWN = KNOWN
    try:
        _run_case(rng, tier, res)
    finally:
        res._col.flush()


def _run_case(rng, tier, res):
    from luna.gateware.interface.ulpi import UTMITranslator
    with_rst = rng.random() < 0.2
    ulpi = make_ulpi(with_rst)
    dut = UTMITranslator(ulpi=ulpi, handle_clocking=False)
    extra = {}            # address -> constant value, or a Signal driven by the bench
    extra_reset = {}      # address -> content of the PHY register after reset (None = unknown to the link)
    extra_sig = None
    if rng.random() < 0.4:
        # extra registers through the public add_extra_register() API (0x16 = ULPI scratch, 0x31 = vendor): further entries of the
        # control translator's register chain
        from amaranth import Signal
        variant = rng.choice(["int_default", "int_no_default", "signal", "two"])
        res.bin("extra_register")
        res.bin("extra_" + variant)
        if variant in ("int_default", "two"):
            v = rng.randrange(256)
            d = v if rng.random() < 0.2 else v ^ rng.randint(1, 255)      # default == value: no write may be needed, none is required
            extra[0x16], extra_reset[0x16] = v, d
            dut.add_extra_register(0x16, v, default_value=d)
        if variant == "int_no_default":
            extra[0x16], extra_reset[0x16] = rng.randrange(256), None     # the link has to write it once in any case
            dut.add_extra_register(0x16, extra[0x16])
        if variant in ("signal", "two"):
            a = 0x31 if variant == "two" else 0x16
            d = rng.randrange(256)
            extra_sig = Signal(8, name="extra_value")
            extra[a], extra_reset[a] = extra_sig, d
            dut.add_extra_register(a, extra_sig, default_value=d)
    startup = 0
    if with_rst:
        startup = rng.randint(10, 60)
        dut._CYCLES_1_MILLISECONDS = startup
        res.bin("with_rst_pin")
    b = Bench(dut, domain="usb", freq=60e6, max_cycles=30000)
    lat = rng.choice([(0, 0), (0, 0), (0, 2), (1, 4), (3, 8)])
    reg_nxt = rng.choice(["always", "always", ("random", 0.7), ("random", 0.35)])
    tx_nxt = rng.choice(["always", ("random", 0.5), ("every", 3)])
    phy = ULPIPhy(b, ulpi, rng, cmd_latency=lat, tx_nxt=tx_nxt, reg_nxt=reg_nxt, garbage=rng.random() < 0.7)
    if reg_nxt != "always":
        res.bin("reg_data_nxt_throttled")
    for a, d in extra_reset.items():
        if d is not None:
            phy.regs[a] = d
    ctl_sigs = {name: getattr(dut, name) for name, _ in CTL_FIELDS}
    widths = dict(CTL_FIELDS)
    if extra_sig is not None:
        ctl_sigs["extra_value"] = extra_sig
        widths["extra_value"] = 8
    b.watch(dut.tx_valid, dut.tx_data, dut.tx_ready, *ctl_sigs.values())
    res.desc = {"with_rst": with_rst, "startup": startup, "cmd_latency": lat, "reg_nxt": reg_nxt, "tx_nxt": tx_nxt, "episodes": []}
    res.sig(with_rst, startup, lat, reg_nxt, tx_nxt)

    ctl0_extra = rng.randrange(256)
    ctl = dict(CTL_QUIET)               # = the PHY's reset values: nothing has to be written after start-up
    r0 = rng.random()
    if r0 < 0.3:
        ctl = {name: rng.randrange(1 << w) for name, w in CTL_FIELDS}
        res.bin("initial_random")
    elif r0 < 0.5:
        # one register differs from its reset value in one or two bits only (a link that assumes a wrong reset value, or
        # forgets the initial write, stays different for ever)
        which = rng.choice(["otg_zero", "fc_40", "one_field"])
        if which == "otg_zero":
            ctl["dp_pulldown"] = ctl["dm_pulldown"] = 0
        elif which == "fc_40":
            ctl["xcvr_select"] = 0
        else:
            name, w = CTL_FIELDS[rng.randrange(len(CTL_FIELDS))]
            ctl[name] ^= 1
        res.bin("initial_near_reset")
    if extra_sig is not None:
        ctl["extra_value"] = ctl0_extra

    # ------------------------------------------------------------------ per-cycle history (index = cycle)
    addrs = [0x04, 0x0A] + sorted(extra)
    req = {a: [None] for a in addrs}         # requested composites, from the *sampled* control inputs
    regs_hist = {a: [None] for a in addrs}   # PHY register content after each cycle
    change_cycles = []                       # cycles in which a sampled control input differs from the previous cycle
    utmi_accepts = []
    st = {"dead": False, "tx_wait": 0, "wr_wait": 0, "tx_pending_since": None, "tx_first_accept": False,
          "idle_bus": 0, "n_commits": 0, "prev_ctl": None, "last_tx_rise": None, "checkpoints": []}

    raw = []                                 # (generic mechanism, cycle, detail): classified after the run
    tx_rises = []                            # cycles in which tx_valid was first sampled high

    def V(mech, k, detail):
        raw.append((mech, k, detail))

    def regs_text():
        return ", ".join("%#04x PHY %s / requested %s" % (a, fmt(phy.regs.get(a)), fmt(req[a][-1])) for a in addrs)

    def pending_now():
        return any(phy.regs.get(a) != req[a][-1] for a in addrs)

    def monitor(b):
        k = b.cycle
        cur = {name: b.get(sig) for name, sig in ctl_sigs.items()}
        req[0x04].append(function_control(cur))
        req[0x0A].append(otg_control(cur))
        for a in extra:
            req[a].append(cur["extra_value"] if extra[a] is extra_sig else extra[a])
        for a in addrs:
            regs_hist[a].append(phy.regs.get(a))
        if st["prev_ctl"] is not None and cur != st["prev_ctl"]:
            change_cycles.append(k)
            res.event("control_changes")
        st["prev_ctl"] = cur
        valid, ready = b.get(dut.tx_valid), b.get(dut.tx_ready)
        dir_s = b.get(ulpi.dir.i)
        link_byte = b.get(ulpi.data.o) if b.get(ulpi.data.oe) else 0
        st["idle_bus"] = st["idle_bus"] + 1 if (link_byte == 0 and not dir_s) else 0
        if valid and ready:
            utmi_accepts.append(k)
        if st["dead"] or k <= startup + 3:
            return
        res.event("progress_cycles_watched")
        # ---- progress of a pending transmission
        if valid:
            if st["tx_pending_since"] is None:
                st["tx_pending_since"] = k
                st["tx_first_accept"] = False
                tx_rises.append(k)
            if ready:
                st["tx_wait"] = 0
                st["tx_first_accept"] = True
            elif not dir_s and phy.mode != PHY_RX:
                st["tx_wait"] += 1
            if pending_now() and not st["tx_first_accept"]:
                res.bin("tx_waits_for_regwrite")
        else:
            st["tx_pending_since"] = None
            st["tx_wait"] = 0
        # ---- progress of a pending register difference
        if len(phy.reg_writes) != st["n_commits"]:
            st["n_commits"] = len(phy.reg_writes)
            st["wr_wait"] = 0
        if pending_now():
            if not dir_s and not valid and phy.mode not in (PHY_RX, PHY_TX):
                st["wr_wait"] += 1
        else:
            st["wr_wait"] = 0
        if st["tx_wait"] > PROGRESS_BOUND or st["wr_wait"] > PROGRESS_BOUND:
            tx_blocked = st["tx_wait"] > PROGRESS_BOUND
            detail = ("cycle %d: %s; tx_valid since %s (first byte accepted: %s), register difference pending: %s "
                      "(%s), link has driven nothing for %d cycles, control changes at %s, PHY mode %d"
                      % (k, "transmission made no progress for %d bus-free cycles" % st["tx_wait"] if tx_blocked
                         else "register difference not written for %d bus-free cycles" % st["wr_wait"],
                         st["tx_pending_since"], st["tx_first_accept"], pending_now(), regs_text(), st["idle_bus"], change_cycles[-4:], phy.mode))
            if tx_blocked:
                V("tx_blocked", k, detail)
            else:
                V("regwrite_blocked", k, detail)
            st["dead"] = True

    # ------------------------------------------------------------------ stimulus helpers
    def change(fields=None, n=1, allow_op=True, only_reg=None):
        names = [nm for nm, _ in CTL_FIELDS if (allow_op or nm != "op_mode")]
        if extra_sig is not None and only_reg is None:
            names += ["extra_value", "extra_value"]
        if only_reg == 0x04:
            names = [nm for nm in names if nm in ("xcvr_select", "term_select", "op_mode", "suspend")]
        elif only_reg == 0x0A:
            names = [nm for nm in names if nm not in ("xcvr_select", "term_select", "op_mode", "suspend")]
        picked = fields or list(dict.fromkeys(rng.sample(names, min(n, len(names)))))
        old = {}
        for name in picked:
            w = widths[name]
            old[name] = ctl[name]
            if name == "op_mode":
                ctl[name] = rng.choice([v for v in (0, 1, 2, 3) if v != ctl[name]])
                if ctl[name] == 3:
                    res.bin("op_mode_3_requested")
            elif w > 1:
                ctl[name] = (ctl[name] + rng.randint(1, (1 << w) - 1)) & ((1 << w) - 1)
            else:
                ctl[name] ^= 1
            b.set(ctl_sigs[name], ctl[name])
        res.sig("chg", b.cycle, tuple(sorted((nm, ctl[nm]) for nm in picked)))
        return old

    def restore(old):
        for name, v in old.items():
            ctl[name] = v
            b.set(ctl_sigs[name], v)
        res.sig("rev", b.cycle, tuple(sorted(old.items())))

    def rx_activity(long=False):
        r = rng.random()
        if r < 0.4 and not long:
            return act_rxcmds(rng, [rxcmd(rng.randrange(4), 3, 0) for _ in range(rng.randint(1, 3))], garbage=phy.garbage)
        n = rng.choice([1, 3, 8, 20]) if not long else rng.randint(15, 40)
        return act_receive(rng, [rng.randrange(256) for _ in range(n)], start=rng.choice(["dirnxt", "rxcmd"]), status=0x0D,
                           gap_profile=rng.choice(["none", ("random", 0.3)]), end=rng.choice(["dir", "rxcmd"]), garbage=phy.garbage)

    tx_state = {"busy": False, "completed": 0, "sent_bytes": 0}

    def send(data):
        """UTMI transmitter (non-main driver)."""
        tx_state["busy"] = True
        st["last_tx_rise"] = b.cycle + 1
        b.set(dut.tx_valid, 1)
        b.set(dut.tx_data, data[0])
        i = 0
        while not st["dead"]:
            yield
            if b.get(dut.tx_ready):
                i += 1
                if i == len(data):
                    break
                b.set(dut.tx_data, data[i])
        b.set(dut.tx_valid, 0)
        tx_state["sent_bytes"] += i
        if i == len(data):
            tx_state["completed"] += 1
            res.event("tx_packets_completed")
        tx_state["busy"] = False

    def packet():
        n = rng.choice([1, 1, 2, 3, 8, rng.randint(1, 24)])
        pid = rng.choice([0x1, 0x9, 0x3, 0xB, 0x2, 0xA, 0xE, 0x5, 0xD])
        return [pid | ((pid ^ 0xF) << 4)] + [rng.randrange(256) for _ in range(n - 1)]

    def idle(n):
        for _ in range(n):
            if st["dead"]:
                return
            yield

    def settle(ep):
        """Quiet phase: nothing changes any more.  Bounded wait until the PHY registers equal the requests and the link has
        issued no command for 12 cycles (redundant writes of a correct value are allowed, endless rewriting is not)."""
        free = 0
        calm = 0
        s0 = len(phy.cmd_seen)
        while True:
            if st["dead"]:
                return False
            quiet = not tx_state["busy"] and not phy.rx_pending and not b.get(ulpi.dir.i)
            if quiet and not pending_now() and not phy.link_active and len(phy.cmd_seen) == s0:
                calm += 1
                if calm >= 12:
                    break
            else:
                calm = 0
                s0 = len(phy.cmd_seen)
            yield
            if not b.get(ulpi.dir.i):
                free += 1
            if free > CONVERGE_BOUND:
                res.event("convergence_checks")
                classify_not_converged(ep, "after %d bus-free cycles without any change" % free)
                st["dead"] = True
                return False
        res.event("convergence_checks")
        res.bin("converged_episode")
        st["checkpoints"].append(b.cycle)
        return True

    def changes_since_checkpoint(k):
        lo = max([c for c in st["checkpoints"] if c <= k] or [0])
        return [c for c in change_cycles if lo < c <= k], lo

    def classify_not_converged(ep, why):
        k = b.cycle
        chg, lo = changes_since_checkpoint(k)
        detail = ("episode %d (%s) %s: %s; link commands since the last converged checkpoint (cycle %d): %s, "
                  "control changes %s, commits %s"
                  % (ep["index"], ep["pattern"], why, regs_text(),
                     lo, [(c, hex(v)) for c, v in phy.cmd_seen if c > lo][-6:], chg[:6], [(w[0], hex(w[1]), hex(w[2])) for w in phy.reg_writes if w[0] > lo][-6:]))
        V("registers_not_converged", k, detail)

    # ------------------------------------------------------------------ the session
    def driver():
        for name, sig in ctl_sigs.items():
            b.set(sig, ctl[name])
        if ctl["op_mode"] in (1, 3):
            res.bin("op_mode_01_or_11_initially")
        if rng.random() < 0.3:
            # PHY start-up: DIR is held high for a while (RxCmds only) around the end of the link's own start-up delay, so the very
            # first register writes are delayed / aborted
            phy.schedule(act_rxcmds(rng, [rxcmd(rng.randrange(4), 3, 0) for _ in range(rng.randint(3, 30))], garbage=phy.garbage),
                         at=rng.randint(0, startup + 8))
            res.bin("phy_dir_high_at_startup")
        yield
        yield from idle(rng.randint(2, 10))
        ep0 = {"index": -1, "pattern": "initial"}
        ok = yield from settle(ep0)
        if not ok:
            return
        n_ep = rng.randint(8, 14)
        # hostile patterns (which can end the case on the unchanged tree) are more likely late in the case
        for e in range(n_ep):
            pattern = rng.choice(PATTERNS if e >= 3 else ["single", "multi", "under_dir", "abort_stage", "tx_near", "single"])
            ep = {"index": e, "pattern": pattern, "start": b.cycle}
            res.bin("ep_" + pattern)
            if len(res.desc["episodes"]) < 14:
                res.desc["episodes"].append((pattern, b.cycle))
            res.sig(e, pattern)
            if pattern == "single":
                change(n=1)
            elif pattern == "multi":
                change(n=rng.randint(2, 5))
            elif pattern == "double":
                first = change(n=1)
                yield from idle(rng.randint(1, 12 + 2 * lat[1]))
                if rng.random() < 0.5:
                    change(n=1)
                else:
                    # the second change hits the other register
                    reg_of_first = 0x04 if list(first)[0] in ("xcvr_select", "term_select", "op_mode", "suspend") else 0x0A
                    change(n=1, only_reg=0x0A if reg_of_first == 0x04 else 0x04)
            elif pattern == "revert":
                old = change(n=rng.choice([1, 1, 2]))
                yield from idle(rng.randint(1, 10 + lat[1]))
                restore(old)
            elif pattern == "under_dir":
                phy.schedule(rx_activity(long=True), at=b.cycle + rng.randint(0, 6))
                yield from idle(rng.randint(0, 8))
                change(n=rng.randint(1, 2))
                if rng.random() < 0.5:
                    yield from idle(rng.randint(2, 30))
                    phy.schedule(rx_activity(), at=b.cycle + rng.randint(0, 8))
                if rng.random() < 0.4:
                    yield from idle(rng.randint(20, 60))
                    phy.schedule(rx_activity(), at=b.cycle)
                    change(n=1)
            elif pattern == "abort_stage":
                # the PHY raises DIR exactly when the write reaches a given stage (command seen / command accepted / data accepted = STP cycle)
                stage = rng.choice([1, 3, 4, 4])     # CMDWAIT, WR_DATA, WR_STP of the PHY model
                phy.schedule(rx_activity(), at=("stage", stage, 2))
                change(n=rng.choice([1, 1, 3]))
                yield from idle(rng.randint(30, 60) + 2 * lat[1])
                if phy.queue and isinstance(phy.queue[0][0], tuple):
                    phy.queue.pop(0)                 # the stage was never reached (e.g. the change needed no write)
            elif pattern == "tx_near":
                # a transmission and a single control change that do NOT meet while the TXCMD is pending: the change comes first
                # (the transmission has to wait for the write) or after the TXCMD has been accepted (the write has to wait)
                if rng.random() < 0.5:
                    change(n=rng.choice([1, 2]), allow_op=False)
                    yield from idle(rng.randint(1, 6))
                    b.add_driver(send(packet()), main=False)
                else:
                    pk = packet() + [rng.randrange(256) for _ in range(rng.randint(4, 20))]
                    n_acc = len(utmi_accepts)
                    b.add_driver(send(pk), main=False)
                    waited = 0
                    while len(utmi_accepts) == n_acc and waited < 200 and not st["dead"]:
                        yield
                        waited += 1
                    yield from idle(rng.randint(0, 3))
                    if tx_state["busy"]:
                        change(n=rng.choice([1, 2]), allow_op=False)
                        res.bin("change_inside_tx_body")
            elif pattern == "tx_coincide":
                off = rng.choice([0, 0, 0, 1, 1, 2, -1, -2, rng.randint(-6, 8 + lat[1]), rng.randint(-6, 8 + lat[1])])
                pre = max(0, -off)
                if off < 0:
                    change(n=rng.choice([1, 2]), allow_op=False)
                    yield from idle(pre)
                b.add_driver(send(packet()), main=False)
                if off >= 0:
                    yield from idle(off)
                    change(n=rng.choice([1, 2]), allow_op=False)
                    if off == 0:
                        res.bin("change_same_cycle_as_tx_start")
                if rng.random() < 0.3:
                    phy.schedule(rx_activity(), at=b.cycle + rng.randint(0, 10))
            else:  # traffic
                for _ in range(rng.randint(2, 5)):
                    r = rng.random()
                    if r < 0.4 and not tx_state["busy"]:
                        b.add_driver(send(packet()), main=False)
                    elif r < 0.7:
                        phy.schedule(rx_activity(), at=b.cycle + rng.randint(0, 10))
                    else:
                        change(n=1, allow_op=False)
                    yield from idle(rng.randint(1, 25))
            yield
            ok = yield from settle(ep)
            if not ok:
                return
            yield from idle(rng.randint(0, 6))

    b.add_monitor(monitor)
    b.add_driver(driver())
    b.run()
    res.cycles = b.cycle
    if b.hit_max_cycles:
        res.violation("harness_max_cycles", "session did not finish in %d cycles" % b.max_cycles)
        return
    judge_writes(res, V, phy, req, regs_hist, change_cycles, st)
    judge_bus(res, V, phy, utmi_accepts, st, req, regs_hist, change_cycles)
    classify(res, raw, phy, req, regs_hist, change_cycles, st, tx_rises, startup, b.cycle)
    res.nontrivial = bool((res.bins.get("write_aborted_by_dir") or res.bins.get("change_while_write_in_flight")) and res.bins.get("converged_episode", 0) >= 3)


def fmt(v):
    return "None" if v is None else "%#04x" % v


def judge_writes(res, V, phy, req, regs_hist, change_cycles, st):
    """Every committed write must address 0x04 / 0x0A with a value that register's inputs had while the write was wanted."""
    n = len(req[0x04])
    prev_commit = {}
    # efforts: first time the command byte for an address was seen since the previous commit of that address
    seen_by_addr = {}
    for (k, byte) in phy.cmd_seen:
        if (byte >> 6) == 2:
            seen_by_addr.setdefault(byte & 0x3F, []).append(k)
    for (k, what, info) in phy.aborts:
        if what in ("wr_data", "wr_stp") or (what == "cmdwait" and info and (info[1] >> 6) == 2):
            res.bin("write_aborted_by_dir")
        if what == "wr_stp":
            res.bin("write_aborted_in_stp_cycle")
        elif what == "wr_data":
            res.bin("write_aborted_before_data")
        elif what == "cmdwait" and info and (info[1] >> 6) == 2:
            res.bin("write_aborted_at_command")
    for (kc, addr, value, info) in phy.reg_writes:
        res.event("writes_committed")
        first_seen = min([s for s in seen_by_addr.get(addr, []) if s > prev_commit.get(addr, 0)] or [info["seen"]])
        chg_in_flight = [c for c in change_cycles if first_seen - 2 <= c <= kc]
        if chg_in_flight:
            res.bin("change_while_write_in_flight")
        lo_cp = max([c for c in st["checkpoints"] if c <= first_seen] or [0])
        chg_ep = [c for c in change_cycles if lo_cp < c <= kc]
        if addr not in req:
            V("regwrite_to_register_0" if (addr == 0 and value == 0) else "regwrite_to_unrequested_register", kc,
              "write of %#04x to register %#04x committed at cycle %d (command first seen %d); control changes since the last converged checkpoint (%d): %s"
              % (value, addr, kc, first_seen, lo_cp, chg_ep[:6]))
            continue
        res.event("writes_value_checked")
        # A correct link may latch the value when the write is requested and present the command arbitrarily later (DIR held by
        # the PHY, aborted attempts): every value requested for this register since its previous commit is acceptable.
        lo = max(1, prev_commit.get(addr, 1) - 2)
        allowed = set(req[addr][lo:min(kc, n - 1) + 1])
        other = 0x0A if addr == 0x04 else 0x04
        if any(regs_hist[o][min(kc, n - 1) - 1] != req[o][min(kc, n - 1) - 1] for o in req if o != addr):
            res.bin("both_registers_pending")
        if addr == 0x0A and any(req[0x04][c] != req[0x04][c - 1] for c in chg_in_flight if 1 < c < n):
            res.bin("change_of_0x04_while_0x0a_in_flight")
        if info.get("data_cycle") and any(c < info["data_cycle"] for c in chg_in_flight) and req[addr][min(kc, n - 1)] == regs_hist[addr][max(1, min(first_seen, n - 1) - 1)]:
            res.bin("revert_before_data_byte")
        if value not in allowed:
            # The open defect puts the *live* selection on the bus: the value some register's inputs request in the cycles in
            # which the data byte is taken (or 0x00 when nobody requests).  Anything else cannot come from it.
            acc = min(info.get("accept") or kc, n - 1)
            live = {0}
            for a2 in req:
                live.update(req[a2][max(1, acc - 3):min(info.get("data_cycle") or kc, n - 1) + 1])
            V("regwrite_value_never_requested" if value in live else "regwrite_value_unexplained", kc,
                          "register %#04x written with %#04x at cycle %d (command first seen %d, data byte taken at %s); values requested for it since cycle %d: %s; "
                          "other register requested %s; control changes since the last converged checkpoint (%d): %s"
                          % (addr, value, kc, first_seen, info.get("data_cycle"), lo, sorted(hex(v) for v in allowed if v is not None),
                             fmt(req[other][min(kc, n - 1)]), lo_cp, chg_ep[:6]))
        prev_commit[addr] = kc
    # endless rewriting: the same value committed to the same register again and again although no input changes in between
    runs = {}
    for (kc, addr, value, info) in phy.reg_writes:
        r = runs.get(addr)
        if r and r[0] == value and not any(r[1] < c <= kc for c in change_cycles):
            r[2] += 1
            if r[2] == 4:
                V("register_rewritten_endlessly", kc, "register %#04x written with %#04x four times in a row (cycles %d..%d) although no control input changed in between; requested %s"
                  % (addr, value, r[1], kc, fmt(req[addr][min(kc, n - 1)]) if addr in req else "-"))
        else:
            runs[addr] = [value, kc, 1]


def judge_bus(res, V, phy, utmi_accepts, st, req, regs_hist, change_cycles):
    n = len(req[0x04])
    # bins about the relation of control changes and transmission starts
    for p in phy.tx_packets:
        for c in change_cycles:
            if p["seen"] - 1 <= c <= p["accept"]:
                res.bin("change_between_tx_start_and_txcmd_accept")
    # protocol irregularities of the link
    for (k, name, info) in phy.anomalies:
        V("bus_" + name, k, "cycle %d: %s %s" % (k, name, info))
    if st["dead"]:
        return
    # conservation of transmit bytes
    consumed = 0
    for p in phy.tx_packets:
        consumed += len(p["bytes"]) + (1 if (p["cmd"] & 0x0F) else 0)
    if phy.pkt is not None:
        V("transmit_without_stp", n - 1, "PHY still inside a transmit packet at the end of the session (cmd %#04x)" % phy.pkt["cmd"])
    elif consumed != len(utmi_accepts):
        V("tx_bytes_lost_or_invented", n - 1, "UTMI side had %d bytes accepted, PHY consumed %d in %d transmit packets" % (len(utmi_accepts), consumed, len(phy.tx_packets)))


def classify(res, raw, phy, req, regs_hist, change_cycles, st, tx_rises, startup, last_cycle):
    """Give every raw violation its final mechanism name.

    M_TXCMD: only if, in the same episode, something made a register write startable (control change, end of the previous
             register write, end of the previous transmit packet, end of the start-up delay) in a cycle in which a transmission
             was pending whose TXCMD the PHY had not accepted yet, and a register difference was pending at that moment.
    M_LIVE:  only for wrong value / register 0 / not converged, and only if >= 2 control-change cycles fell into the episode.
    """
    n = len(req[0x04])
    cps = st["checkpoints"]

    def pending_at(c):
        c = max(1, min(c, n - 1))
        return any(regs_hist[a][c] != req[a][c] for a in req)

    accepts = sorted([p["accept"] for p in phy.tx_packets] + ([phy.pkt["accept"]] if phy.pkt else []))
    # cycles (bench convention: index of the clock edge that ends the cycle) in which a register write can become startable:
    # a control input changes; two cycles after a commit (`done` has passed) with another difference queued; the cycle after a
    # transmit packet's STP; the end of the start-up delay
    events = set(change_cycles)
    for w in phy.reg_writes:
        events.update((w[0] + 1, w[0] + 2))
    for p in phy.tx_packets:
        if p["stp_cycle"]:
            events.update((p["stp_cycle"] + 1, p["stp_cycle"] + 2))
    if startup:
        events.update(range(startup, startup + 5))
    triggers = []
    for t0 in tx_rises:
        # the TXCMD is pending from the cycle tx_valid rises (t0) up to and including the cycle the PHY accepts it (a)
        a = min([x for x in accepts if x >= t0] or [last_cycle])
        for e in sorted(events):
            if t0 <= e <= a and pending_at(e):
                triggers.append(e)
                break
    for (mech, k, detail) in raw:
        lo = max([c for c in cps if c <= k] or [0])
        hi = min([c for c in cps if c > k] or [last_cycle + 1])
        final = mech
        # both open defects leave the link *silent* (it believes it is done, or it is dead-locked): a link that keeps issuing
        # commands while the registers differ / the transmission starves is not explained by them
        silent = not any(k - 80 <= c <= k for c, _ in phy.cmd_seen)
        if mech.startswith("harness") or mech in NEVER_KNOWN:
            pass
        elif mech in ("registers_not_converged", "regwrite_blocked", "tx_blocked") and not silent:
            detail += " [link still issuing commands: %s]" % [(c, hex(v)) for c, v in phy.cmd_seen if k - 80 <= c <= k][-4:]
        elif any(lo < t <= hi for t in triggers):
            final = M_TXCMD
            detail += " [a register write became startable at cycle(s) %s while a TXCMD was pending]" % [t for t in triggers if lo < t <= hi][:3]
        elif mech in LIVE_KINDS and len([c for c in change_cycles if lo < c <= k]) >= 2:
            final = M_LIVE
        res.violation(final, detail)
    for e in set(triggers):
        res.bin("regwrite_startable_while_txcmd_pending")
