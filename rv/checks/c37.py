"""C37 -- received header packets are accepted, acknowledged and buffered exactly.

DUT      the real luna.gateware.usb.usb3.link.receiver.HeaderPacketReceiver (with its RawHeaderPacketReceiver and
         LinkCommandGenerator inside), `enable` held high for the whole session ("while the link stays in U0").  The DUT
         sits in a ResetInserter only so that one elaboration (2 s) serves 5 sessions; each starts from power-on state.
Workload one session = a link-partner model (rv/ref/c37_link.py, `Engine`) that respects credits and
         the retry protocol of USB 3.2 ch. 7.2.4.1: it sends headers only when it holds an LCRD credit and has < 4
         unacknowledged headers, damages some on the wire (single bit in DW0-2 / CRC-16 / link control word / CRC-5 /
         sequence number, two bits, word of ones / zeros, swapped words, foreign link control word), keeps sending
         into the "ignore" window, answers every LBAD with LRTY (`retry_received` strobe) and re-sends all
         unacknowledged headers (which may be damaged again), sends well-formed headers with a wrong sequence number
         (previous, next+1, +4, random), sometimes behaves faultily (re-sends without LRTY first: must stay ignored;
         spurious LRTY when nothing is outstanding: harmless), and puts other traffic on the tapped stream: idle, bubbles (valid = 0 with
         garbage, also inside headers), foreign link commands, data-packet payloads, and *decoys* (HPSTART with a wrong
         ctrl nibble / valid = 0 / one bit off, followed by a header that would be acceptable).  The protocol layer
         (queue.ready) and the PHY (source.ready) follow always / random / bursty / lazy profiles; directed patterns
         put the consumption of a header, the completion of an LGOOD and the acceptance of the next header into the
         same few cycles, fill all four buffers, and stall the command word of an LGOOD / LCRD / LBAD.
         retry_required / keepalive_required / reject_power_state are pulsed as interference (LRTY / LUP / LXU must
         not disturb the header bookkeeping).
Monitors every cycle: what was really sampled on `sink` is deframed by a reference deframer; `source` is decoded
         into link commands (framing word, CRC-5, replica, payload stable under back-pressure); `queue` is compared.
Oracle   rv.ref.c37_link.RxModel, written from the statement:
           accepted  <=> CRC-5 ok and CRC-16 ok and sequence == expected and not ignoring (expected starts at 0)
           every accepted header is offered on `queue` (valid) exactly once, in order, bit-exact (all fields), and
             is held until consumed; nothing else is ever offered
           LGOODs carry exactly the sequence numbers of the accepted headers, in order (after the advertisement
             LGOOD 7 that follows `enable`); never an LGOOD without an accepted header
           corrupted (not ignored) header => exactly one LBAD, sent only after the LGOODs of all earlier accepted
             headers; afterwards nothing is accepted / answered until `retry_received`
           k-th LCRD since enable has index k mod 4; an LCRD beyond the first four may only *start* when a header
             has been consumed before (=> buffered + advertised <= 4 at all times)
           bounded progress: the advertisement is complete within 120 cycles in which source.ready was high; at the
             end of the session (traffic stopped, ready lines released) every obligation is met within 300 such
             cycles: all LGOOD / LBAD sent, every accepted header offered, #LCRD = 4 + #consumed.
Configuration: buffer_count is drawn per case from {4 (half of the cases), 1, 2, 8}; credits are judged against the configured
         count (k-th LCRD has index k mod count, #LCRD <= count + #consumed, the advertisement has `count` LCRDs).  35 % of the
         sessions allow back-to-back headers (HPSTART right after the last word of the previous header; fixed in b37ac63 and
         judged like everything else).  In 40 % of the retries the LRTY follows the previous header without an idle word and
         the re-sent headers follow the LRTY directly (`retry_received` then falls 1-3 cycles after the command word, i.e.
         around the moment the previous, ignored header is reported by the raw receiver).
         Buffer counts that are not a power of two are not generated: the class sizes its pointers with range(count) and
         lets them wrap naturally (3 -> LCRD "D", buffer index 3), i.e. it only supports powers of two; USB 3.2 fixes 4.
Not judged: recovery_required / bad_packet_received / packet_received strobes, LRTY / LUP / LXU contents and order,
         truncated headers (HPSTART inside a header is never generated), latency of anything (only order and the
         final bound), behaviour when the partner overruns its credits (never generated).
"""
from rv.sim import Bench

PROPERTY = "C37"
CASES = {"quick": 128, "thorough": 2400}
# generous watchdogs: the box is shared; unloaded the quick tier needs < 60 s on 16 workers
TIMEOUT = {"quick": 3600, "thorough": 8 * 3600}
RULE = ("case = 5 link sessions (power-on reset between them) of 900-2200 cycles: profile (calm / lossy / bursty / backlog / hostile) x consumer ready "
        "profile x PHY ready profile x filler profile, 30-150 partner actions (new header good or damaged by one of 10 "
        "operators, wrong-sequence decoy, framing decoy, foreign traffic, retry after LBAD with re-sent headers, directed "
        "same-cycle patterns); non-trivial = >= 1 accepted, >= 1 corrupted and >= 1 ignored header and >= 1 retry; "
        "distinct = hash of every driven input of every cycle")
REQUIRED_BINS = ["hdr_accepted", "hdr_bad_crc16", "hdr_bad_crc5", "hdr_bad_both", "hdr_wrong_seq", "hdr_ignored_good",
                 "hdr_ignored_bad", "hdr_ignored_wrong_seq", "resend_without_lrty", "retry_clears_ignore", "seq_wrap", "buffers_full", "ack_backlog_ge2",
                 "lcrd_wrap", "decoy_framing", "decoy_repeat_previous", "bubble_in_header", "source_backpressure",
                 "command_word_stalled", "lgood_done_in_accept_window", "pop_in_accept_window", "lcrd_done_at_pop",
                 "retry_resends_1", "retry_resends_3", "second_corruption_in_retry", "corrupt_bit_dw012", "corrupt_bit_crc16",
                 "corrupt_bit_crc5", "corrupt_bit_seq", "corrupt_bit_lcw", "interference_lrty", "queue_ready_without_valid",
                 "header_back_to_back", "lrty_right_after_header", "buffer_count_1", "buffer_count_2", "buffer_count_4", "buffer_count_8"]
REQUIRED_EVENTS = ["cycles_monitored", "headers_on_sink", "headers_judged", "link_commands_decoded", "lgood_checked",
                   "advert_lgood_checked", "advert_complete", "lcrd_for_freed_buffer_checked", "lbad_checked",
                   "headers_consumed", "queue_valid_cycles_compared", "retry_received_strobes", "partner_retries",
                   "sessions_quiesced"]
ASSUMPTIONS = ["the link partner respects credits and the retry protocol (LRTY only in answer to LBAD, then all unacknowledged headers)",
               "retry_received is pulsed >= 3 cycles after the end of the previous header and before the first re-sent header starts",
               "header framing is intact (HPSTART + four data words); only the 16 bytes behind HPSTART are damaged",
               "latencies are not constrained; bounded progress is judged for the advertisement (120 PHY-ready cycles) and once at the end of the session (300 PHY-ready cycles)",
               "retry_received never falls in the cycle in which a not-ignored corrupted header is reported (a partner cannot answer an LBAD that was not sent yet)",
               "truncated headers / framing errors inside a header are not generated (the statement decides nothing for them)"]

PROFILES = {
    #            p_corrupt p_decoy p_noise p_interf gap   burst
    "calm":     (0.05,     0.03,   0.15,   0.03,   (0, 12), 1),
    "lossy":    (0.35,     0.05,   0.10,   0.03,   (0, 6),  2),
    "bursty":   (0.12,     0.04,   0.05,   0.02,   (0, 2),  4),
    "backlog":  (0.10,     0.04,   0.05,   0.02,   (0, 3),  4),
    "hostile":  (0.25,     0.15,   0.30,   0.10,   (0, 4),  3),
}
READY = [("always",), ("random", 0.5), ("random", 0.2), ("bursty", 6, 6), ("bursty", 25, 3), ("random", 0.85)]


class Holder:
    eng = None


def build(max_cycles, nbuf=4):
    """The real receiver inside a ResetInserter (so that one elaboration -- 2 s -- serves several sessions)."""
    from amaranth import Elaboratable, Module, Signal, ResetInserter
    from luna.gateware.usb.usb3.link.receiver import HeaderPacketReceiver

    class Wrap(Elaboratable):
        def __init__(self):
            self.dut = HeaderPacketReceiver(buffer_count=nbuf)
            self.hard_reset = Signal()

        def elaborate(self, platform):
            m = Module()
            m.submodules.dut = ResetInserter({"ss": self.hard_reset})(self.dut)
            return m

    wrap = Wrap()
    b = Bench(wrap, domain="ss", freq=125e6, max_cycles=max_cycles)
    b.watch(wrap.hard_reset)
    import random
    from rv.ref.c37_link import Engine
    Engine(wrap.dut, b, random.Random(0), None, PROPERTY)      # registers every watched signal before the bench starts
    return wrap, b


def new_session(wrap, b, rng, res, holder, nbuf=4):
    """power-on reset of the DUT, fresh engine (model, partner, monitors)"""
    from rv.ref.c37_link import Engine
    eng = Engine(wrap.dut, b, rng, res, PROPERTY, nbuf=nbuf)
    holder.eng = eng
    b.set(wrap.hard_reset, 1)
    yield
    yield
    b.set(wrap.hard_reset, 0)
    yield
    eng.armed = True
    return eng


def directed_same_cycle(eng, rng, res, bubbles):
    """LGOOD of header A completes while header B is accepted; optionally the consumer takes A in the same window."""
    if not eng.can_send_new() or eng.p_credits < 2 or len(eng.p_unacked) > 2 or eng.p_lbads or eng.model.ignoring:
        return
    yield from eng.wait_sink_idle()
    keep_src, keep_q = eng.src_profile, eng.q_profile
    eng.src_hold_until = eng.b.cycle + 400
    if rng.random() < 0.6:
        eng.q_profile = ("never",)
    eng.send_new_header()
    yield from eng.wait_sink_idle(extra=rng.randint(3, 8))        # LGOOD of A is now stalled on source
    eng.send_new_header()
    end_before = eng.last_hdr_end
    n = 0
    while eng.last_hdr_end == end_before and n < 40 and not eng.dead:
        yield from eng.tick()
        n += 1
    c_end = eng.last_hdr_end
    j = rng.randint(0, 3)
    eng.src_profile = ("always",)
    eng.src_hold_until = c_end + 1 + j                      # LCSTART goes at c_end+1+j, command word one later
    if eng.q_profile == ("never",):
        eng.q_pulse_at = c_end + rng.randint(1, 4)
    yield from eng.tick(6)
    eng.src_profile, eng.q_profile = keep_src, keep_q
    res.bin("directed_same_cycle")


def directed_fill(eng, rng, res, bubbles):
    """consumer stops; partner uses every credit; then the consumer drains in one burst or one by one"""
    keep_q = eng.q_profile
    eng.q_profile = ("never",)
    n = 0
    while n < 200 and not eng.dead and len(eng.model.fifo) < eng.nbuf:
        if eng.p_lbads:
            yield from eng.do_retry(0.0, bubbles)
        elif eng.can_send_new() and not eng.txq:
            eng.send_new_header(0.05, bubbles)
        yield from eng.tick()
        n += 1
    yield from eng.tick(rng.randint(0, 30))
    eng.q_profile = rng.choice([("always",), ("random", 0.3), keep_q])
    res.bin("directed_fill")


def directed_stall_word(eng, rng, res, bubbles):
    eng.src_stall_word1 = rng.randint(1, 12)
    return
    yield


def scenario(eng, rng, res, cfg):
    b = eng.b
    p_corrupt, p_decoy, p_noise, p_interf, gap, burst = PROFILES[cfg["profile"]]
    bubbles = cfg["bubbles"]
    # power-up
    if rng.random() < 0.3:
        eng.send_noise()
    yield from eng.tick(rng.randint(0, 6))
    eng.enable_level = 1
    if rng.random() < 0.5:
        yield from eng.wait_advert()
    budget = cfg["budget"]
    in_retry_corrupt = 0
    while b.cycle < budget and not eng.dead:
        if eng.p_lbads > 0:
            # the partner may keep talking for a while before it reacts (headers into the ignore window)
            if rng.random() < 0.5:
                for _ in range(rng.randint(1, 3)):
                    if eng.can_send_new():
                        eng.send_new_header(p_corrupt, bubbles)
            cp = p_corrupt if rng.random() < 0.6 else 0.0
            before = res.bins.get("hdr_bad_crc16", 0) + res.bins.get("hdr_bad_crc5", 0) + res.bins.get("hdr_bad_both", 0)
            yield from eng.do_retry(cp, bubbles)
            yield from eng.wait_sink_idle(extra=2)
            after = res.bins.get("hdr_bad_crc16", 0) + res.bins.get("hdr_bad_crc5", 0) + res.bins.get("hdr_bad_both", 0)
            if after > before:
                res.bin("second_corruption_in_retry")
            continue
        x = rng.random()
        if x < 0.06:
            yield from directed_same_cycle(eng, rng, res, bubbles)
        elif x < 0.10:
            yield from directed_fill(eng, rng, res, bubbles)
        elif x < 0.16:
            yield from directed_stall_word(eng, rng, res, bubbles)
        elif x < 0.16 + p_decoy:
            eng.send_decoy_wrong_seq(bubbles)
        elif x < 0.16 + p_decoy + p_noise:
            eng.send_noise()
        elif x < 0.16 + p_decoy + p_noise + p_interf:
            which = rng.choice(["retry_required", "keepalive_required", "reject_power_state", "retry_received",
                                "accept_power_state", "acknowledge_power_state"])
            if which == "retry_received":
                # spurious LRTY from the partner: only when it cannot be confused with a real retry
                if not eng.model.ignoring and not eng.model.lbad_due and not eng.txq and b.cycle - eng.last_hdr_end > 4:
                    eng.strobe(which)
                    yield from eng.tick(2)
                    res.bin("spurious_retry")
            else:
                eng.strobe(which, rng.randint(0, 3))
                if which == "retry_required":
                    res.bin("interference_lrty")
        else:
            k = rng.randint(1, burst)
            for _ in range(k):
                if eng.can_send_new():
                    eng.send_new_header(p_corrupt, bubbles)
                    if rng.random() < 0.3:
                        eng.txq.extend([(0, 0, 1)] * rng.randint(1, 3))
        yield from eng.tick(rng.randint(*gap))
        if cfg["profile"] == "backlog" and rng.random() < 0.05:
            eng.q_profile = rng.choice(READY + [("never",)])
        # do not let the sink queue grow without bound
        n = 0
        while len(eng.txq) > 24 and not eng.dead and n < 200:
            yield from eng.tick()
            n += 1

    # ---- end of session: everything must settle
    eng.src_profile = ("always",) if rng.random() < 0.7 else ("random", 0.5)
    eng.q_profile = ("always",) if rng.random() < 0.7 else ("random", 0.5)
    eng.src_hold_until = None
    for _ in range(12):
        if eng.dead:
            return
        yield from eng.wait_sink_idle(extra=2)
        yield from eng.quiesce(need_empty=True)
        if eng.dead:
            return
        eng._partner_rx()
        if eng.p_lbads > 0:
            yield from eng.do_retry(0.0, 0.0, react=rng.randint(0, 5))
            continue
        break
    if eng.dead:
        return
    yield from eng.quiesce()
    if not eng.dead:
        res.event("sessions_quiesced")
        eng._partner_rx()
        if eng.p_unacked:
            # the model says every obligation is met but the partner still waits: harness inconsistency, not a verdict
            raise RuntimeError("partner still has %d unacknowledged headers" % len(eng.p_unacked))


def draw_cfg(rng):
    return {
        "profile": rng.choice(sorted(PROFILES)),
        "budget": rng.randint(900, 2200),
        "bubbles": rng.choice([0.0, 0.0, 0.15, 0.4]),
        "src": rng.choice(READY),
        "q": rng.choice(READY),
        "filler_invalid_p": rng.choice([0.0, 0.0, 0.2, 0.6]),
        "filler_garbage": rng.random() < 0.7,
        "allow_b2b": rng.random() < 0.35,
    }


SESSIONS = 5


BUFFER_COUNTS = [4, 4, 4, 4, 4, 4, 4, 4, 1, 1, 2, 2, 2, 8, 8, 8]      # powers of two only, see docstring


def run_case(rng, tier, res, nbuf=None):
    nbuf = nbuf or rng.choice(BUFFER_COUNTS)
    wrap, b = build(SESSIONS * 16000, nbuf)
    holder = Holder()
    res.desc = {"buffer_count": nbuf, "sessions": []}
    res.sig("buffer_count", nbuf)
    res.bin("buffer_count_%d" % nbuf)
    ends = []

    def main():
        for i in range(SESSIONS):
            cfg = draw_cfg(rng)
            res.desc["sessions"].append(cfg)
            res.sig(sorted(cfg.items()))
            eng = yield from new_session(wrap, b, rng, res, holder, nbuf)
            eng.src_profile = cfg["src"]
            eng.q_profile = cfg["q"]
            eng.filler_invalid_p = cfg["filler_invalid_p"]
            eng.filler_garbage = cfg["filler_garbage"]
            eng.allow_b2b = cfg["allow_b2b"]
            cfg["budget"] += b.cycle
            yield from scenario(eng, rng, res, cfg)
            cfg["headers"] = [k for _, k in eng.hdr_ends[:24]]
            cfg["commands"] = len(eng.commands)
            if eng.dead and not eng.dead_tainted:
                return

    def driver():
        gen = main()
        while True:
            try:
                next(gen)
            except StopIteration:
                return
            if holder.eng is not None:
                holder.eng.drive()
            yield

    b.add_monitor(lambda bb: holder.eng.monitor(bb) if holder.eng is not None else None)
    b.add_driver(driver())
    b.run()
    res.cycles = b.cycle
    if b.hit_max_cycles and not (holder.eng and holder.eng.dead):
        raise RuntimeError("case did not finish within max_cycles")
    bins = res.bins
    res.nontrivial = bool(bins.get("hdr_accepted") and bins.get("retry_clears_ignore") and
                          (bins.get("hdr_ignored_good") or bins.get("hdr_ignored_bad")))
