"""C14 — data toggles advance only on success and are reset by a completed CLEAR_FEATURE(ENDPOINT_HALT) only.

DUT: real ``USBDevice(bus=UTMIInterface())`` (12 MHz tables; ~15 % of the cases with the 60 MHz full-speed tables)
with the standard control endpoint (real ``StandardRequestHandler``), ``USBStreamInEndpoint`` and
``USBStreamOutEndpoint`` on the same and on different numbers, and a ``USBSignalInEndpoint``
(harness: rv/ref/c12_endpoints.Session, shared with C12).

Workload: 30-45 steps per session.  IN / OUT transactions on every endpoint with the failure operators (host ACK
withheld or damaged, NAKed IN, OUT data damaged / truncated / missing, repeated and wrong toggles, PING), interleaved
with control requests that *name an endpoint in wIndex*:
  - CLEAR_FEATURE(ENDPOINT_HALT) for every populated (number, direction), for the other direction of a populated
    number, for unpopulated numbers and for the signal endpoint; completed, abandoned after the setup stage,
    abandoned after an un-ACKed status ZLP, completed at the second status attempt, or with transactions to other
    endpoints between setup and status stage (legal: a host may interleave other pipes with a control transfer);
    issued when the named endpoint is idle, has a packet pending, has an un-ACKed packet to retry, is in the middle
    of a multi-packet transfer, and when it / its sibling direction / other endpoints currently are at DATA1;
  - look-alikes that must NOT touch any toggle: CLEAR_FEATURE with another feature selector or recipient,
    SET_FEATURE(ENDPOINT_HALT), GET_STATUS(endpoint), a class request with bRequest = 1.

Audit additions: OUT endpoints are built with buffer_size in {default, mps, mps+1, 2*mps, 3*mps}; a held consumer + full
packets provoke the buffer-full NAK, after which (optionally after traffic elsewhere and a second attempt) the consumer is
released and the SAME toggle must still be accepted (a toggle that advanced on the NAK shows as ACK-and-drop).  The application
inputs `flush` and `discard` of the stream IN endpoints are driven between transactions (60 % of the sessions); because they
make packet boundaries timing dependent, IN payloads are judged by stream continuity + retry identity (flex model) and the
toggle strictly: `discard` drops the un-ACKed data but must leave the toggle where the last ACK put it, in all four situations
(idle, packet pending, retry pending after another token, still waiting for the withheld ACK).  CLEAR_FEATURE also names
endpoint 0, and unpopulated numbers with reserved wIndex bits (bits 4-6, high byte = a populated number): nothing may change.
Completed clear-halts are counted per endpoint kind (REQUIRED_EVENTS), so a handler that never completes them for one
direction makes the run inconclusive instead of silently held.

Monitors: host-side capture of the PID of every IN data packet; accept/skip behaviour of the OUT endpoints (ACK +
bytes leaving the endpoint's stream); spies on the endpoint interfaces (see C12).

Oracle: per-endpoint toggle model written from USB 2.0 8.6 / 9.4.5: the toggle advances once per IN data packet
that the host ACKs and once per OUT data packet that the device ACKs as new data, never otherwise; a
CLEAR_FEATURE(ENDPOINT_HALT) whose status-stage ZLP the host ACKs sets the toggle of exactly (wIndex[3:0],
wIndex[7]) to DATA0.  IN: observed PID and packet index must equal the model; OUT: data sent with the model's
expected toggle must be ACKed and delivered exactly once, data with the other toggle must be ACKed and dropped.

Known findings (findings/C14.md), each with a narrow classifier: `clear_halt_applied_by_unrelated_ack` (only when a standard
CLEAR_FEATURE request was left unfinished, the host then ACKed something that is not the status stage of a clear-halt, the
endpoint was named by a SETUP in that window, and the observed toggle is the reset value) and
`signal_endpoint_ignores_clear_halt` (only for the signal endpoint, only DATA1 where a completed clear-halt of it at DATA1
demands DATA0).  Everything else is reported as in_wrong_toggle / out_toggle_out_of_step / *_not_reset_by_clear_halt / ...

Not judged: the control endpoint's own responses (C07-C10); whether a valid CLEAR_FEATURE is completed by the device
(a request that never completes resets nothing); OUT buffer overflow (C13; never provoked); host-illegal wIndex
values with reserved bits set.  A status-stage ACK that the host sends but the device cannot see is not generated.
"""
from rv.ref import usb2 as U

PROPERTY = "C14"
CASES = {"quick": 240, "thorough": 3600}
RULE = ("case = one session on a device with 4-6 non-control endpoints: 30-45 steps mixing IN/OUT transactions (with "
        "withheld/damaged ACKs, damaged data, wrong toggles) and endpoint-naming control requests (CLEAR_FEATURE(HALT) "
        "completed / abandoned / interleaved, look-alike requests) placed at every point of a transfer; non-trivial = "
        ">=1 completed clear-halt of an endpoint at DATA1 and >=1 abandoned one; distinct = hash of configuration + step list")
REQUIRED_BINS = ["clear_in_toggle1", "clear_out_toggle1", "clear_in_retry_pending", "clear_in_packet_pending", "clear_in_idle", "clear_in_idle_toggle1",
                 "clear_while_sibling_direction_toggle1", "clear_while_other_endpoint_toggle1", "clear_absent_endpoint",
                 "clear_abandoned_after_setup", "clear_abandoned_status_unacked", "clear_completed_second_attempt",
                 "clear_interleaved_with_other_endpoint", "lookalike_bad_feature", "lookalike_bad_recipient", "lookalike_set_feature",
                 "lookalike_class_request", "lookalike_get_status", "in_ack_withheld_silent", "in_ack_withheld_damaged",
                 "out_damaged_data", "out_wrong_toggle_sent", "clear_signal_endpoint", "clean_session", "fs60_session",
                 "toggle_observed_after_clear_in", "toggle_observed_after_clear_out",
                 "out_nak_buffer_full", "out_retry_after_nak_accepted", "out_buffer_size_mps", "out_buffer_size_default",
                 "out_buffer_size_large", "app_flush", "discard_awaiting_ack", "discard_retry_pending", "discard_packet_pending",
                 "discard_at_toggle1", "toggle_observed_after_discard", "clear_endpoint_zero",
                 "clear_windex_reserved_bits"]
REQUIRED_EVENTS = ["clear_halt_completed", "clear_halt_completed_in", "clear_halt_completed_out", "clear_halt_completed_sig", "in_data_packets", "in_acked", "in_naks", "out_acked_new", "out_delivery_checks",
                   "ep_tx_valid_cycles", "ep_handshake_requests", "sig_transactions", "in_stream_bytes_accepted",
                   "out_stream_bytes_delivered"]
ASSUMPTIONS = ["legal host: one transaction at a time; handshake within the turn-around time or not at all",
               "a clear-halt 'completes' when the host ACKs the status-stage ZLP; abandoned requests must reset nothing",
               "the OUT endpoints' buffers are never overflowed (what happens then belongs to C13)",
               "SET_CONFIGURATION is issued only at the start of a session (its effect on toggles is not part of the statement)"]


def decode_windex(windex):
    return (windex & 0xF, "in" if windex & 0x80 else "out")


def make_session(rng, res, tier):
    from rv.ref.c12_endpoints import Session

    class HaltSession(Session):
        """Session + bookkeeping needed to give the known defect(s) a narrow mechanism name."""
        stuck = None          # endpoints named by SETUPs since a CLEAR_FEATURE request was left unfinished
        stuck_prior = False   # ... and whether that was already the case before the latest SETUP
        hazard_seen = False

        def on_setup_acked(self, setup8):
            windex = setup8[4] | (setup8[5] << 8)
            standard = (setup8[0] >> 5) & 3 == 0
            self.stuck_prior = self.stuck is not None
            if self.stuck is not None:
                self.stuck.add(decode_windex(windex))
            elif standard and setup8[1] == 1:
                self.stuck = {decode_windex(windex)}

        def on_host_ack(self):
            if self.stuck is None:
                return
            st = self.status_ack_of
            if st is not None and is_clear_halt(st):
                self.stuck = None            # proper completion (the caller applies it to the model)
                return
            if st is not None and not self.stuck_prior:
                # the device itself answered a look-alike request with a ZLP; whatever that does is not the known defect
                self.stuck = None
                return
            # the host ACKed something that is not the status stage of a clear-halt while a CLEAR_FEATURE request
            # is unfinished: a correct device resets nothing.
            for t in self.stuck:
                m = self.models.get(t)
                if m is not None:
                    m.spurious_clear = True
                    self.hazard_seen = True
            self.stuck = None

        # ---- classification of toggle mismatches
        def toggle_violation(self, key, m, observed, retry):
            if getattr(m, "discard_situation", None) == "awaiting_ack" and observed == m.toggle ^ 1:
                self.res.violation("in_toggle_advanced_by_discard_while_awaiting_ack",
                                   "IN ep=%d: packet sent, host withheld the ACK, `discard` asserted before any further token: the next "
                                   "packet carries the advanced toggle DATA%d although no transaction completed; ops=%s"
                                   % (key[0], observed, self.ops_log[-12:]))
            elif getattr(m, "spurious_clear", False) and observed == 0 and m.toggle == 1:
                self.res.violation("clear_halt_applied_by_unrelated_ack",
                                   "IN ep=%d reset to DATA0 although no clear-halt naming it completed: a CLEAR_FEATURE request was "
                                   "unfinished (abandoned / stalled / between its stages) when the host ACKed another transaction; ops=%s"
                                   % (key[0], self.ops_log[-12:]))
            elif getattr(m, "cleared_at_toggle1", False) and observed == 1 and m.toggle == 0:
                self.res.violation("in_toggle_not_reset_by_clear_halt", "IN ep=%d still sends DATA1 after a completed clear-halt; ops=%s"
                                   % (key[0], self.ops_log[-12:]))
            elif getattr(m, "discard_situation", None) == "awaiting_ack" and observed == m.toggle ^ 1:
                self.res.violation("in_toggle_advanced_by_discard_while_awaiting_ack",
                                   "IN ep=%d: packet sent, host withheld the ACK, `discard` asserted before any further token: the next "
                                   "packet carries the advanced toggle DATA%d although no transaction completed; ops=%s"
                                   % (key[0], observed, self.ops_log[-12:]))
            elif getattr(m, "discard_situation", None) and observed is not None:
                self.res.violation("in_toggle_changed_by_discard", "IN ep=%d: after `discard` (%s) the next packet has DATA%d, model expects "
                                   "DATA%d; ops=%s" % (key[0], m.discard_situation, observed, m.toggle, self.ops_log[-12:]))
            else:
                self.res.violation("in_wrong_toggle", "IN ep=%d packet %d sent with toggle %s, model expects DATA%d (retry=%s); ops=%s"
                                   % (key[0], m.k, observed, m.toggle, retry, self.ops_log[-12:]))

        def sig_toggle_violation(self, n, m, observed):
            if getattr(m, "spurious_clear", False) and observed == 0 and m.toggle == 1:
                self.res.violation("clear_halt_applied_by_unrelated_ack",
                                   "signal endpoint %d reset to DATA0 although no clear-halt naming it completed: a CLEAR_FEATURE request "
                                   "was unfinished when the host ACKed another transaction; ops=%s" % (n, self.ops_log[-12:]))
            elif getattr(m, "cleared_at_toggle1", False) and observed == 1 and m.toggle == 0:
                self.res.violation("signal_endpoint_ignores_clear_halt",
                                   "signal endpoint %d still sends DATA1 after a completed CLEAR_FEATURE(ENDPOINT_HALT) naming it; ops=%s"
                                   % (n, self.ops_log[-12:]))
            else:
                self.res.violation("sig_wrong_toggle", "signal endpoint %d sent toggle %s, model expects DATA%d (unacked=%s); ops=%s"
                                   % (n, observed, m.toggle, m.unacked, self.ops_log[-12:]))

        def out_missing_violation(self, key, m, missing, data, toggle):
            # ACKed but dropped: the endpoint expected the other toggle
            if bytes(missing) == bytes(data) and toggle is not None:
                if getattr(m, "spurious_clear", False) and toggle == 1:
                    self.res.violation("clear_halt_applied_by_unrelated_ack",
                                       "OUT ep=%d expects DATA0 although no clear-halt naming it completed (DATA1 ACKed and dropped): a "
                                       "CLEAR_FEATURE request was unfinished when the host ACKed another transaction; ops=%s"
                                       % (key[0], self.ops_log[-12:]))
                elif getattr(m, "cleared_at_toggle1", False) and toggle == 0:
                    self.res.violation("out_toggle_not_reset_by_clear_halt", "OUT ep=%d drops DATA0 after a completed clear-halt; ops=%s"
                                       % (key[0], self.ops_log[-12:]))
                else:
                    self.res.violation("out_toggle_out_of_step", "OUT ep=%d: new data sent with the model's expected DATA%d was ACKed but "
                                       "dropped (endpoint expects the other toggle); ops=%s" % (key[0], toggle, self.ops_log[-12:]))
            else:
                self.res.violation("out_acked_data_not_delivered", "OUT ep=%d: %d ACKed bytes missing (last DATA%s); ops=%s"
                                   % (key[0], len(missing), toggle, self.ops_log[-10:]))

        def out_extra_violation(self, key, m, extra, data, toggle):
            if bytes(extra) == bytes(data) and toggle is not None:
                if getattr(m, "spurious_clear", False) and toggle == 0:
                    self.res.violation("clear_halt_applied_by_unrelated_ack",
                                       "OUT ep=%d accepted DATA0 while DATA1 is due and no clear-halt naming it completed: a CLEAR_FEATURE "
                                       "request was unfinished when the host ACKed another transaction; ops=%s" % (key[0], self.ops_log[-12:]))
                else:
                    self.res.violation("out_toggle_out_of_step", "OUT ep=%d delivered data sent with DATA%d although DATA%d was due; ops=%s"
                                       % (key[0], toggle, toggle ^ 1, self.ops_log[-12:]))
            else:
                self.res.violation("out_delivered_unexpected_data", "OUT ep=%d delivered %d extra bytes (last DATA%s); ops=%s"
                                   % (key[0], len(extra), toggle, self.ops_log[-10:]))

    return HaltSession(rng, res, tier=tier)


def is_clear_halt(setup8):
    """standard CLEAR_FEATURE, recipient endpoint, feature ENDPOINT_HALT (0), no data stage, legal wIndex"""
    windex = setup8[4] | (setup8[5] << 8)
    return (setup8[0] == 0x02 and setup8[1] == 1 and setup8[2] == 0 and setup8[3] == 0 and
            setup8[6] == 0 and setup8[7] == 0 and (windex & ~0x8F) == 0)


def run_case(rng, tier, res):
    s = make_session(rng, res, tier)
    if s.fs60:
        res.bin("fs60_session")
    ins = [k for k, m in s.models.items() if m.kind == "in"]
    outs = [k for k, m in s.models.items() if m.kind == "out"]
    sig = (s.sig_number, "in")
    streams = ins + outs
    populated_numbers = {k[0] for k in s.models}
    absent_keys = [(0, "in"), (0, "out")] + [(n, d) for n in s.absent for d in ("in", "out")] + \
                  [(k[0], "out" if k[1] == "in" else "in") for k in s.models if (k[0], "out" if k[1] == "in" else "in") not in s.models]
    # a 'clean' session only uses request shapes that leave no unfinished CLEAR_FEATURE behind
    clean = rng.random() < 0.45
    if clean:
        res.bin("clean_session")
    counts = {"completed_t1": 0, "abandoned": 0}
    # packet boundaries of the IN streams depend on flush/discard timing: judge toggle, retry identity and stream continuity
    for k in ins:
        s.models[k].flex = True
    app_controls = rng.random() < 0.6
    for n, size in s.cfg["out_buffer"].items():
        res.bin("out_buffer_size_" + {None: "default", "mps": "mps", "mps+1": "mps", "2mps": "large", "3mps": "large"}[size])

    def toggle_of(key):
        m = s.models[key]
        return m.expected if m.kind == "out" else m.toggle

    def do_in(key, mode=None):
        m = s.models[key]
        if mode is None:
            mode = rng.choice(["ack"] * 6 + ["none", "none", "bad_pid", "overlong"])
        flagged = getattr(m, "spurious_clear", False)
        info = yield from s.op_in(key[0], mode)
        m.last_nak = info.get("kind") == "handshake"        # the endpoint had nothing it could send
        if info.get("kind") == "data":
            if getattr(m, "cleared_recently", False):
                res.bin("toggle_observed_after_clear_in")
            m.cleared_at_toggle1 = m.cleared_recently = False
            if flagged:              # (a flag raised by this transaction's own ACK concerns the NEXT packet)
                m.spurious_clear = False
            if getattr(m, "discard_situation", None):
                res.bin("toggle_observed_after_discard")
                m.discard_situation = None
        return info

    def do_out(key, **kw):
        m = s.models[key]
        if "choice" not in kw:
            kw["choice"] = rng.choice(["expected"] * 6 + ["repeat", "repeat", "other"])
        if "fault" not in kw:
            kw["fault"] = rng.choice([None] * 8 + ["crc", "truncate", "no_data"])
        if kw["choice"] != "expected" and kw["fault"] is None and "length" not in kw:
            kw["length"] = rng.randint(1, m.mps)           # a dropped packet must be distinguishable from a delivered one
        info = yield from s.op_out(key[0], **kw)
        if kw["fault"] is None and info.get("kind") == "handshake" and info.get("pid") == U.ACK and not s.consumer_hold.get(key):
            if getattr(m, "cleared_recently", False):
                res.bin("toggle_observed_after_clear_out")
            m.spurious_clear = m.cleared_at_toggle1 = m.cleared_recently = False
        return info

    def touch(key, good=True):
        m = s.models[key]
        if m.kind == "out":
            yield from do_out(key, choice="expected", fault=None, length=rng.randint(1, m.mps))
        else:
            yield from do_in(key, "ack" if good else rng.choice(["ack", "none"]))

    def other_traffic(avoid=None):
        cands = [k for k in streams + [sig] if k != avoid]
        key = rng.choice(cands)
        m = s.models[key]
        if m.kind == "out":
            yield from do_out(key, fault=None)
        else:
            yield from do_in(key, rng.choice(["ack", "ack", "ack", "none"]))

    def clear_feature():
        # ---- which endpoint is named
        r = rng.random()
        if r < 0.70:
            target = rng.choice(streams)
        elif r < 0.80:
            target = sig
            res.bin("clear_signal_endpoint")
        else:
            target = rng.choice(absent_keys)
            res.bin("clear_absent_endpoint")
        windex = target[0] | (0x80 if target[1] == "in" else 0)
        if target[0] == 0:
            res.bin("clear_endpoint_zero")
        if target not in s.models and rng.random() < 0.4:
            # reserved wIndex bits set (bits 4-6, high byte): whatever the device makes of such a request, the low nibble /
            # bit 7 name no endpoint of ours and the other bit fields must not be taken for an endpoint number
            windex |= rng.choice([0x10, 0x20, 0x40, 0x70, 0]) | (rng.choice([1, 0x80 | min(populated_numbers), max(populated_numbers), 0xFF]) << 8)
            res.bin("clear_windex_reserved_bits")
        # ---- request shape
        shapes = ["halt"] * 10 + (["bad_feature", "bad_recipient", "set_feature", "class_request", "get_status"] if not clean
                                  else ["set_feature", "class_request", "get_status"])
        shape = rng.choice(shapes)
        if shape == "halt":
            setup = U.setup_bytes(0x02, 1, 0, windex, 0)
        elif shape == "bad_feature":
            setup = U.setup_bytes(0x02, 1, rng.choice([1, 2, 0x0100]), windex, 0)
            res.bin("lookalike_bad_feature")
        elif shape == "bad_recipient":
            setup = U.setup_bytes(rng.choice([0x00, 0x01, 0x03, rng.randint(4, 31)]), 1, rng.choice([0, 1]), windex, 0)
            res.bin("lookalike_bad_recipient")
        elif shape == "set_feature":
            setup = U.setup_bytes(0x02, 3, 0, windex, 0)
            res.bin("lookalike_set_feature")
        elif shape == "class_request":
            setup = U.setup_bytes(rng.choice([0x22, 0x42]), 1, 0, windex, 0)
            res.bin("lookalike_class_request")
        else:
            setup = U.setup_bytes(0x82, 0, 0, windex, 2)
            res.bin("lookalike_get_status")
        # ---- how far the request gets
        if shape == "halt":
            modes = ["complete"] * 6 + ["second_attempt"] + ([] if clean else ["setup_only", "status_unacked", "interleaved", "interleaved"])
        else:
            modes = ["complete"] * 3 + ([] if clean else ["setup_only", "interleaved"])
        mode = rng.choice(modes)
        m = s.models.get(target)
        # ---- directed: bring a stream IN endpoint into its idle state first (nothing buffered / a partial packet only)
        drained = False
        if shape == "halt" and m is not None and m.kind == "in" and rng.random() < 0.4:
            drained = True
            s.feed_hold[target] = True
            s.log("FEED_HOLD", target)
            for _ in range(6):
                info = yield from do_in(target, "ack")
                yield from s.gap()
                if info.get("kind") != "data":
                    break
        # ---- situation of the named endpoint (bins)
        if shape == "halt" and m is not None and mode in ("complete", "second_attempt"):
            if m.kind == "in":
                if m.toggle:
                    res.bin("clear_in_toggle1")
                if m.unacked:
                    res.bin("clear_in_retry_pending")
                elif m.pending() and not getattr(m, "last_nak", False):
                    res.bin("clear_in_packet_pending")
                else:
                    res.bin("clear_in_idle")
                    if m.toggle:
                        res.bin("clear_in_idle_toggle1")
            elif m.kind == "out" and m.expected:
                res.bin("clear_out_toggle1")
            sib = (target[0], "out" if target[1] == "in" else "in")
            if sib in s.models and toggle_of(sib):
                res.bin("clear_while_sibling_direction_toggle1")
            if any(toggle_of(k) for k in s.models if k[0] != target[0]):
                res.bin("clear_while_other_endpoint_toggle1")
        s.log("REQUEST", shape, target, mode)
        kw = {}
        if mode == "setup_only":
            kw["stop_after"] = "setup"
        elif mode == "status_unacked":
            kw["status_ack"] = rng.choice(["none", "bad_pid"])
        elif mode == "second_attempt":
            kw["status_ack"] = rng.choice(["none", "bad_pid", "overlong"])
            kw["retry_status"] = True
        elif mode == "interleaved":
            def between():
                for _ in range(rng.randint(1, 2)):
                    yield from other_traffic(avoid=target if rng.random() < 0.5 else None)
                    yield from s.gap()
            kw["between"] = between
        before = toggle_of(target) if m is not None else None
        r = yield from s.op_control(setup, **kw)
        if shape == "halt":
            if mode == "setup_only":
                res.bin("clear_abandoned_after_setup")
                counts["abandoned"] += 1
            elif mode == "status_unacked":
                res.bin("clear_abandoned_status_unacked")
                counts["abandoned"] += 1
            elif mode == "interleaved":
                res.bin("clear_interleaved_with_other_endpoint")
            if r["completed"]:
                res.event("clear_halt_completed")
                if mode == "second_attempt":
                    res.bin("clear_completed_second_attempt")
                if m is not None and is_clear_halt(setup):
                    res.event("clear_halt_completed_" + m.kind)
                    m.clear_halt()
                    m.cleared_recently = True
                    m.cleared_at_toggle1 = bool(before) or getattr(m, "cleared_at_toggle1", False)
                    if before:
                        counts["completed_t1"] += 1
            elif mode in ("complete", "second_attempt"):
                res.event("clear_halt_not_completed_by_device")
                res.unjudged += 1
        if drained:
            s.feed_hold[target] = False
            s.log("FEED_RELEASE", target)
            yield from s.host.idle(rng.randint(5, 90))
        # ---- make the consequences visible soon
        if drained or rng.random() < 0.7:
            yield from s.gap()
            cands = [target] if m is not None else []
            sib = (target[0], "out" if target[1] == "in" else "in")
            if sib in s.models:
                cands.append(sib)
            cands.append(rng.choice(streams))
            for key in cands[:rng.randint(1, 3)]:
                yield from touch(key)
                yield from s.gap()

    def app_control():
        """The application drives `flush` / `discard` of a stream IN endpoint between two transactions."""
        k = rng.choice(ins)
        m = s.models[k]
        if rng.random() < 0.5:
            # directed: a transaction whose ACK the host withholds, then (sometimes) a token elsewhere, then discard
            yield from do_in(k, rng.choice(["none", "bad_pid"]))
            yield from s.gap()
            if rng.random() < 0.5:
                yield from other_traffic(avoid=k)
                yield from s.gap()
        if rng.random() < 0.45:
            yield from s.op_flush(k, rng.choice([1, 2, 10, 40]))
            res.bin("app_flush")
        else:
            if m.unacked and not m.own_token_since:
                situation = "awaiting_ack"
            elif m.unacked:
                situation = "retry_pending"
            elif m.pending():
                situation = "packet_pending"
            else:
                situation = "idle"
            res.bin("discard_" + situation)
            if m.toggle:
                res.bin("discard_at_toggle1")
            yield from s.op_discard(k, rng.choice([1, 1, 3, 12]))
            if getattr(m, "discard_situation", None) != "awaiting_ack":     # (a hazard not yet observed stays the explanation)
                m.discard_situation = situation
        yield from s.host.idle(rng.randint(3, 60))
        yield from do_in(k, "ack" if rng.random() < 0.8 else None)

    def driver():
        yield from s.start()
        if rng.random() < 0.4:
            new = rng.choice([1, 2, 0x55, 0x7F, 0x40])
            r = yield from s.op_control(U.setup_bytes(0x00, 5, new, 0, 0))
            if r["completed"]:
                s.addr = new
            yield from s.host.idle(6)
        if rng.random() < 0.5:
            yield from s.op_control(U.setup_bytes(0x00, 9, 1, 0, 0))
        # warm-up: advance toggles
        for key in rng.sample(streams, len(streams)):
            for _ in range(rng.randint(0, 2)):
                yield from touch(key)
                yield from s.gap()
        n_ops = rng.randint(22, 36)
        for _ in range(n_ops):
            r = rng.random()
            if r < 0.28:
                yield from clear_feature()
            elif r < 0.54:
                yield from do_in(rng.choice(ins))
            elif r < 0.78:
                yield from do_out(rng.choice(outs))
            elif r < 0.84:
                if not s.models[sig].unacked:
                    s.set_signal(rng.getrandbits(32))
                yield from do_in(sig)
            elif r < 0.91:
                if app_controls:
                    yield from app_control()
                else:
                    yield from do_in(rng.choice(ins))
            elif r < 0.93:
                yield from s.op_ping(rng.choice(outs)[0])
            elif r < 0.95:
                yield from s.op_control(rng.choice([U.setup_bytes(0x80, 6, 0x0100, 0, 18), U.setup_bytes(0x80, 8, 0, 0, 1)]))
            elif r < 0.985:
                # buffer-full NAK: the NAKed packet must not advance the toggle (retry with the same toggle is accepted)
                k = rng.choice(outs)

                nak = yield from s.nak_pattern(k, between=(lambda: other_traffic(avoid=k)) if rng.random() < 0.6 else None)
                mk = s.models[k]
                mk.spurious_clear = mk.cleared_at_toggle1 = mk.cleared_recently = False
            elif ins:
                # starve / feed an IN stream (the OUT consumers are never stalled here: every OUT transaction is judged
                # individually, which a held consumer would prevent)
                k = rng.choice(ins)
                s.feed_hold[k] = not s.feed_hold.get(k)
                s.log("FEED_HOLD" if s.feed_hold[k] else "FEED_RELEASE", k)
            yield from s.gap()
        yield from s.reveal()

    s.b.add_driver(driver())
    s.b.run()
    s.finish()
    res.nontrivial = counts["completed_t1"] >= 1 and (clean or counts["abandoned"] >= 1)
