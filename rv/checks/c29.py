"""C29 - USBMultibyteStreamInEndpoint serialises words little-endian, once, with first/last framing.

DUT: real USBDevice(bus=UTMIInterface()) with one luna USBMultibyteStreamInEndpoint (byte_width 1..8,
max packet size 8/16/32/64/512, endpoint number 1..15) added through add_endpoint().  The inner byte-wide
USBStreamInEndpoint created inside elaborate() is captured with the harness Registry, so that the byte stream
between the shift FSM and the byte endpoint is observed directly.

Workload (per case one session of 30-120 words): tagged word values mixed with adversarial values (all zero / all
ones / one byte set / neighbours differing in one bit / repeated words), random and directed first/last patterns
(first only, last only, both, runs of last, none), word valid gaps (back-to-back, short, long), the producer
presenting the next word exactly on / one cycle around the cycle the previous word's last byte is taken; host IN
polling with ACK, missing ACK (retry) and pauses so that the byte endpoint's ready falls for long stretches (both
packet buffers full) and rises in the middle of a word; all tx_ready profiles on the PHY side.

Monitors / oracle (reference = the property statement, no luna code):
  * word monitor: every (valid & ready) cycle of the word stream appends the word's little-endian bytes with the
    expected flags (first only on byte 0, last only on byte W-1) to an expectation queue;
  * byte monitor: every (valid & ready) cycle of the inner byte stream must pop exactly the head of that queue
    (value, first flag, last flag); a byte with an empty queue is a byte without a word;
  * pacing: a word may be accepted only when no byte of an earlier word is still unsent, the final byte may be taken
    in that very cycle ("only as fast as the byte endpoint can take them");
  * end to end: the payload the host accepts (each DATA0/DATA1 toggle once, CRC16-checked by the reference codec)
    must be the same byte sequence, and after the producer stops everything accepted must reach the inner stream
    and the host within a bounded number of IN polls.

Not judged: stability of the inner payload and the value of the inner first/last flags while valid & ~ready (the statement
places the flags on bytes, i.e. on transfers; luna drives them only in the cycle the byte is taken), the packetisation itself (C11), the latency of
anything.  The pacing rule is the literal reading of the statement; a design that buffered a second word would be
reported (mechanism word_accepted_while_bytes_pending) and would need the statement to be revisited.
"""
from rv.sim import Bench, Registry
from rv.usb2host import UTMIHost, init_device_signals
from rv.ref import usb2 as U

PROPERTY = "C29"
CASES = {"quick": 340, "thorough": 6000}
RULE = ("case = (byte_width 1..8, max packet 8/16/32/64, endpoint 1..15, tx_ready profile, producer profile, host profile) "
        "+ 30-120 words with first/last/value/gap patterns and an IN-poll schedule with missing ACKs and pauses; "
        "non-trivial = words were stalled by a full byte endpoint, accepted back-to-back and carried first and last; "
        "distinct = hash of configuration and word list")
REQUIRED_BINS = ["width_1", "width_2", "width_3", "width_4", "width_5", "width_6", "width_7", "width_8",
                 "word_accepted_on_last_byte_cycle", "word_accepted_when_idle", "word_stalled_by_byte_endpoint",
                 "byte_stalled_mid_word", "word_first_only", "word_last_only", "word_first_and_last", "word_no_flags",
                 "width_not_dividing_packet", "host_retry", "word_offered_mid_word", "high_bytes_zero", "repeated_word", "mps_512"]
REQUIRED_EVENTS = ["words_accepted", "inner_bytes_taken", "inner_first_seen", "inner_last_seen", "host_bytes_accepted",
                   "host_packets_accepted", "cycles_monitored"]
ASSUMPTIONS = ["word stream obeys the stream contract: valid/payload/first/last held until ready",
               "the byte endpoint's own packetisation is judged by C11, here only the byte sequence the host accepts",
               "pacing is judged literally: no word is accepted while a byte of an earlier word is unsent (the last byte may leave in the same cycle)"]


def le_bytes(value, width):
    return [(value >> (8 * i)) & 0xFF for i in range(width)]


def make_words(rng, width, n):
    """list of (value, first, last, gap_before)"""
    mask = (1 << (8 * width)) - 1
    words = []
    tag = rng.randrange(1 << 16)
    prev = rng.randrange(mask + 1)
    flag_mode = rng.choice(["random", "random", "packets", "all_last", "none", "first_heavy"])
    gap_mode = rng.choice(["b2b", "b2b", "short", "mixed", "long", "aimed"])
    run = 0
    for i in range(n):
        tag = (tag + 1) & 0xFFFF
        k = rng.random()
        if k < 0.40:
            # position tag mixed in every byte: loss / duplication / reordering become visible
            v = 0
            for j in range(width):
                v |= ((tag * 7 + j * 37 + (tag >> 5)) & 0xFF) << (8 * j)
        elif k < 0.55:
            v = rng.randrange(mask + 1)
        elif k < 0.63:
            v = prev ^ (1 << rng.randrange(8 * width))          # one bit apart from the previous word
        elif k < 0.70:
            v = prev                                            # identical word twice
        elif k < 0.78:
            v = rng.randrange(256) << (8 * rng.randrange(width))   # a single byte set, rest zero
        elif k < 0.84:
            v = rng.randrange(1, 256)                           # only the low byte set (high bytes zero)
        elif k < 0.89:
            v = mask
        elif k < 0.93:
            v = 0
        else:
            # byte-palindrome breaker: strictly increasing bytes, so any order error shows
            base = rng.randrange(256 - width)
            v = sum((base + j) << (8 * j) for j in range(width))
        if flag_mode == "random":
            f, l = rng.random() < 0.3, rng.random() < 0.3
        elif flag_mode == "packets":
            f = run == 0
            l = rng.random() < 0.25
            run = 0 if l else run + 1
        elif flag_mode == "all_last":
            f, l = rng.random() < 0.5, True
        elif flag_mode == "none":
            f, l = False, rng.random() < 0.04
        else:
            f, l = rng.random() < 0.8, rng.random() < 0.15
        if gap_mode == "b2b":
            g = 0 if rng.random() < 0.9 else rng.randint(1, 5)
        elif gap_mode == "short":
            g = rng.randint(0, 3)
        elif gap_mode == "mixed":
            g = rng.choice([0, 0, 0, 1, 2, width - 1, width, width + 1, 3 * width, rng.randint(0, 60)])
        elif gap_mode == "long":
            g = rng.randint(width, 8 * width + 20)
        else:
            g = rng.choice([max(0, width - 2), width - 1, width, width + 1, 0])
        words.append((v, bool(f), bool(l), g))
        prev = v
    return words, flag_mode, gap_mode


def run_case(rng, tier, res):
    from luna.gateware.interface.utmi import UTMIInterface
    from luna.gateware.usb.usb2.device import USBDevice
    from luna.gateware.usb.usb2.endpoints.stream import USBMultibyteStreamInEndpoint, USBStreamInEndpoint

    width = rng.choice([1, 2, 3, 4, 5, 6, 7, 8])
    mps = rng.choice([8, 8, 8, 16, 16, 32, 32, 64, 64, 512])
    if mps == 512:
        res.bin("mps_512")
    epn = rng.randint(1, 15)
    ready_profile = rng.choice(["always", "always", ("every", rng.randint(2, 5)), ("random", rng.choice([0.3, 0.6, 0.9])),
                                ("bursty", rng.randint(2, 12), rng.randint(1, 10))])
    host_mode = rng.choice(["eager", "eager", "lazy", "bursts", "flaky"])
    nwords = rng.randint(30, 120) if tier == "quick" else rng.randint(30, 200)
    if mps == 512:
        nwords = rng.randint(600, 1300) // width + 20      # enough bytes to fill one or two 512-byte packets
        if host_mode == "lazy":
            host_mode = "bursts"                           # hundreds of short packets at a lazy pace would not fit the cycle budget
    words, flag_mode, gap_mode = make_words(rng, width, nwords)

    utmi = UTMIInterface()
    dev = USBDevice(bus=utmi)
    ep = USBMultibyteStreamInEndpoint(byte_width=width, endpoint_number=epn, max_packet_size=mps)
    dev.add_endpoint(ep)
    with Registry(USBStreamInEndpoint) as reg:
        # budget scales with the workload: a stream of one-word packets costs one IN transaction (~100 cycles, more with
        # host retries and pauses) per word; a fixed 120000 was exhausted by a healthy 1241-packet case (seed 8)
        b = Bench(dev, domain="usb", freq=60e6, max_cycles=120000 + 400 * len(words))
    inner_ep = reg.one(USBStreamInEndpoint)
    host = UTMIHost(b, utmi, rng, timing="fs12", ready_profile=ready_profile, gap_profile=rng.choice(["none", "none", "random"]))

    ws = ep.stream
    w_sigs = [ws.valid, ws.ready, ws.payload, ws.first, ws.last]
    b.watch(*w_sigs)
    if inner_ep is not None:
        bs = inner_ep.stream
        b_sigs = [bs.valid, bs.ready, bs.payload, bs.first, bs.last]
        b.watch(*b_sigs)
    else:
        b_sigs = None

    res.bin("width_%d" % width)
    if mps % width:
        res.bin("width_not_dividing_packet")
    res.desc = {"byte_width": width, "max_packet_size": mps, "endpoint": epn, "tx_ready": ready_profile, "host": host_mode,
                "flags": flag_mode, "gaps": gap_mode, "words": [("%#x" % v, f, l, g) for v, f, l, g in words[:8]], "n_words": nwords}
    res.sig(width, mps, epn, ready_profile, host_mode, words)

    expect = []          # queue of (byte, first, last, word_index, byte_index): accepted by the word port, not yet taken by the byte port
    all_bytes = []       # every byte of every accepted word, in order (for the host side)
    st = {"words": 0, "bytes": 0, "byte_valid_wait": 0, "word_wait": 0, "producer_done": False, "host_rx": bytearray(),
          "host_tog": U.DATA0, "prev_word": None, "taken_this_cycle": False}

    def monitor(b):
        res.event("cycles_monitored")
        wv, wr, wp, wf, wl = (b.get(s) for s in w_sigs)
        took_last_byte = False
        if b_sigs is not None:
            bv, br, bp, bf, bl = (b.get(s) for s in b_sigs)
            if bv and br:
                res.event("inner_bytes_taken")
                if bf:
                    res.event("inner_first_seen")
                if bl:
                    res.event("inner_last_seen")
                if not expect:
                    res.violation("byte_without_word", "cyc=%d inner byte %#04x first=%d last=%d taken although every accepted word was already serialised (words=%d)"
                                  % (b.cycle, bp, bf, bl, st["words"]))
                else:
                    eb, ef, el, wi, bi = expect.pop(0)
                    ctx = "cyc=%d width=%d word#%d byte#%d" % (b.cycle, width, wi, bi)
                    if bp != eb:
                        res.violation("byte_value_or_order", "%s inner byte %#04x expected %#04x (little-endian byte %d of the word)" % (ctx, bp, eb, bi))
                    if bool(bf) != ef:
                        res.violation("first_flag_misplaced" if bf else "first_flag_missing", "%s first=%d expected %d" % (ctx, bf, ef))
                    if bool(bl) != el:
                        res.violation("last_flag_misplaced" if bl else "last_flag_missing", "%s last=%d expected %d" % (ctx, bl, el))
                    took_last_byte = (bi == width - 1)
                    if st["byte_valid_wait"] and bi > 0:
                        res.bin("byte_stalled_mid_word")
                st["byte_valid_wait"] = 0
            elif bv:
                st["byte_valid_wait"] += 1
        if wv and wr:
            res.event("words_accepted")
            # pacing: nothing of an earlier word may still be unsent (its last byte may have left in this very cycle)
            if expect:
                res.violation("word_accepted_while_bytes_pending", "cyc=%d word#%d %#x accepted while %d byte(s) of earlier words are unsent"
                              % (b.cycle, st["words"], wp, len(expect)))
            if took_last_byte:
                res.bin("word_accepted_on_last_byte_cycle")
            else:
                res.bin("word_accepted_when_idle")
            if st["word_wait"] > 2 * width + 2:
                res.bin("word_stalled_by_byte_endpoint")
            res.bin("word_first_and_last" if (wf and wl) else "word_first_only" if wf else "word_last_only" if wl else "word_no_flags")
            if width > 1 and wp != 0 and (wp >> 8) == 0:
                res.bin("high_bytes_zero")
            if st["prev_word"] == wp:
                res.bin("repeated_word")
            st["prev_word"] = wp
            bl_ = le_bytes(wp, width)
            for i, x in enumerate(bl_):
                expect.append((x, bool(wf) and i == 0, bool(wl) and i == width - 1, st["words"], i))
                all_bytes.append(x)
            st["words"] += 1
            st["word_wait"] = 0
        elif wv:
            st["word_wait"] += 1
            if expect and expect[0][4] > 0:
                res.bin("word_offered_mid_word")

    # ------------------------------------------------------------------ producer
    def producer():
        yield
        for (v, f, l, g) in words:
            if gap_mode == "aimed" and rng.random() < 0.7:
                # present the next word around the cycle the current word's last byte is about to leave
                n = 0
                while len(expect) > rng.choice([0, 1, 1, 2]) and n < 400:
                    n += 1
                    yield
            else:
                for _ in range(g):
                    yield
            b.set(ws.valid, 1); b.set(ws.payload, v); b.set(ws.first, f); b.set(ws.last, l)
            n = 0
            while True:
                yield
                if b.get(ws.valid) and b.get(ws.ready):
                    break
                n += 1
                if n > 30000:
                    res.violation("word_never_accepted", "word %#x offered for %d cycles while the host kept polling" % (v, n))
                    st["producer_done"] = True
                    return
            b.set(ws.valid, 0)
            if rng.random() < 0.5:
                # change the payload immediately after acceptance (a latch that is one cycle late would see this)
                b.set(ws.payload, rng.randrange(1 << (8 * width))); b.set(ws.first, rng.random() < 0.5); b.set(ws.last, rng.random() < 0.5)
        st["producer_done"] = True
        while True:
            yield

    # ------------------------------------------------------------------ host
    def poll(ack=True):
        r = yield from host.in_transaction(0, epn, ack="ack" if ack else "none")
        if r["kind"] == "data":
            if not ack:
                res.bin("host_retry")
                return r
            if r["pid"] == st["host_tog"]:
                st["host_tog"] = U.DATA1 if st["host_tog"] == U.DATA0 else U.DATA0
                pl = bytes(r["payload"])
                off = len(st["host_rx"])
                st["host_rx"] += pl
                res.event("host_packets_accepted")
                res.event("host_bytes_accepted", len(pl))
                exp = bytes(all_bytes[off:off + len(pl)])
                if pl != exp:
                    res.violation("host_data_mismatch", "host accepted %s at stream offset %d, little-endian bytes of the accepted words are %s"
                                  % (pl.hex(), off, exp.hex()))
                if len(pl) > mps:
                    res.violation("host_packet_too_long", "%d > %d" % (len(pl), mps))
        elif r["kind"] == "malformed":
            res.violation("host_saw_malformed_packet", "%r" % (r,))
        return r

    def hostdrv():
        init_device_signals(b, dev, utmi)
        yield from host.idle(rng.randint(3, 30))
        naks = 0
        polls = 0
        done_seen = False
        while polls < 3000:
            polls += 1
            if host_mode == "eager":
                yield from host.idle(rng.randint(2, 10))
            elif host_mode == "lazy":
                yield from host.idle(rng.randint(20, 40 + 12 * min(mps, 64)))
            elif host_mode == "bursts":
                yield from host.idle(rng.choice([2, 3, 4, 6, rng.randint(100, 600)]))
            else:
                yield from host.idle(rng.randint(2, 60))
            ack = not (host_mode == "flaky" and rng.random() < 0.3 or rng.random() < 0.05)
            r = yield from poll(ack)
            if r["kind"] == "handshake" and r.get("pid") == U.NAK:
                naks += 1
            elif r["kind"] == "data":
                naks = 0
            elif r["kind"] == "timeout":
                res.violation("no_response_to_in_token", "IN to endpoint %d: neither data nor handshake" % epn)
                break
            # the tail of the stream stays buffered in the byte endpoint unless the stream ended with `last` or a full
            # packet: that is C11's business.  Stop once the producer is done and the endpoint has nothing to say.
            if st["producer_done"] and not done_seen:
                # NAKs counted while the producer was still running say nothing about the tail: start counting afresh
                done_seen = True
                naks = 0
                yield from host.idle(2 * width + 8)
            elif done_seen and naks >= 3:
                break
        yield from host.idle(5)

    b.add_monitor(monitor)
    b.add_driver(producer(), main=False)
    b.add_driver(hostdrv())
    b.run()
    res.cycles = b.cycle
    if b.hit_max_cycles:
        res.violation("harness_max_cycles", "case did not finish in %d cycles" % b.max_cycles)
    # completeness: every byte of every accepted word must have entered the byte endpoint (the byte endpoint is not
    # ready only while both packet buffers are full, and the host drained it until it NAKed three times in a row)
    if st["producer_done"] and expect:
        res.violation("bytes_never_sent", "%d byte(s) of accepted words never reached the byte endpoint although the host drained it" % len(expect))
    if st["producer_done"] and b_sigs is not None:
        # the host must have got everything except a tail still buffered inside the byte endpoint (< one packet, no `last`)
        n_host, n_all = len(st["host_rx"]), len(all_bytes)
        if n_host > n_all:
            res.violation("host_got_more_than_sent", "%d > %d" % (n_host, n_all))
        elif n_all - n_host >= mps:
            res.violation("host_missing_data", "host accepted %d of %d bytes after draining" % (n_host, n_all))
    res.nontrivial = all(res.bins.get(k) for k in ("word_accepted_on_last_byte_cycle", "word_stalled_by_byte_endpoint")) and st["words"] >= 20
