"""C18 — TransactionalizedFIFO is a commit/rollback queue.

DUT: luna.gateware.memory.TransactionalizedFIFO (random depth/width; domain default / "sync" / another domain with an
unrelated sync clock as a bystander; name given or None).
Monitor: every cycle compares empty/full/space_available/read_data with a reference queue that is
advanced with the *sampled* inputs of that same edge.
"""
from rv.sim import Bench, with_bystanders

PROPERTY = "C18"
CASES = {"quick": 320, "thorough": 6400}
RULE = ("case = (depth 1..17 (6 %: 31..1023 with a directed fill/drain sweep), width 1..16, domain mode, op-mix profile, 1500-4000 cycles of random per-cycle subsets of "
        "{write_en, write_commit|write_discard, read_en, read_commit|read_discard}); non-trivial = the case hit "
        "full and empty and performed >=1 discard of each kind and wrapped the storage; distinct = hash of config + op stream")
REQUIRED_BINS = ["full_seen", "write_while_full", "read_while_empty", "write_discard_nonempty", "read_discard_nonempty",
                 "wrap_with_uncommitted", "simultaneous_we_wc", "simultaneous_we_wdisc", "simultaneous_re_rc",
                 "simultaneous_re_rdisc", "depth_1", "depth_ge_9", "cross_port_same_cycle",
                 "domain_default", "domain_explicit_sync", "domain_other", "depth_ge_31", "big_fifo_full_seen"]
REQUIRED_EVENTS = ["cycles_compared", "read_data_compared", "writes_accepted", "reads_accepted"]
ASSUMPTIONS = ["commit and discard of the same port in the same cycle are contradictory and not generated",
               "pysim models the amaranth Memory read port faithfully"]

PROFILES = {
    # we, wc, wd, re, rc, rd probabilities
    "balanced": (0.5, 0.10, 0.05, 0.5, 0.10, 0.05),
    "fill":     (0.8, 0.15, 0.03, 0.2, 0.05, 0.03),
    "drain":    (0.3, 0.30, 0.02, 0.8, 0.20, 0.05),
    "commits":  (0.6, 0.50, 0.02, 0.6, 0.50, 0.02),
    "discards": (0.6, 0.10, 0.25, 0.6, 0.10, 0.25),
    "stream":   (0.9, 0.30, 0.01, 0.9, 0.30, 0.01),
}


class RefFifo:
    def __init__(self, depth):
        self.depth = depth
        self.q = []      # entries from committed-read position to current-write position
        self.rd = 0      # tentatively read
        self.cw = 0      # committed written (prefix of q)

    @property
    def empty(self):
        return self.rd >= self.cw

    @property
    def full(self):
        return len(self.q) >= self.depth

    @property
    def space(self):
        return self.depth - len(self.q)

    def head(self):
        return self.q[self.rd]

    def step(self, we, wdata, wc, wdisc, re, rc, rdisc):
        empty, full = self.empty, self.full
        q, rd, cw = self.q, self.rd, self.cw
        n_before = len(q)
        # write port
        if we and not full:
            q = q + [wdata]
        new_cw = cw
        if wc:
            new_cw = n_before          # commits writes of earlier cycles only
        if wdisc:
            q = q[:cw]                 # drops uncommitted, including this cycle's
        # read port
        new_rd = rd + (1 if (re and not empty) else 0)
        pop = 0
        if rc:
            pop = rd                   # finalises reads of earlier cycles
        if rdisc:
            new_rd = 0
            if rc:
                pass
        if pop:
            q = q[pop:]
            new_cw -= pop
            new_rd = (new_rd - pop) if not rdisc else 0
        self.q, self.rd, self.cw = q, new_rd, new_cw
        return (we and not full), (re and not empty)


def run_case(rng, tier, res):
    from luna.gateware.memory import TransactionalizedFIFO
    depth = rng.choice([1, 2, 3, 4, 5, 7, 8, 9, 15, 16, 17, rng.randint(1, 17)])
    width = rng.choice([1, 2, 4, 8, 8, 9, 16, rng.randint(1, 16)])
    ncyc = rng.randint(1500, 4000)
    big = rng.random() < 0.06
    if big:
        # depths of the order luna really uses (endpoint buffers: 64..2047 entries): pointer widths beyond 5 bits
        depth = rng.choice([31, 32, 33, 63, 64, 65, 127, 128, 129, 255, 256, 257, 511, 512, 1023])
        width = rng.choice([8, 8, 10])
        ncyc = min(9000, 2000 + 5 * depth)
        res.bin("depth_ge_31")
    profile = rng.choice(sorted(PROFILES))
    # clock domain the FIFO is asked to live in: default, "sync" given explicitly, or another one (every user inside luna
    # passes "usb"); in the last case the Bench clocks that domain and sync runs at an unrelated rate as a bystander
    dom_mode = rng.choice(["default", "explicit_sync", "other", "other"])
    if dom_mode == "default":
        dut = TransactionalizedFIFO(width=width, depth=depth, name=rng.choice(["fifo", None]))
        b = Bench(dut, domain="sync", freq=60e6, max_cycles=ncyc + 10)
    elif dom_mode == "explicit_sync":
        dut = TransactionalizedFIFO(width=width, depth=depth, name="fifo", domain="sync")
        b = Bench(dut, domain="sync", freq=60e6, max_cycles=ncyc + 10)
    else:
        dname = rng.choice(["usb", "usb", "ss", "fast"])
        dut = TransactionalizedFIFO(width=width, depth=depth, name="fifo", domain=dname)
        try:
            b = Bench(with_bystanders(dut, "sync"), domain=dname, freq=60e6,
                      clocks={"sync": rng.choice([17e6, 48e6, 120e6, 200e6])}, max_cycles=ncyc + 10)
        except (NameError, ValueError) as e:
            if "not present" not in str(e):
                raise
            # the design contains no clock domain of the requested name: the FIFO was not placed in it
            res.bin("domain_" + dom_mode)
            res.violation("requested_domain_not_used", "TransactionalizedFIFO(domain=%r): %s" % (dname, e))
            res.nontrivial = True
            return
    res.bin("domain_" + dom_mode)
    ins = [dut.write_en, dut.write_data, dut.write_commit, dut.write_discard, dut.read_en, dut.read_commit, dut.read_discard]
    outs = [dut.empty, dut.full, dut.space_available, dut.read_data]
    b.watch(*ins, *outs)
    ref = RefFifo(depth)
    mask = (1 << width) - 1
    res.desc = {"depth": depth, "width": width, "cycles": ncyc, "profile": profile, "domain": dom_mode}
    res.sig(depth, width, profile, dom_mode)
    res.bin("depth_1" if depth == 1 else "depth_ge_9" if depth >= 9 else "depth_mid")
    state = {"tag": rng.randrange(1 << 16), "prev_rdisc": False, "prev_wdisc": False, "wrapped": 0, "wcount": 0}

    def driver():
        prof = list(PROFILES[profile])
        phase_len = rng.randint(30, 300)
        sweep = "fill" if big else None      # big FIFOs: one directed fill-to-full, then drain-to-empty, then random
        for t in range(ncyc):
            if sweep == "fill":
                prof = list(PROFILES["fill"])
                if ref.full and rng.random() < 0.05:
                    sweep = "drain"
            elif sweep == "drain":
                prof = list(PROFILES["drain"])
                if ref.empty and not ref.q and rng.random() < 0.05:
                    sweep = None
            elif t % phase_len == 0 and rng.random() < 0.5:
                # switch behaviour now and then so that full/empty are both reached
                prof = list(PROFILES[rng.choice(sorted(PROFILES))])
            pwe, pwc, pwd, pre, prc, prd = prof
            we = rng.random() < pwe
            re = rng.random() < pre
            wc = rng.random() < pwc
            wd = (not wc) and rng.random() < pwd
            rc = rng.random() < prc
            rd = (not rc) and rng.random() < prd
            state["tag"] = (state["tag"] + 1) & 0xFFFF
            data = (state["tag"] ^ (state["tag"] >> 7)) & mask if rng.random() < 0.8 else rng.randrange(mask + 1)
            b.set(dut.write_en, we); b.set(dut.write_data, data)
            b.set(dut.write_commit, wc); b.set(dut.write_discard, wd)
            b.set(dut.read_en, re); b.set(dut.read_commit, rc); b.set(dut.read_discard, rd)
            res.sig(we, data, wc, wd, re, rc, rd)
            yield

    def monitor(b):
        we, wdata, wc, wd, re, rc, rd = (b.get(s) for s in ins)
        empty, full, space, rdata = (b.get(s) for s in outs)
        res.event("cycles_compared")
        ctx = "cyc=%d depth=%d width=%d held=%d rd=%d cw=%d" % (b.cycle, depth, width, len(ref.q), ref.rd, ref.cw)
        if bool(empty) != ref.empty:
            res.violation("empty_mismatch", "%s empty=%d expected=%d" % (ctx, empty, ref.empty))
        if bool(full) != ref.full:
            res.violation("full_mismatch", "%s full=%d expected=%d" % (ctx, full, ref.full))
        if space != ref.space:
            res.violation("space_available_mismatch", "%s space=%d expected=%d" % (ctx, space, ref.space))
        if not ref.empty and not empty:
            res.event("read_data_compared")
            if rdata != ref.head():
                mech = "read_data_mismatch"
                if state["prev_rdisc"]:
                    mech = "read_data_stale_cycle_after_read_discard"
                res.violation(mech, "%s read_data=%#x expected=%#x" % (ctx, rdata, ref.head()))
        # bins
        if ref.full:
            res.bin("full_seen")
            if big:
                res.bin("big_fifo_full_seen")
            if we:
                res.bin("write_while_full")
        if ref.empty and re:
            res.bin("read_while_empty")
        if wd and len(ref.q) > ref.cw:
            res.bin("write_discard_nonempty")
        if rd and ref.rd > 0:
            res.bin("read_discard_nonempty")
        if we and wc:
            res.bin("simultaneous_we_wc")
        if we and wd:
            res.bin("simultaneous_we_wdisc")
        if re and rc:
            res.bin("simultaneous_re_rc")
        if re and rd:
            res.bin("simultaneous_re_rdisc")
        if (we or wc or wd) and (re or rc or rd):
            res.bin("cross_port_same_cycle")
        if wc and wd or rc and rd:
            res.unjudged += 1
        w_ok, r_ok = ref.step(we, wdata, wc, wd, re, rc, rd)
        if w_ok:
            res.event("writes_accepted")
            state["wcount"] += 1
            if state["wcount"] > depth + 1 and len(ref.q) > ref.cw:
                res.bin("wrap_with_uncommitted")
        if r_ok:
            res.event("reads_accepted")
        state["prev_rdisc"] = bool(rd)

    b.add_driver(driver())
    b.add_monitor(monitor)
    b.run()
    res.cycles = b.cycle
    bins = res.bins
    res.nontrivial = all(bins.get(k) for k in ("full_seen", "read_while_empty", "write_discard_nonempty", "read_discard_nonempty"))
