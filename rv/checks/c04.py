"""C04 — USB2 handshakes are generated and detected exactly.

DUTs
  * stand-alone: a tiny wrapper module holding the real `USBHandshakeGenerator` and the real
    `USBHandshakeDetector(utmi=UTMIInterface())` side by side (they share nothing but the clock);
  * in-device: a real `USBDevice(bus=UTMIInterface())` with one testbench-driven endpoint (an object
    with an `EndpointInterface`, added through `USBDevice.add_endpoint`): requests are made on
    `interface.handshakes_out.{ack,nak,stall}` and observed on the device's UTMI `tx_valid/tx_data/
    tx_ready` (endpoint multiplexer OR-join, generator, transmit multiplexer in the loop); detections
    are observed on `interface.handshakes_in` (detector + multiplexer fan-out in the loop).
  Generator and detector traffic run concurrently in both modes (UTMI has separate rx and tx sides).

Workload
  generator: "directed" episodes — a request of one type, `tx_ready` low for s in {0,1,2,3,4..14}
  cycles after `tx_valid` rises (optionally ready already high in the request cycle), and a second /
  third request (same or other type, 1-3 cycles long) placed on a chosen offset: while stalled, on
  the accept cycle, in the first idle cycle after it (back-to-back packets), later — and "random"
  bursts with per-cycle request and ready probabilities.  Requests of two or three types in the same
  idle cycle are generated but unjudged: the monitor suspends until the transmitter has been quiet.
  detector: sessions of 40-110 received packets: the four handshakes, handshake PIDs with a damaged
  check nibble, 2-4 byte packets that start with a handshake PID (incl. the same handshake twice),
  a malformed / non-handshake first byte followed by a perfect handshake byte in the same packet,
  a first byte, a long rx_valid pause, then more bytes, one-byte packets with every other
  well-formed PID, tokens, SOFs, data packets (payload made of handshake bytes), empty packets; per-packet lead/gap/trail/idle timing incl. a one-byte packet
  with a long rx_active tail and garbage on rx_data whenever rx_valid is low (rv/ref/c01_rxwire.py).

Monitors / oracle
  generator: a busy/idle model advanced with the signals sampled in each cycle.  A request of exactly
  one type in a cycle in which the model is idle (no request outstanding, tx_valid low) creates the
  expectation "one packet with byte PID|~PID<<4": tx_valid must rise within LATENCY cycles, tx_data
  must equal that byte in every cycle tx_valid is high (so it is stable while stalled), tx_valid must
  stay high until a cycle with tx_ready, and must be low in the next cycle unless a new idle request
  was made.  Requests while an expectation is outstanding (including the accept cycle) create nothing;
  tx_valid without expectation is a violation.
  detector: every received packet is rebuilt from the sampled UTMI signals; exactly one strobe of
  type T is due within WINDOW cycles after rx_active fell iff the packet has exactly one byte, its
  check nibble is the complement of its PID and the PID is T in {ACK,NAK,STALL,NYET}; any other
  strobe (other type, second cycle, long / malformed / empty packet, no packet) is a violation.

Deviations from DESIGN.md section 7: the detector window is 6 cycles instead of 4 and strobes are
matched to packets (not counted per inter-packet interval), so that a refactor adding registers does
not trip the check even with 1-cycle inter-packet gaps; contradictory simultaneous requests suspend
the generator model until the transmitter is quiet instead of being partially judged.

Not judged: which handshake is sent for contradictory simultaneous requests; exact latencies inside
the stated windows; tx_data while tx_valid is low.  The generator has no NYET request input.
"""
from rv.sim import Bench
from rv.ref.crc import usb2_token_crc5, usb2_crc16
from rv.ref.c01_rxwire import RxWire

PROPERTY = "C04"
CASES = {"quick": 320, "thorough": 4800}
RULE = ("case = (stand-alone generator+detector | in-device driver endpoint) x [generator: 60-140 directed/random request episodes with "
        "chosen tx_ready stall and second-request offset] x [detector: 40-110 packets from 9 classes with per-packet timing]; "
        "non-trivial = all three handshake types generated, >=1 request while busy, all four types detected and >=3 rejection classes; "
        "distinct = hash of the request/ready schedule and of all received packets with their timing")
REQUIRED_BINS = [
    "gen_ack", "gen_nak", "gen_stall", "stall_0", "stall_1", "stall_2_3", "stall_ge4", "ready_high_in_request_cycle",
    "req_while_stalled_same_type", "req_while_stalled_other_type", "req_on_accept_cycle", "req_first_idle_cycle_after_accept",
    "req_held_over_accept", "multi_request_idle_unjudged", "random_burst", "mode_standalone", "mode_device",
    "det_ack", "det_nak", "det_stall", "det_nyet", "rej_pid_nibble", "rej_long_2", "rej_long_3", "rej_long_4", "rej_same_handshake_twice",
    "rej_other_pid_1byte", "rej_token", "rej_data", "rej_empty", "det_long_tail", "det_idle_1_before", "det_after_rejected",
    "rej_long_after_gap", "rej_tail_is_handshake", "gap_none", "gap_fixed", "gap_random", "gap_onestall",
]
REQUIRED_EVENTS = ["cycles_monitored", "idle_requests", "handshakes_accepted", "tx_valid_cycles", "tx_stall_cycles", "busy_requests",
                   "rx_packets_judged", "expect_strobe", "expect_no_strobe", "detector_strobes"]
ASSUMPTIONS = [
    "tx_valid may rise 1..4 cycles after an idle request; a detector strobe may come 0..6 cycles after rx_active is first sampled low",
    "requests of more than one type in the same idle cycle are contradictory: generated, counted as unjudged, monitor resynchronises on a quiet transmitter",
    "UTMI receive rules: rx_valid only while rx_active, rx_active >= 1 cycle before the first rx_valid, >= 1 idle cycle between packets",
    "tx_ready is eventually offered (every episode ends with ready high)",
]

WINDOW = 6      # detector: strobe at most this many cycles after the end of the packet
LATENCY = 4     # generator: tx_valid at most this many cycles after the idle request

ACK, NAK, STALL, NYET = 0x2, 0xA, 0xE, 0x6
HS_NAMES = {ACK: "ack", NAK: "nak", STALL: "stall", NYET: "nyet"}


def pid_byte(pid):
    return (pid & 0xF) | ((~pid & 0xF) << 4)


def expected_detection(pkt):
    """Reference: which strobe a received packet is due ('ack'|'nak'|'stall'|'nyet'), or (None, reason)."""
    pkt = bytes(pkt)
    if len(pkt) == 0:
        return None, "empty"
    b0 = pkt[0]
    nibble_ok = (b0 & 0xF) == ((~b0 >> 4) & 0xF)
    if len(pkt) > 1:
        if nibble_ok and (b0 & 0xF) in HS_NAMES:
            return None, "long_%d" % min(len(pkt), 4)
        return None, "other_long"
    if not nibble_ok:
        return None, "pid_nibble"
    if (b0 & 0xF) not in HS_NAMES:
        return None, "other_pid_1byte"
    return HS_NAMES[b0 & 0xF], None


# ------------------------------------------------------------------------------- DUT construction
def build(mode):
    from amaranth import Elaboratable, Module
    from luna.gateware.interface.utmi import UTMIInterface
    from luna.gateware.usb.usb2.packet import USBHandshakeGenerator, USBHandshakeDetector
    utmi = UTMIInterface()
    if mode == "device":
        from luna.gateware.usb.usb2.device import USBDevice
        from luna.gateware.usb.usb2.endpoint import EndpointInterface

        class DriverEndpoint(Elaboratable):
            def __init__(self):
                self.interface = EndpointInterface()

            def elaborate(self, platform):
                return Module()

        dev = USBDevice(bus=utmi)
        ep = DriverEndpoint()
        dev.add_endpoint(ep)
        ho, hi = ep.interface.handshakes_out, ep.interface.handshakes_in
        return dict(dut=dev, utmi=utmi, dev=dev, req=(ho.ack, ho.nak, ho.stall),
                    tx=(utmi.tx_valid, utmi.tx_data, utmi.tx_ready), det=(hi.ack, hi.nak, hi.stall, hi.nyet))

    class Pair(Elaboratable):
        def __init__(self):
            self.gen = USBHandshakeGenerator()
            self.det = USBHandshakeDetector(utmi=utmi)

        def elaborate(self, platform):
            m = Module()
            m.submodules.gen = self.gen
            m.submodules.det = self.det
            return m

    pair = Pair()
    g, d = pair.gen, pair.det.detected
    return dict(dut=pair, utmi=utmi, dev=None, req=(g.issue_ack, g.issue_nak, g.issue_stall),
                tx=(g.tx.valid, g.tx.data, g.tx.ready), det=(d.ack, d.nak, d.stall, d.nyet))


# ------------------------------------------------------------------------------- case
def run_case(rng, tier, res):
    mode = rng.choice(["standalone", "standalone", "device"])
    h = build(mode)
    dut, utmi, dev = h["dut"], h["utmi"], h["dev"]
    b = Bench(dut, domain="usb", freq=60e6, max_cycles=40000)
    wire = RxWire(b, utmi, rng)
    req_sigs, (tx_valid, tx_data, tx_ready), det_sigs = h["req"], h["tx"], h["det"]
    b.watch(*req_sigs, tx_valid, tx_data, tx_ready, *det_sigs)
    res.bin("mode_" + mode)
    res.desc = {"mode": mode, "episodes": [], "packets": []}
    res.sig(mode)
    REQ_BYTES = (pid_byte(ACK), pid_byte(NAK), pid_byte(STALL))
    REQ_NAMES = ("ack", "nak", "stall")

    # =========================================================================== generator model
    G = {"exp": None, "unknown": False, "quiet": 0, "last_accept": -10, "prev_req": (0, 0, 0), "types": set(), "busy_reqs": 0}

    def gen_monitor(cyc, reqs, valid, data, ready):
        nreq = sum(reqs)
        if valid:
            res.event("tx_valid_cycles")
        if G["unknown"]:
            G["quiet"] = 0 if (valid or nreq) else G["quiet"] + 1
            if G["quiet"] > LATENCY + 1:
                G["unknown"], G["exp"] = False, None
            G["prev_req"] = reqs
            return
        exp = G["exp"]
        busy_at_start = exp is not None or bool(valid)
        accept_cycle = False
        if valid:
            if exp is None:
                if G["last_accept"] == cyc - 1:
                    res.violation("handshake_packet_longer_than_one_byte",
                                  "cyc=%d tx_valid still high in the cycle after the byte was accepted, data=%#04x (no idle request outstanding)" % (cyc, data))
                else:
                    res.violation("handshake_unsolicited", "cyc=%d tx_valid high, data=%#04x, without an outstanding idle request" % (cyc, data))
                G["unknown"], G["quiet"] = True, 0          # resynchronise instead of reporting every following cycle
            else:
                if not exp["seen"]:
                    exp["seen"] = cyc
                if data != exp["byte"]:
                    if exp["ok_cycles"]:
                        mech = "handshake_data_changed_while_waiting"
                    elif data in REQ_BYTES:
                        mech = "handshake_wrong_type"
                    else:
                        mech = "handshake_bad_pid_byte"
                    res.violation(mech, "cyc=%d tx_data=%#04x expected=%#04x (%s requested at cyc %d, busy requests since: %s)" %
                                  (cyc, data, exp["byte"], exp["name"], exp["t"], exp["busy"]))
                    exp["byte"] = data      # report once per packet
                else:
                    exp["ok_cycles"] += 1
                if ready:
                    accept_cycle = True
                    stalls = cyc - exp["seen"]
                    res.event("handshakes_accepted")
                    res.bin("gen_" + exp["name"])
                    G["types"].add(exp["name"])
                    res.bin("stall_0" if stalls == 0 else "stall_1" if stalls == 1 else "stall_2_3" if stalls <= 3 else "stall_ge4")
                    G["last_accept"] = cyc
                    G["exp"] = None
                else:
                    res.event("tx_stall_cycles")
        elif exp is not None:
            if exp["seen"]:
                res.violation("handshake_dropped_before_accept",
                              "cyc=%d tx_valid fell after %d cycles without tx_ready (%s requested at cyc %d)" % (cyc, cyc - exp["seen"], exp["name"], exp["t"]))
                G["exp"] = None
            elif cyc - exp["t"] > LATENCY:
                res.violation("handshake_not_generated", "%s requested in idle at cyc %d: tx_valid did not rise within %d cycles" % (exp["name"], exp["t"], LATENCY))
                G["exp"] = None
        # requests of this cycle
        if nreq:
            if busy_at_start:
                res.event("busy_requests")
                G["busy_reqs"] += 1
                if exp is not None:
                    exp["busy"].append((cyc, reqs))
                    if nreq == 1:
                        same = REQ_NAMES[reqs.index(1)] == exp["name"]
                        if accept_cycle:
                            res.bin("req_on_accept_cycle")
                            if G["prev_req"] == reqs:
                                res.bin("req_held_over_accept")
                        else:
                            res.bin("req_while_stalled_same_type" if same else "req_while_stalled_other_type")
            elif nreq == 1:
                i = reqs.index(1)
                G["exp"] = {"byte": REQ_BYTES[i], "name": REQ_NAMES[i], "t": cyc, "seen": 0, "ok_cycles": 0, "busy": []}
                res.event("idle_requests")
                if ready:
                    res.bin("ready_high_in_request_cycle")
                if G["last_accept"] == cyc - 1:
                    res.bin("req_first_idle_cycle_after_accept")
            else:
                res.unjudged += 1
                res.bin("multi_request_idle_unjudged")
                G["unknown"], G["quiet"] = True, 0
        G["prev_req"] = reqs

    # =========================================================================== detector model
    D = {"last": None, "prev_none": False, "prev_end": None, "kinds": set(), "reasons": set()}
    exp_rx = []

    def describe(e):
        return "packet=%s (%s) end=%d" % (e["data"].hex(), e["label"], e["end"])

    def on_packet(p):
        kind, reason = expected_detection(p.data)
        e = {"end": p.end, "kind": kind, "reason": reason, "matched": 0, "data": bytes(p.data), "label": p.label}
        exp_rx.append(e)
        D["last"] = e
        res.event("rx_packets_judged")
        idle_before = (p.start - D["prev_end"] - 1) if D["prev_end"] is not None else None
        if kind:
            res.event("expect_strobe")
            res.bin("det_" + kind)
            D["kinds"].add(kind)
            if idle_before == 1:
                res.bin("det_idle_1_before")
            if D["prev_none"]:
                res.bin("det_after_rejected")
            if p.end - p.start >= 10:
                res.bin("det_long_tail")
        else:
            res.event("expect_no_strobe")
            res.bin("rej_" + reason)
            D["reasons"].add(reason)
            if p.label:
                for extra in p.label.split("+")[1:]:
                    res.bin("rej_" + extra)
        D["prev_none"], D["prev_end"] = kind is None, p.end

    def det_strobe(cyc, kind):
        res.event("detector_strobes")
        for e in exp_rx:
            if e["kind"] == kind and not e["matched"] and e["end"] <= cyc <= e["end"] + WINDOW:
                e["matched"] = 1
                return
        e = D["last"]
        if e is None or cyc > e["end"] + WINDOW:
            res.violation("detected_%s_without_packet" % kind, "cyc=%d last=%s" % (cyc, describe(e) if e else None))
        elif e["kind"] == kind:
            res.violation("detected_strobe_longer_than_one_cycle", "cyc=%d second %s strobe for %s" % (cyc, kind, describe(e)))
        elif e["kind"] is not None:
            res.violation("detected_wrong_type", "cyc=%d %s strobe for %s" % (cyc, kind, describe(e)))
        else:
            res.violation("detected_for_" + e["reason"], "cyc=%d %s strobe for %s" % (cyc, kind, describe(e)))

    def monitor(b):
        cyc = b.cycle
        res.event("cycles_monitored")
        reqs = tuple(b.get(s) for s in req_sigs)
        gen_monitor(cyc, reqs, b.get(tx_valid), b.get(tx_data), b.get(tx_ready))
        p = wire.sample(b)
        if p is not None:
            on_packet(p)
        for kind, s in zip(("ack", "nak", "stall", "nyet"), det_sigs):
            if b.get(s):
                det_strobe(cyc, kind)
        while exp_rx and cyc > exp_rx[0]["end"] + WINDOW:
            e = exp_rx.pop(0)
            if e["kind"] and not e["matched"]:
                res.violation("handshake_not_detected", "no %s strobe within %d cycles: %s" % (e["kind"], WINDOW, describe(e)))

    # =========================================================================== generator stimulus
    gen_done = {"v": False}

    def apply(reqs, ready):
        for s, v in zip(req_sigs, reqs):
            b.set(s, v)
        b.set(tx_ready, ready)
        res.sig(reqs, ready)

    def one_hot(i):
        return tuple(1 if k == i else 0 for k in range(3))

    def gen_driver():
        apply((0, 0, 0), 0)
        for _ in range(rng.randint(2, 5)):
            yield
        n_ep = rng.randint(60, 140)
        for ep in range(n_ep):
            quiet_tail = 3
            if rng.random() < 0.72:
                # ---- directed episode
                t1 = rng.randrange(3)
                s = rng.choice([0, 0, 1, 1, 2, 3, rng.randint(4, 14)])
                n = s + 7
                reqs = [[0, 0, 0] for _ in range(n)]
                ready = [0] * n
                first = one_hot(t1)
                multi = rng.random() < 0.05
                if multi:
                    first = rng.choice([(1, 1, 0), (1, 0, 1), (0, 1, 1), (1, 1, 1)])
                    quiet_tail = LATENCY + 5
                reqs[0] = list(first)
                ready[0] = 1 if rng.random() < 0.35 else 0
                for k in range(1, s + 1):
                    ready[k] = 0
                ready[s + 1] = 1                                   # accept cycle (tx_valid rises in cycle 1)
                for k in range(s + 2, n):
                    ready[k] = 1 if rng.random() < 0.6 else 0
                placed = []
                if rng.random() < 0.8:
                    # second request: while stalled / on the accept cycle / first idle cycle after it / later
                    o = rng.choice([s + 1, s + 1, s + 2, s + 2, rng.randint(1, s + 1), rng.randint(1, s + 4)])
                    t2 = t1 if rng.random() < 0.4 else rng.randrange(3)
                    ln = rng.choice([1, 1, 1, 2, 3])
                    if rng.random() < 0.15:
                        o, ln = max(1, s), 3                           # held across the accept cycle
                    for k in range(o, min(n, o + ln)):
                        reqs[k][t2] = 1
                    placed.append((o, ln, t2))
                    if rng.random() < 0.3:
                        o3 = min(n - 1, o + ln + rng.randint(0, 2))
                        t3 = rng.randrange(3)
                        reqs[o3][t3] = 1
                        placed.append((o3, 1, t3))
                if len(res.desc["episodes"]) < 8:
                    res.desc["episodes"].append({"first": first, "stall": s, "ready0": ready[0], "more": placed})
                for k in range(n):
                    apply(tuple(reqs[k]), ready[k])
                    yield
            else:
                # ---- random burst
                res.bin("random_burst")
                p_req = rng.choice([0.1, 0.3, 0.6, 0.9])
                p_rdy = rng.choice([0.1, 0.3, 0.5, 0.9, 1.0])
                for _ in range(rng.randint(10, 40)):
                    r = (0, 0, 0)
                    if rng.random() < p_req:
                        r = one_hot(rng.randrange(3))
                        if rng.random() < 0.02:
                            r = (1, 1, rng.randrange(2))
                            quiet_tail = LATENCY + 5
                    apply(r, 1 if rng.random() < p_rdy else 0)
                    yield
                if quiet_tail > 3:
                    quiet_tail += LATENCY
            # drain: ready offered, no requests
            for _ in range(quiet_tail + rng.randint(0, 2)):
                apply((0, 0, 0), 1)
                yield
            for _ in range(rng.choice([0, 0, 1, 3])):
                apply((0, 0, 0), rng.randrange(2))
                yield
        for _ in range(LATENCY + 6):
            apply((0, 0, 0), 1)
            yield
        gen_done["v"] = True

    # =========================================================================== detector stimulus
    def make_packet():
        r = rng.random()
        hs = rng.choice([ACK, NAK, STALL, NYET])
        if r < 0.36:
            return bytes([pid_byte(hs)]), "handshake"
        if r < 0.42:
            return bytes([pid_byte(hs)]), "handshake_long_tail"
        if r < 0.52:
            byte = pid_byte(hs)
            w = rng.random()
            if w < 0.6:
                byte ^= 1 << rng.randrange(8)
            elif w < 0.8:
                byte = (hs << 4) | hs
            else:
                byte = (byte & 0x0F) | (rng.randrange(16) << 4)
            return bytes([byte]), "badnibble"
        if r < 0.68:
            n = rng.choice([2, 2, 2, 3, 4])
            w = rng.random()
            if w < 0.35:
                return bytes([pid_byte(hs)] * n), "long+same_handshake_twice"
            if w < 0.5:
                return bytes([pid_byte(hs), pid_byte(rng.choice([ACK, NAK, STALL, NYET]))]), "long_two_handshakes"
            if w < 0.65:
                a, e = rng.randrange(128), rng.randrange(16)
                v = a | (e << 7)
                return bytes([pid_byte(hs), v & 0xFF, (v >> 8) | (usb2_token_crc5(a, e) << 3)]), "long_token_shaped"
            if w < 0.82:
                # a malformed / foreign first byte followed by a perfect handshake byte inside the same packet
                first = rng.choice([pid_byte(hs) ^ (1 << rng.randrange(8)), rng.randrange(256), pid_byte(rng.choice([0x3, 0xB, 0x1, 0x9, 0x0]))])
                if first == pid_byte(first & 0xF) and (first & 0xF) in HS_NAMES:
                    first ^= 0x10
                return bytes([first, pid_byte(hs)]), "tail+tail_is_handshake"
            return bytes([pid_byte(hs)] + [rng.randrange(256) for _ in range(n - 1)]), "long"
        if r < 0.78:
            pid = rng.choice([0x1, 0x9, 0x5, 0xD, 0x3, 0xB, 0x7, 0xF, 0xC, 0x8, 0x4, 0x0])
            return bytes([pid_byte(pid)]), "other1"
        if r < 0.87:
            a, e = rng.randrange(128), rng.randrange(16)
            v = a | (e << 7)
            pid = rng.choice([0x1, 0x9, 0x5, 0xD, 0x4])
            return bytes([pid_byte(pid), v & 0xFF, (v >> 8) | (usb2_token_crc5(a, e) << 3)]), "token+token"
        if r < 0.95:
            payload = bytes(rng.choice([pid_byte(hs), rng.randrange(256)]) for _ in range(rng.randint(0, 6)))
            return bytes([pid_byte(rng.choice([0x3, 0xB]))]) + payload + usb2_crc16(payload), "data+data"
        return b"", "empty"

    def rx_driver():
        if dev is not None:
            b.set(utmi.line_state, 0b01)
            b.set(dev.connect, 1)
        yield from wire.idle(rng.randint(2, 6))
        n = rng.randint(40, 110)
        i = 0
        while i < n or not gen_done["v"]:
            if i >= n:
                # keep the receive side alive (sparser) until the generator script is finished
                yield from wire.idle(rng.randint(5, 30))
            i += 1
            pkt, label = make_packet()
            profile, lead, gaps, trail = wire.timing(len(pkt))
            if label == "handshake_long_tail":
                trail = rng.randint(9, 24)
            if len(pkt) >= 2 and rng.random() < 0.3:
                # first byte, a long pause, then the rest: the packet is long although it looked finished
                profile, gaps = "onestall", [0, rng.randint(5, 20)] + [0] * (len(pkt) - 2)
                label += "+long_after_gap" if expected_detection(pkt)[1] in ("long_2", "long_3", "long_4") else ""
            res.bin("gap_" + profile)
            res.sig(pkt, lead, gaps, trail)
            if len(res.desc["packets"]) < 10:
                res.desc["packets"].append([label, pkt.hex(), lead, gaps, trail])
            yield from wire.send(pkt, lead=lead, gaps=gaps, trail=trail, label=label)
            idle = rng.choice([0, 0, 0, 1, 2, rng.randint(3, 11)])
            res.sig(idle)
            yield from wire.idle(idle)
            if i > 4 * n + 400:
                break
        yield from wire.idle(WINDOW + 4)

    b.add_monitor(monitor)
    b.add_driver(gen_driver())
    b.add_driver(rx_driver())
    b.run()
    res.cycles = b.cycle
    if b.hit_max_cycles:
        res.violation("harness_max_cycles", "case did not finish in %d cycles" % b.max_cycles)
    if wire.illegal:
        res.violation("harness_illegal_stimulus", "rx_valid without rx_active in %d cycles" % wire.illegal)
    if G["exp"] is not None and not G["unknown"]:
        res.violation("handshake_never_accepted", "%s requested at cyc %d still outstanding at the end of the case although tx_ready was offered" %
                      (G["exp"]["name"], G["exp"]["t"]))
    res.nontrivial = (len(G["types"]) == 3 and G["busy_reqs"] > 0 and len(D["kinds"]) == 4 and len(D["reasons"]) >= 3)
