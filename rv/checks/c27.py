"""C27 — constant-stream generators emit exactly the requested slice.

DUTs (real luna objects, one per case, chosen at random):
  * ConstantStreamGenerator, 8-bit payload (bytes), with / without `max_length_width`
  * ConstantStreamGenerator, 32-bit payload / 4 valid bits, little and big endian (bytes input)
  * ConstantStreamGenerator, 16-bit payload / 2 valid bits (bytes input) and 32-bit payload / 1 valid bit
  * ConstantStreamGenerator fed with a list of integers (odd payload widths 5/12/16 bit, 1 valid bit)
  * StreamSerializer (runtime data array, 8 bit; wider words only without max_length port)

Workload: a case is a *session* of 10-30 runs on one DUT.  Every run draws a start position (all in-range word
positions, directed at 0 / last word / out of range when the start_position signal can represent it) and a
max_length (0, 1, W-1, W, W+1, rest-1, rest, rest+1, multiples of the word size, data length, data length+5,
random).  Inputs carry garbage between runs and are applied either exactly in the start cycle or a few cycles
earlier; for the constant generator ("applied when start() is pulsed", max_length is registered) they are
overwritten with garbage after the start strobe in 30 % of the runs (max_length only, or max_length and
start_position), for the serializer (no latch documented) they are held until `done`.  The generator lives in
clock domain sync / usb / ss / aux (then `sync` runs at an unrelated 23..131 MHz as a bystander), `data_width` is
passed or omitted (width taken from the stream type), the serializer also gets a max_length port with 16/32-bit
items (max_length may count items or bytes there: the first run that tells the two apart fixes the reading).  `start` is a one-cycle strobe, issued only while the generator is idle; the next start comes
0..6 cycles after `done` (0 = the very next cycle).  `ready` profiles: always, random p, bursty, toggle, plus
directed stalls of 1..9 cycles exactly on the first word, on the last word and on the word before the last.

Monitor (per cycle, on the values the flip-flops saw): start/start_position/max_length as *sampled* in the start
cycle define the expectation; every cycle with valid != 0 is compared with the expected word (so a payload that
changes during a stall is seen); a word is consumed on valid & ready; `done` strobes are counted.

Oracle (independent, written from the statement): expected bytes = data[p*W : p*W + min(max_length, rest)]
(W = bytes per word, p in words, max_length in bytes), cut in words of W bytes; `first` exactly on word 0, `last`
exactly on the final word, valid mask = all ones on full words and exactly k ones on a final word with k bytes
(for little endian: the k low lanes), the valid byte lanes spell the expected bytes in the configured byte
order, invalid lanes are don't-care; exactly one `done` cycle within 8 cycles after the final word was accepted
and none elsewhere; nothing at all (no valid) for max_length == 0; `output_length` (when present) equals
min(max_length, data length) while streaming (with a non-zero start position min(max_length, remaining length)
is accepted as well, the documentation is ambiguous there; judged only for byte-string constants).  Bubbles (valid low between words) are tolerated up
to 8 cycles.  A python `icontract` post-condition wrapped (harness side) around
`ConstantStreamGenerator._get_initializer_value` requires the ROM initializer to decode back to the constant.

Not judged: out-of-range start positions are judged for termination and framing only (terminates with exactly
one done, `last` exactly on the final accepted word, at most 4x the data's word count); `done` is not demanded
(nor forbidden) for max_length == 0; inputs changing while a stream is running; start strobes while not idle;
latency between start and the first word is only bounded (8 cycles).  For 32-bit words with a single valid bit
the padding bytes of a partial final word are not judged.
"""
from rv.sim import Bench

PROPERTY = "C27"
CASES = {"quick": 640, "thorough": 12800}
RULE = ("case = one generator configuration (kind, data of 1..70 bytes, word width, endianness, with/without max_length port) "
        "and a session of 12-36 runs (start position, max_length, ready profile, restart delay); non-trivial = the session "
        "contained a run ended by max_length, a run ended by the data length and a stall on a last word; distinct = hash of "
        "configuration + run parameters + ready stream")
REQUIRED_BINS = [
    "kind_const8", "kind_const32le", "kind_const32be", "kind_const16v2", "kind_const32v1", "kind_ints", "kind_serializer",
    "no_max_length_port", "max_length_zero", "max_length_one", "end_by_max_length", "end_by_data_length",
    "end_by_both_exact", "partial_word_by_max_length", "partial_word_by_data_length", "both_end_conditions_partial",
    "start_nonzero", "start_last_word", "start_out_of_range", "single_word_run", "stall_on_last_word", "stall_on_first_word",
    "restart_next_cycle", "run_after_zero_length", "max_length_above_data", "inputs_applied_in_start_cycle",
    "big_endian_partial_word", "domain_sync", "domain_other", "sync_bystander_faster", "sync_bystander_slower",
    "data_width_omitted", "serializer_wide_with_max_length", "inputs_changed_after_start",
    "start_position_changed_after_start", "max_length_changed_after_start",
]
REQUIRED_EVENTS = ["runs_judged", "words_compared", "words_accepted", "done_pulses", "zero_length_runs_judged",
                   "output_length_compared", "valid_cycles_compared", "initializer_postcondition_checked",
                   "oob_runs_judged", "partial_words_compared"]
ASSUMPTIONS = [
    "start is a one-cycle strobe issued while the generator is idle; start_position/max_length (and the serializer data array) are held from the start cycle until done",
    "start positions outside the data are judged for termination/framing only",
    "response latency is bounded (8 cycles) but not fixed; bubbles between words up to 8 cycles are tolerated",
    "valid bit i covers payload bits [8i+7:8i]; for little endian a partial word uses the low lanes",
]

WAIT = 8          # generous window (cycles) for first word / next word / done


def _popcount(v):
    return bin(v).count("1")


# --------------------------------------------------------------------------------------------- reference

class Config:
    """Generator configuration + independent slice model."""

    def __init__(self, rng):
        r = rng.random()
        self.kind = ("const8" if r < 0.26 else "const32le" if r < 0.46 else "const32be" if r < 0.58 else
                     "const16v2" if r < 0.66 else "const32v1" if r < 0.73 else "ints" if r < 0.81 else "serializer")
        k = self.kind
        self.endian = "big" if k == "const32be" or (k in ("const16v2", "const32v1") and rng.random() < 0.4) else "little"
        self.W = {"const8": 1, "const32le": 4, "const32be": 4, "const16v2": 2, "const32v1": 4}.get(k, 1)
        self.vw = {"const32le": 4, "const32be": 4, "const16v2": 2}.get(k, 1)
        self.pw = 8 * self.W
        if k == "serializer":
            n = rng.choice([1, 2, 2, 3, 4, 5, 7, 8, 9, 12, 16, rng.randint(1, 24)])
            self.pw = rng.choice([8, 8, 8, 16, 16, 32, 32])
            self.items = [rng.randrange(1 << self.pw) for _ in range(n)]
            self.bpw = 1                      # the serializer counts words
        elif k == "ints":
            self.pw = rng.choice([5, 12, 16, 9])
            n = rng.choice([1, 2, 3, 5, 8, 13, 16, 17, rng.randint(1, 40)])
            self.items = [rng.randrange(1 << self.pw) for _ in range(n)]
            self.bpw = (self.pw + 7) // 8
        else:
            n = rng.choice([1, 2, 3, 4, 5, 7, 8, 9, 11, 12, 15, 16, 17, 31, 32, 33, 64, 70,
                            rng.randint(1, 70), rng.randint(1, 70), rng.randint(1, 70), rng.randint(1, 24)])
            style = rng.random()
            if style < 0.6:
                # unambiguous history: position mixed into every byte
                salt = rng.randrange(256)
                self.data = bytes(((i * 37) ^ salt ^ (i >> 3)) & 0xFF for i in range(n))
            elif style < 0.8:
                self.data = bytes(rng.randrange(256) for _ in range(n))
            else:
                self.data = bytes(rng.choice([0x00, 0xFF, 0x80, 0x01]) for _ in range(n))
            self.items = None
            self.bpw = self.W
        self.bytes_mode = self.items is None
        self.nbytes = len(self.data) if self.bytes_mode else len(self.items) * self.bpw
        self.nwords = (len(self.data) + self.W - 1) // self.W if self.bytes_mode else len(self.items)
        # length of the constant as the DUT's constructor sees it (range of start_position)
        self.ctor_len = len(self.data) if self.bytes_mode else len(self.items)
        self.sp_bits = max(0, (self.ctor_len - 1).bit_length())
        # max_length port
        if rng.random() < (0.5 if (k == "serializer" and self.pw != 8) else 0.22):
            self.mlw = None
        else:
            need = (self.nbytes + 5).bit_length()
            self.mlw = rng.choice([need, need, 16, 16, max(1, self.nbytes.bit_length()), rng.randint(max(1, need - 2), 16)])
        self.max_m = (1 << self.mlw) - 1 if self.mlw else None
        # the serializer's max_length with 16/32-bit data: "maximum length" may count items or bytes; decided by the
        # first run in which the two readings differ, then demanded consistently
        self.ser_wide = k == "serializer" and self.pw != 8
        self.ser_unit = None
        self.ser_bpw = self.pw // 8
        # clock domain the generator is asked to live in (all users inside luna pass "usb" or "ss")
        self.domain = rng.choice(["sync", "sync", "usb", "usb", "ss", "aux"])
        self.sync_freq = rng.choice([23e6, 41e6, 97e6, 131e6])       # bystander clock, unrelated to the 60 MHz of the DUT's domain
        # data_width omitted: the width comes from the stream type (what the in-tree users do)
        self.dw_none = rng.random() < 0.4 and (k != "serializer" or self.pw == 8)

    def describe(self):
        d = {"kind": self.kind, "endian": self.endian, "payload_width": self.pw, "valid_width": self.vw,
             "max_length_width": self.mlw, "words": self.nwords, "bytes": self.nbytes, "domain": self.domain,
             "data_width_omitted": self.dw_none}
        if self.bytes_mode:
            d["data"] = self.data.hex()
        return d

    def alternative(self, p, m):
        """serializer with wide items, reading of max_length still open: the beats under the 'bytes' reading, if it differs"""
        if not self.ser_wide or self.ser_unit is not None or m is None or p >= self.nwords:
            return None
        rest = self.items[p:]
        a = rest[:(m + self.ser_bpw - 1) // self.ser_bpw]
        if len(a) == len(rest[:m]) or not a:
            return None
        beats = [{"word": w, "k": self.bpw, "full": True, "first": i == 0, "last": i == len(a) - 1} for i, w in enumerate(a)]
        return beats

    def data_length_for_output(self):
        return self.ctor_len

    def expected(self, p, m):
        """Expected list of beats for start position p (words) and max_length m (bytes; None = unlimited).
        Each beat: dict(bytes=[...] | word=int, k=valid bytes, full=bool, first, last).  None if p is outside the data."""
        if p >= self.nwords:
            return None
        if self.bytes_mode:
            rest = self.data[p * self.W:]
            if m is not None:
                rest = rest[:m]
            beats = []
            for i in range(0, len(rest), self.W):
                chunk = rest[i:i + self.W]
                beats.append({"bytes": list(chunk), "k": len(chunk), "full": len(chunk) == self.W})
        else:
            rest = self.items[p:]
            if m is not None:
                unit = self.ser_bpw if (self.ser_wide and self.ser_unit == "bytes") else self.bpw
                rest = rest[:(m + unit - 1) // unit]
            beats = [{"word": w, "k": self.bpw, "full": True} for w in rest]
        for i, bt in enumerate(beats):
            bt["first"] = i == 0
            bt["last"] = i == len(beats) - 1
        return beats


# --------------------------------------------------------------------------------------------- DUT construction

def build(cfg, res):
    from luna.gateware.stream import StreamInterface
    from luna.gateware.stream.generator import ConstantStreamGenerator, StreamSerializer
    import icontract

    if cfg.kind == "serializer":
        kw = {} if cfg.dw_none else {"data_width": cfg.pw}
        return StreamSerializer(data_length=len(cfg.items), domain=cfg.domain, stream_type=StreamInterface,
                                max_length_width=cfg.mlw, **kw)

    # harness-side post-condition on the ROM initializer (python level, evaluated during elaboration)
    def roundtrip(result):
        res.event("initializer_postcondition_checked")
        init, last_bytes = result
        init = list(init)
        if not cfg.bytes_mode:
            return init == cfg.items
        if cfg.W == 1:
            return bytes(init) == cfg.data
        full, tail = divmod(len(cfg.data), cfg.W)
        if len(init) != cfg.nwords:
            return False
        if last_bytes != (tail or cfg.W):
            return False
        for i, w in enumerate(init):
            n = cfg.W if (i < full) else tail
            exp = cfg.data[i * cfg.W:i * cfg.W + n]
            if not 0 <= int(w) < (1 << (8 * cfg.W)):
                return False
            word = int(w).to_bytes(cfg.W, cfg.endian)
            # a partial final word may be padded on either side in big-endian mode (layout not specified)
            if not (word[:n] == exp or (cfg.endian == "big" and word[cfg.W - n:] == exp)):
                return False
        return True

    orig = ConstantStreamGenerator._get_initializer_value
    wrapped = icontract.ensure(roundtrip, "ROM initializer decodes back to the constant")(orig)

    vw, pw = cfg.vw, cfg.pw

    def stream_type(payload_width=pw):
        return StreamInterface(payload_width=payload_width, valid_width=vw)

    const = cfg.data if cfg.bytes_mode else list(cfg.items)
    dut = ConstantStreamGenerator(const, domain=cfg.domain, stream_type=stream_type, max_length_width=cfg.mlw,
                                  data_width=None if cfg.dw_none else pw, data_endianness=cfg.endian)
    # instance-level wrap: behaviour unchanged, result checked
    dut._get_initializer_value = lambda: wrapped(dut)
    return dut


def with_bystander(dut):
    """top level that keeps a `sync` domain alive next to a generator living in another domain"""
    from amaranth import Elaboratable, Module, Signal

    class Top(Elaboratable):
        def elaborate(self, platform):
            m = Module()
            m.submodules.dut = dut
            tick = Signal(8)
            m.d.sync += tick.eq(tick + 1)
            return m
    return Top()


# --------------------------------------------------------------------------------------------- check

IDLE, EXPECT, WAIT_DONE, ZERO, RECOVER = "idle", "expect", "wait_done", "zero", "recover"


def run_case(rng, tier, res):
    import icontract
    cfg = Config(rng)
    res.bin("kind_" + cfg.kind)
    if cfg.mlw is None:
        res.bin("no_max_length_port")
    res.desc = {"config": cfg.describe(), "runs": []}
    res.sig(sorted(cfg.describe().items()))
    dut = build(cfg, res)
    res.bin("domain_sync" if cfg.domain == "sync" else "domain_other")
    if cfg.dw_none:
        res.bin("data_width_omitted")
    if cfg.ser_wide and cfg.mlw:
        res.bin("serializer_wide_with_max_length")
    try:
        if cfg.domain == "sync":
            b = Bench(dut, domain="sync", freq=60e6, max_cycles=40000)
        else:
            res.bin("sync_bystander_faster" if cfg.sync_freq > 60e6 else "sync_bystander_slower")
            b = Bench(with_bystander(dut), domain=cfg.domain, freq=60e6, clocks={"sync": cfg.sync_freq}, max_cycles=40000)
    except icontract.ViolationError as e:
        res.violation("initializer_roundtrip_wrong", "config=%s: %s" % (cfg.describe(), str(e)[:300]))
        return
    except NameError as e:
        if "is not present in simulation" not in str(e):
            raise
        res.violation("generator_not_in_requested_clock_domain", "config=%s: %s" % (cfg.describe(), e))
        return
    except AttributeError as e:
        if cfg.mlw is None and cfg.kind != "serializer":
            # the documented configuration "no max_length_width" cannot be elaborated at all
            res.bin("const_without_max_length_port_attempted")
            res.violation("const_generator_without_max_length_width_fails_to_elaborate",
                          "config=%s: %s: %s" % (cfg.describe(), type(e).__name__, str(e)[:200]))
            return
        raise
    st = dut.stream
    has_ml = cfg.mlw is not None
    has_ol = has_ml and cfg.bytes_mode and hasattr(dut, "output_length")
    sigs = [dut.start, dut.done, st.valid, st.ready, st.first, st.last, st.payload]
    if cfg.sp_bits:
        sigs.append(dut.start_position)
    if has_ml:
        sigs.append(dut.max_length)
    if has_ol:
        sigs.append(dut.output_length)
    b.watch(*sigs)
    W, vw = cfg.W, cfg.vw
    full_mask = (1 << vw) - 1

    o = {"state": IDLE, "beats": None, "idx": 0, "quiet": 0, "wait": 0, "p": 0, "m": None, "oob": False,
         "accepted": 0, "done_seen": 0, "zero_left": 0, "run": None, "stalled_here": 0, "abort": False,
         "last_done_cycle": -10, "prev_zero": False}
    flags = {"max": False, "data": False, "stall_last": False}

    def ctx():
        return "cyc=%d kind=%s/%s L=%d W=%d mlw=%s p=%s m=%s idx=%d" % (
            b.cycle, cfg.kind, cfg.endian, cfg.nbytes, W, cfg.mlw, o["p"], o["m"], o["idx"])

    def fail(mech, detail):
        res.violation(mech, "%s :: %s" % (ctx(), detail))
        o["state"], o["quiet"], o["wait"] = RECOVER, 0, 0

    def lanes_ok(bt, valid, payload):
        """valid lanes spell the expected bytes in the configured byte order."""
        exp = bt["bytes"]
        if vw == 1:
            if bt["full"]:
                return payload == int.from_bytes(bytes(exp), cfg.endian), "word"
            # a single valid bit carries no per-byte information: the word only has to contain the bytes
            # (little endian: in the low bytes; big endian: as a run at any byte offset)
            k = bt["k"]
            km = (1 << (8 * k)) - 1
            if cfg.endian == "little":
                return (payload & km) == int.from_bytes(bytes(exp), "little"), "partial_word"
            want = int.from_bytes(bytes(exp), "big")
            return any(((payload >> (8 * sh)) & km) == want for sh in range(W - k + 1)), "partial_word"
        lanes = [i for i in range(vw) if (valid >> i) & 1]
        if cfg.endian == "big":
            lanes = lanes[::-1]
        got = [(payload >> (8 * i)) & 0xFF for i in lanes]
        return got == exp, "lanes"

    def check_beat(bt, valid, payload, first, last):
        """compare one offered word with the expectation; returns False after reporting a violation."""
        res.event("valid_cycles_compared")
        if bool(first) != bt["first"]:
            if o.get("sp_changed") and cfg.kind != "serializer":
                # start_position is documented as "applied when start() is pulsed"
                fail("first_flag_follows_start_position_changed_after_start", "first=%d, start_position changed after the start strobe" % first)
            else:
                fail("first_missing_on_first_word" if bt["first"] else "first_on_later_word", "first=%d" % first)
            return False
        alt = o.get("alt")
        if bool(last) != bt["last"] and alt and last and o["idx"] == len(alt) - 1:
            # wide serializer: this DUT reads max_length in bytes, not in items; from now on that reading is demanded
            cfg.ser_unit = "bytes"
            o["beats"], o["alt"] = alt, None
            bt = alt[o["idx"]]
        elif alt and o["idx"] == len(alt) - 1 and not last:
            cfg.ser_unit = "items"
            o["alt"] = None
        if bool(last) != bt["last"]:
            fail("last_missing_on_final_word" if bt["last"] else "last_before_final_word",
                 "last=%d expected beats=%d" % (last, len(o["beats"])))
            return False
        if "word" in bt:
            if valid != 1:
                fail("valid_mask_wrong", "valid=%#x" % valid)
                return False
            if payload != bt["word"]:
                fail("payload_wrong", "payload=%#x expected=%#x" % (payload, bt["word"]))
                return False
            return True
        if bt["full"] or vw == 1:
            if valid != full_mask:
                fail("valid_mask_wrong_on_full_word", "valid=%#x expected=%#x" % (valid, full_mask))
                return False
        else:
            k = bt["k"]
            ok_mask = (1 << k) - 1
            accept = {ok_mask} if cfg.endian == "little" else {ok_mask, ok_mask << (vw - k)}
            if valid not in accept:
                why = "max_length" if (o["m"] is not None and o["m"] < cfg.nbytes - o["p"] * W) else "data_length"
                fail("valid_mask_wrong_on_partial_word_by_" + why, "valid=%#x expected %d byte(s) valid" % (valid, k))
                return False
        ok, what = lanes_ok(bt, valid, payload)
        if not ok:
            partial = not bt["full"]
            by_max = o["m"] is not None and o["m"] < cfg.nbytes - o["p"] * W
            if partial and cfg.endian == "big" and by_max and vw > 1:
                mech = "big_endian_partial_word_by_max_length_flags_wrong_byte_lanes"
            elif partial and cfg.endian == "big" and by_max:
                mech = "big_endian_partial_word_by_max_length_payload_wrong"
            elif partial:
                mech = "payload_wrong_on_partial_word"
            else:
                mech = "payload_wrong"
            fail(mech, "payload=%#x valid=%#x expected bytes=%s (%s)" % (payload, valid, bytes(bt["bytes"]).hex(), what))
            return False
        return True

    def monitor(b):
        start, done, valid, ready = b.get(dut.start), b.get(dut.done), b.get(st.valid), b.get(st.ready)
        first, last, payload = b.get(st.first), b.get(st.last), b.get(st.payload)
        s = o["state"]
        if done:
            res.event("done_pulses")
        if s == IDLE:
            if valid:
                fail("valid_outside_run", "valid=%#x with no run started" % valid)
                return
            if done:
                fail("done_outside_run", "done with no run in progress")
                return
            if start:
                p = b.get(dut.start_position) if cfg.sp_bits else 0
                m = b.get(dut.max_length) if has_ml else None
                o.update(p=p, m=m, idx=0, wait=0, accepted=0, done_seen=0, stalled_here=0)
                if m == 0:
                    o["state"], o["zero_left"] = ZERO, o["zero_watch"]
                    return
                beats = cfg.expected(p, m)
                o["beats"], o["oob"] = beats, beats is None
                o["alt"] = cfg.alternative(p, m)
                o["state"] = EXPECT
            return
        if s == ZERO:
            if valid:
                fail("emitted_with_zero_max_length", "valid=%#x after start with max_length 0" % valid)
                return
            o["zero_left"] -= 1
            if o["zero_left"] <= 0:
                res.event("zero_length_runs_judged")
                o["state"], o["prev_zero"] = IDLE, True
            return
        if s == EXPECT:
            if done:
                fail("done_before_final_word", "done while %d word(s) outstanding" % (0 if o["oob"] else len(o["beats"]) - o["idx"]))
                return
            if not valid:
                o["wait"] += 1
                if o["wait"] > WAIT:
                    fail("stream_never_started" if o["accepted"] == 0 else "stream_stopped_before_final_word",
                         "no valid for %d cycles, accepted=%d" % (o["wait"], o["accepted"]))
                return
            o["wait"] = 0
            if o["oob"]:
                # framing/termination only
                if o["accepted"] >= 4 * cfg.nwords + 8:
                    fail("oob_start_no_termination", "accepted=%d words=%d" % (o["accepted"], cfg.nwords))
                    return
                if ready:
                    o["accepted"] += 1
                    res.event("words_accepted")
                    if last:
                        o["state"], o["wait"] = WAIT_DONE, 0
                return
            bt = o["beats"][o["idx"]]
            if has_ol:
                ol = b.get(dut.output_length)
                res.event("output_length_compared")
                acc = {min(o["m"], cfg.data_length_for_output())}
                if o["p"]:
                    acc.add(min(o["m"], max(0, cfg.nbytes - o["p"] * cfg.bpw)))
                if ol not in acc:
                    fail("output_length_wrong", "output_length=%d expected %s" % (ol, sorted(acc)))
                    return
            if not check_beat(bt, valid, payload, first, last):
                return
            if not ready:
                o["stalled_here"] += 1
            if ready:
                res.event("words_compared")
                res.event("words_accepted")
                if not bt["full"]:
                    res.event("partial_words_compared")
                if o["stalled_here"]:
                    if bt["last"]:
                        res.bin("stall_on_last_word")
                        flags["stall_last"] = True
                    if bt["first"]:
                        res.bin("stall_on_first_word")
                o["stalled_here"] = 0
                o["accepted"] += 1
                o["idx"] += 1
                if o["idx"] == len(o["beats"]):
                    o["state"], o["wait"] = WAIT_DONE, 0
            return
        if s == WAIT_DONE:
            if valid:
                fail("word_after_final_word" if not o["oob"] else "oob_start_word_after_last",
                     "valid=%#x payload=%#x last=%d after the final word was accepted" % (valid, payload, last))
                return
            if done:
                res.event("oob_runs_judged" if o["oob"] else "runs_judged")
                o["state"], o["last_done_cycle"], o["prev_zero"] = IDLE, b.cycle, False
                return
            o["wait"] += 1
            if o["wait"] > WAIT:
                fail("done_missing", "no done within %d cycles after the final word" % WAIT)
            return
        if s == RECOVER:
            o["wait"] += 1
            o["quiet"] = 0 if (valid or done) else o["quiet"] + 1
            if o["quiet"] >= 12:
                o["state"] = IDLE
            elif o["wait"] > 400:
                o["abort"] = True
                b.stop()

    # ------------------------------------------------------------------ driver
    ready_state = {"profile": "always", "directed": None}

    def draw_ready():
        prof = ready_state["profile"]
        if prof == "always":
            return 1
        if prof == "toggle":
            return b.cycle & 1
        if prof[0] == "random":
            return 1 if rng.random() < prof[1] else 0
        if prof[0] == "bursty":
            stt = ready_state.setdefault("burst", [0, 1])
            if stt[0] <= 0:
                stt[1] ^= 1
                stt[0] = rng.randint(1, prof[1] if stt[1] == 0 else prof[2])
            stt[0] -= 1
            return stt[1]
        return 1

    def ready_driver():
        # directed stalls need to know which word is on offer: use the oracle position (state of the reference)
        hold = 0
        target_done = set()
        while True:
            d = ready_state["directed"]
            r = draw_ready()
            if o["state"] == EXPECT and d and not o["oob"] and o["beats"]:
                n = len(o["beats"])
                idx = o["idx"]
                key = (o["run"], idx)
                for where, cycles in d:
                    pos = {"first": 0, "last": n - 1, "before_last": n - 2}[where]
                    if idx == pos and (key, where) not in target_done:
                        target_done.add((key, where))
                        hold = max(hold, cycles)
            if o["state"] in (RECOVER,):
                r = 1
                hold = 0
            if hold > 0:
                hold -= 1
                r = 0
            b.set(st.ready, r)
            res.sig(r)
            yield

    def garbage_inputs(sp=True):
        if cfg.sp_bits and sp:
            b.set(dut.start_position, rng.randrange(1 << cfg.sp_bits))
        if has_ml:
            b.set(dut.max_length, rng.randrange(cfg.max_m + 1))
        if cfg.kind == "serializer" and rng.random() < 0.5:
            for sgn in dut.data:
                b.set(sgn, rng.randrange(1 << cfg.pw))

    def apply_inputs(p, m):
        if cfg.sp_bits:
            b.set(dut.start_position, p)
        if has_ml:
            b.set(dut.max_length, m)
        if cfg.kind == "serializer":
            for sgn, v in zip(dut.data, cfg.items):
                b.set(sgn, v)

    def draw_run():
        nw = cfg.nwords
        # start position (in words)
        r = rng.random()
        sp_max = (1 << cfg.sp_bits) - 1
        if r < 0.30 or sp_max == 0:
            p = 0
        elif r < 0.42:
            p = min(nw - 1, sp_max)
        elif r < 0.54 and sp_max >= nw:
            p = rng.choice([nw, sp_max, rng.randint(nw, sp_max)])
        else:
            p = rng.randrange(min(nw, sp_max + 1))
        rest = max(0, cfg.nbytes - p * cfg.bpw)
        m = None
        if has_ml:
            bw = cfg.bpw
            cands = [0, 1, bw - 1, bw, bw + 1, rest - 1, rest, rest + 1, cfg.nbytes, cfg.nbytes + 5, 2 * bw, 3 * bw,
                     rest - bw, rest - bw + 1, rest - bw - 1, (rest // bw) * bw, rng.randint(0, cfg.nbytes + 5),
                     rng.randint(1, cfg.nbytes + 5), rng.randint(1, max(1, rest)), rng.randint(1, max(1, rest)), cfg.max_m]
            if o["prev_zero"] is False and rng.random() < 0.10:
                cands = [0]
            cands = [c for c in cands if 0 <= c <= cfg.max_m]
            m = rng.choice(cands)
        return p, m

    def classify_run(p, m):
        nw = cfg.nwords
        if p >= nw:
            res.bin("start_out_of_range")
            return
        if p:
            res.bin("start_nonzero")
        if p == nw - 1 and nw > 1:
            res.bin("start_last_word")
        rest = cfg.nbytes - p * cfg.bpw
        if m is not None:
            if m == 0:
                res.bin("max_length_zero")
                return
            if m == 1:
                res.bin("max_length_one")
            if m > cfg.nbytes:
                res.bin("max_length_above_data")
            if m < rest:
                res.bin("end_by_max_length")
                flags["max"] = True
                if cfg.bytes_mode and m % cfg.W:
                    res.bin("partial_word_by_max_length")
                    if cfg.endian == "big":
                        res.bin("big_endian_partial_word")
                    # final word is also the last data word, and the max_length cuts it shorter than the data does
                    if (p * cfg.W + m - 1) // cfg.W == nw - 1:
                        res.bin("both_end_conditions_partial")
            elif m == rest:
                res.bin("end_by_both_exact")
                flags["data"] = True
            else:
                res.bin("end_by_data_length")
                flags["data"] = True
        else:
            res.bin("end_by_data_length")
            flags["data"] = True
        if cfg.bytes_mode and (m is None or m >= rest) and rest % cfg.W:
            res.bin("partial_word_by_data_length")
            if cfg.endian == "big":
                res.bin("big_endian_partial_word")
        beats = cfg.expected(p, m)
        if beats is not None and len(beats) == 1:
            res.bin("single_word_run")

    def driver():
        b.set(dut.start, 0)
        garbage_inputs()
        for _ in range(rng.randint(1, 4)):
            yield
        n_runs = rng.randint(12, 36)
        for run in range(n_runs):
            o["run"] = run
            p, m = draw_run()
            # ready behaviour of this run
            ready_state["profile"] = rng.choice(["always", "always", "toggle", ("random", 0.5), ("random", 0.2), ("random", 0.85),
                                                 ("bursty", 6, 3), ("bursty", 3, 8)])
            directed = []
            if rng.random() < 0.5:
                directed.append(("last", rng.randint(1, 9)))
            if rng.random() < 0.3:
                directed.append(("first", rng.randint(1, 9)))
            if rng.random() < 0.25:
                directed.append(("before_last", rng.randint(1, 4)))
            ready_state["directed"] = directed
            # gap to the previous run
            gap = rng.choice([0, 0, 0, 1, 1, 2, 3, rng.randint(0, 6)])
            early = rng.random() < 0.5 and gap > 0
            o["zero_watch"] = rng.randint(6, 14)
            for g in range(gap):
                if early and g >= gap - rng.randint(1, gap):
                    apply_inputs(p, m if m is not None else 0)
                else:
                    garbage_inputs()
                yield
            if not early:
                res.bin("inputs_applied_in_start_cycle")
            if gap == 0 and b.cycle - o["last_done_cycle"] <= 1 and run > 0:
                res.bin("restart_next_cycle")
            if o["prev_zero"] and (m is None or m > 0):
                res.bin("run_after_zero_length")
            apply_inputs(p, m if m is not None else 0)
            b.set(dut.start, 1)
            classify_run(p, m)
            res.sig(p, m, gap, early, directed, ready_state["profile"])
            if len(res.desc["runs"]) < 8:
                res.desc["runs"].append({"start_position": p, "max_length": m, "gap": gap, "ready": str(ready_state["profile"]),
                                         "directed_stalls": directed})
            yield
            b.set(dut.start, 0)
            # inputs are "applied when start is pulsed": for the constant generator they may change afterwards
            # (the serializer documents no latch: its inputs are held)
            change = cfg.kind != "serializer" and rng.random() < 0.3
            o["sp_changed"] = False
            if change:
                res.bin("inputs_changed_after_start")
            waited = 0
            change_sp = change and (not has_ml or rng.random() < 0.4)
            if change:
                o["sp_changed"] = bool(cfg.sp_bits) and change_sp
                garbage_inputs(sp=change_sp)
                if o["sp_changed"]:
                    res.bin("start_position_changed_after_start")
                if has_ml:
                    res.bin("max_length_changed_after_start")
            yield
            while o["state"] != IDLE:
                waited += 1
                if change and rng.random() < 0.4:
                    garbage_inputs(sp=change_sp)
                if waited > 3000 or o["abort"]:
                    if not o["abort"]:
                        res.violation("harness_wait_timeout", ctx())
                    return
                yield
        for _ in range(4):
            yield

    b.add_monitor(monitor)
    b.add_driver(ready_driver(), main=False)
    b.add_driver(driver(), main=True)
    b.run()
    res.cycles = b.cycle
    if b.hit_max_cycles:
        res.violation("harness_max_cycles", "case did not finish in %d cycles" % b.max_cycles)
    res.nontrivial = flags["max"] and flags["data"] and flags["stall_last"] if has_ml else flags["data"]
