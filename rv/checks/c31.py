"""C31 — SuperSpeed scrambling uses the USB3 LFSR and descrambling inverts it.

DUTs (real luna classes, domain "ss"), one of four harnesses per case:
  lfsr : ScramblerLFSR(initial_value=iv) alone; clear/advance driven randomly; `value` compared every cycle.
  scr  : Scrambler(initial_value=iv) or Descrambler() alone; hostile word stream on `sink`, stalls on
         `source.ready`, `hold`, `clear` (only in cycles without a valid word) and `enable` phases.
  loop : Scrambler(iv) -> glue -> Descrambler(iv) in one design.  The glue models the two CTC stages of the
         physical layer: `insert` (hold=1, the word offered by the scrambler in that cycle is consumed and
         discarded, the descrambler sees no word = a SKP word was inserted and removed again) and `pause`
         (scrambler stalled alone).  Back-pressure from the descrambler's source stalls both.
  layer: the real USB3PhysicalLayer(phy=PIPEInterface(width=4)) with the PHY transmit pins wired to the receive pins;
         the testbench plays the link layer (a COM-led word to synchronise both LFSRs, bursts of tagged data/control
         words, stretches of logical idle with `can_send_skp`), so the real `hold` wiring is exercised: Scrambler ->
         CTCSkipInserter -> pins -> CTCSkipRemover -> RxWordAligner -> Descrambler -> RxPacketAligner.  The words
         leaving `source` must be the words accepted on `sink`, in order and unaltered, except that logical-idle
         words offered while SKP insertion was allowed may be missing (they were replaced by SKP words).

Workload: words of four (data, ctrl) symbols built from adversarial templates (COM in symbol 0 followed by data,
COM only in symbols 1..3, data byte 0xBC that is *not* a COM, all-control, all-data/zero words that expose the raw
keystream, random control masks), valid gaps with garbage on the payload, ready profiles from always to starved,
stalls placed on COM words and on the word after a COM, hold with and without a transfer, long runs without restart.

Oracle (rv/ref/c31_lfsr.py, bit-serial Galois LFSR from the specification, self-tested on the TSEQ vector): a
keystream position; every word transferred on the sink (valid & ready) is scrambled by the model (data symbols
XOR keystream byte i, control symbols and the ctrl bits unchanged) and queued; every word transferred on the source
is compared with the head of the queue (order/loss/duplication included; zero or more cycles of latency allowed).
The position advances by four symbols per transferred word unless `hold` is high, never on a stall, and restarts
when the transferred word has COM (0xBC, ctrl=1) in symbol 0 or when `clear` is strobed.  In loop mode the words
leaving the descrambler must be exactly the words that entered the scrambler (minus the discarded ones).

Not judged: data symbols while `enable` is low (pass-through is documented but not part of the statement; control
symbols and word order are still judged); the data symbols of a word taken in the very cycle `clear` is strobed
(all later words are judged from the restart); COM-led words offered while `hold` is high (never generated: the
statement does not decide whether a discarded COM restarts the sequence); which idle words the transmit CTC replaces and how often (C33); the start-up cycles
of the physical layer before the first COM-led word (the LFSRs of both directions are not yet synchronised).
"""
from rv.sim import Bench
from rv.ref import c31_lfsr as L

PROPERTY = "C31"
CASES = {"quick": 288, "thorough": 5000}
RULE = ("case = harness (lfsr | scr | loop | layer) x initial value x ready/valid profile x 150-500 template words (or 400-1200 "
        "cycles of clear/advance for lfsr); non-trivial = at least one restart by COM followed by scrambled data and one "
        "stall and one control symbol; distinct = hash of configuration and the full word/strobe script")
REQUIRED_BINS = ["mode_lfsr", "mode_scr", "mode_loop", "mode_layer", "layer_skp_removed", "layer_data_after_skp", "class_descrambler",
                 "com_sym0_then_data_word", "com_sym0_with_data_symbols", "com_only_in_sym1_3", "data_bc_in_sym0",
                 "four_com_word", "mixed_word", "all_ctrl_word", "zero_data_word",
                 "stall_on_data_word", "stall_on_com_word", "stall_on_word_after_com", "valid_gap", "hold_with_transfer",
                 "hold_while_stalled", "run_ge_64_words_without_restart", "clear_strobe", "clear_with_valid_word", "enable_low_phase",
                 "lfsr_default_iv",
                 "lfsr_clear_with_advance", "lfsr_advance_gap", "lfsr_run_ge_100",
                 "loop_insert", "loop_pause", "loop_backpressure", "iv_ffff", "iv_other"]
REQUIRED_EVENTS = ["lfsr_values_compared", "words_compared", "data_symbols_compared", "ctrl_symbols_compared",
                   "restarts_by_com", "loop_words_compared", "sink_transfers", "source_transfers", "layer_words_compared",
                   "layer_idle_words_replaced"]
ASSUMPTIONS = ["hold is a per-cycle side-band sampled in the cycle in which the word is taken from the sink",
               "clear restarts the keystream for every word taken in a later cycle; the data symbols of a word taken in the clear cycle itself are not judged",
               "a COM-led word offered while hold is high is not generated: the statement does not decide it (the physical layer discards the held word, "
               "so the receiver never sees that COM; restarting and not restarting are both defensible)",
               "Scrambler's constructor default initial_value is neither documented nor a specification value and is not relied on; "
               "ScramblerLFSR() and Descrambler() defaults are judged against the specification reset value 0xFFFF",
               "data symbols are not judged while enable is low",
               "the reference keystream is the bit-serial LFSR of USB 3.2 appendix B (self-test: TSEQ symbols)"]

COM = 0xBC
# mechanism of the finding on the unchanged tree (findings/C31.md): a COM-led word that waits for `ready` is put out
# scrambled with the restarted keystream, because the LFSR is cleared while the word is still waiting
KNOWN_STALLED_COM = "com_word_rescrambled_while_stalled"
K_SYMBOLS = [0x3C, 0x5C, 0x7C, 0x9C, 0xBC, 0xDC, 0xFB, 0xFD, 0xFE, 0xF7]


# ---------------------------------------------------------------------------------------------- reference
class RefScrambler:
    """keystream position tracker; no luna code"""

    def __init__(self, iv):
        self.iv = iv
        self.state = iv
        self.words_since_restart = 0

    def keystream(self):
        return L.word_step(self.state)[1]

    def scramble(self, data, ctrl, enable):
        ks = self.keystream()
        out = 0
        for i in range(4):
            byte = (data >> (8 * i)) & 0xFF
            if enable and not (ctrl >> i) & 1:
                byte ^= ks[i]
            out |= byte << (8 * i)
        return out

    def transferred(self, data, ctrl, hold):
        """a word was taken; returns True if the keystream restarted"""
        if (ctrl & 1) and (data & 0xFF) == COM:
            self.state = self.iv
            self.words_since_restart = 0
            return True
        if not hold:
            self.state = L.word_step(self.state)[0]
            self.words_since_restart += 1
        return False

    def clear(self):
        self.state = self.iv
        self.words_since_restart = 0


# ---------------------------------------------------------------------------------------------- stimulus
def make_words(rng, n, tagbase):
    """list of (data, ctrl, kind) with adversarial templates; data symbols carry a running tag"""
    words = []
    tag = tagbase

    def dbyte():
        nonlocal tag
        tag = (tag * 5 + 17) & 0xFF if rng.random() < 0.2 else (tag + 1) & 0xFF
        r = rng.random()
        if r < 0.70:
            return tag
        if r < 0.80:
            return 0x00
        if r < 0.88:
            return COM                      # data that looks like a comma
        if r < 0.94:
            return rng.choice(K_SYMBOLS)
        return rng.randrange(256)

    def kbyte(allow_com=True):
        while True:
            v = rng.choice(K_SYMBOLS) if rng.random() < 0.85 else rng.randrange(256)
            if allow_com or v != COM:
                return v

    def pack(syms):
        d = c = 0
        for i, (v, k) in enumerate(syms):
            d |= v << (8 * i)
            c |= k << i
        return d, c

    while len(words) < n:
        r = rng.random()
        if r < 0.10:                                   # COM + three data (TSEQ like) then data words
            syms = [(COM, 1)] + [(dbyte(), 0) for _ in range(3)]
            words.append(pack(syms) + ("com0_data",))
            for _ in range(rng.choice([1, 1, 2, 3, 8])):
                words.append(pack([(dbyte(), 0) for _ in range(4)]) + ("data",))
        elif r < 0.16:                                 # TS1/TS2 head
            words.append(pack([(COM, 1)] * 4) + ("com4",))
            for _ in range(rng.choice([1, 2, 3])):
                words.append(pack([(dbyte(), 0) for _ in range(4)]) + ("data",))
        elif r < 0.21:                                 # COM + mixed
            syms = [(COM, 1)] + [((kbyte(), 1) if rng.random() < 0.4 else (dbyte(), 0)) for _ in range(3)]
            words.append(pack(syms) + ("com0_mixed",))
        elif r < 0.31:                                 # COM somewhere else: no restart
            pos = rng.choice([1, 2, 3])
            syms = [(dbyte(), 0) if rng.random() < 0.7 else (kbyte(False), 1)]
            for i in range(1, 4):
                if i == pos or (i > pos and rng.random() < 0.3):
                    syms.append((COM, 1))
                else:
                    syms.append((dbyte(), 0))
            words.append(pack(syms) + ("com_late",))
            words.append(pack([(dbyte(), 0) for _ in range(4)]) + ("data",))
        elif r < 0.38:                                 # data 0xBC in symbol 0
            syms = [(COM, 0)] + [(dbyte(), 0) if rng.random() < 0.8 else (kbyte(), 1) for _ in range(3)]
            words.append(pack(syms) + ("bc_data0",))
            words.append(pack([(dbyte(), 0) for _ in range(4)]) + ("data",))
        elif r < 0.44:                                 # non-COM control symbol in symbol 0 (one bit from COM sometimes)
            k0 = rng.choice([0xBD, 0x3C, 0xFC, 0x9C, 0xB8, kbyte(False)])
            syms = [(k0, 1)] + [(dbyte(), 0) for _ in range(3)]
            words.append(pack(syms) + ("k0_data",))
        elif r < 0.50:
            words.append(pack([(kbyte(False), 1) for _ in range(4)]) + ("all_ctrl",))
        elif r < 0.58:
            words.append((0, 0, "zero"))
        elif r < 0.70:                                 # random mask
            mask = rng.randrange(1, 15)
            syms = [((kbyte(i != 0), 1) if (mask >> i) & 1 else (dbyte(), 0)) for i in range(4)]
            words.append(pack(syms) + ("mixed",))
        else:
            for _ in range(rng.choice([1, 2, 4, 16, 70])):
                words.append(pack([(dbyte(), 0) for _ in range(4)]) + ("data",))
    return words[:n]


READY_PROFILES = ["always", "p90", "p50", "p20", "bursty"]


def ready_gen(rng, profile):
    if profile == "always":
        while True:
            yield 1
    p = {"p90": 0.9, "p50": 0.5, "p20": 0.2}.get(profile)
    if p is not None:
        while True:
            yield 1 if rng.random() < p else 0
    while True:
        for _ in range(rng.randint(1, 12)):
            yield 1
        for _ in range(rng.randint(1, 6)):
            yield 0


def is_com0(data, ctrl):
    return bool(ctrl & 1) and (data & 0xFF) == COM


def word_bins(res, data, ctrl, kind):
    if is_com0(data, ctrl) and (ctrl & 0xE) != 0xE:
        res.bin("com_sym0_with_data_symbols")
    if ctrl == 0xF and data == 0xBCBCBCBC:
        res.bin("four_com_word")
    if not is_com0(data, ctrl) and any((ctrl >> i) & 1 and (data >> (8 * i)) & 0xFF == COM for i in (1, 2, 3)):
        res.bin("com_only_in_sym1_3")
    if not (ctrl & 1) and (data & 0xFF) == COM:
        res.bin("data_bc_in_sym0")
    if ctrl not in (0, 0xF):
        res.bin("mixed_word")
    if ctrl == 0xF:
        res.bin("all_ctrl_word")
    if ctrl == 0 and data == 0:
        res.bin("zero_data_word")


# ---------------------------------------------------------------------------------------------- lfsr harness
def run_lfsr(rng, tier, res):
    from luna.gateware.usb.usb3.physical.scrambling import ScramblerLFSR
    iv = rng.choice([None, 0xFFFF, 0x7DBD, 0x0001, 0x8000, rng.randrange(1, 1 << 16)])
    ncyc = rng.randint(400, 1200)
    if iv is None:
        # constructor default: documented as "all 1's, per the USB3 spec" (the reset value of appendix B)
        dut = ScramblerLFSR()
        iv = 0xFFFF
        res.bin("lfsr_default_iv")
    else:
        dut = ScramblerLFSR(initial_value=iv)
    b = Bench(dut, domain="ss", freq=125e6, max_cycles=ncyc + 10)
    b.watch(dut.clear, dut.advance, dut.value)
    res.desc = {"mode": "lfsr", "iv": iv, "cycles": ncyc}
    res.sig("lfsr", iv, ncyc)
    res.bin("iv_ffff" if iv == 0xFFFF else "iv_other")
    st = {"state": iv, "run": 0}
    p_adv = rng.choice([1.0, 0.95, 0.7, 0.4])
    p_clr = rng.choice([0.0, 0.004, 0.02, 0.1])

    def driver():
        for t in range(ncyc):
            adv = rng.random() < p_adv
            clr = rng.random() < p_clr
            b.set(dut.advance, adv)
            b.set(dut.clear, clr)
            res.sig(adv, clr)
            yield

    def monitor(b):
        clr, adv, val = b.get(dut.clear), b.get(dut.advance), b.get(dut.value)
        nstate, ks = L.word_step(st["state"])
        exp = ks[0] | ks[1] << 8 | ks[2] << 16 | ks[3] << 24
        res.event("lfsr_values_compared")
        if val != exp:
            res.violation("lfsr_value_mismatch", "cyc=%d iv=%#x value=%#010x expected=%#010x run=%d" % (b.cycle, iv, val, exp, st["run"]))
        if clr:
            if adv:
                res.bin("lfsr_clear_with_advance")
            st["state"] = iv
            st["run"] = 0
        elif adv:
            st["state"] = nstate
            st["run"] += 1
            if st["run"] == 100:
                res.bin("lfsr_run_ge_100")
        else:
            res.bin("lfsr_advance_gap")

    b.add_driver(driver())
    b.add_monitor(monitor)
    b.run()
    res.cycles = b.cycle
    res.nontrivial = bool(res.bins.get("lfsr_run_ge_100") or res.bins.get("lfsr_clear_with_advance"))


# ---------------------------------------------------------------------------------------------- scrambler harness
def build_loop(iv):
    from amaranth import Elaboratable, Module, Signal
    from luna.gateware.usb.usb3.physical.scrambling import Scrambler, Descrambler

    class Loop(Elaboratable):
        def __init__(self):
            self.scr = Scrambler(initial_value=iv)
            self.des = Descrambler(initial_value=iv)
            self.insert = Signal()
            self.pause = Signal()
            self.enable = Signal()

        def elaborate(self, platform):
            m = Module()
            m.submodules.scr = scr = self.scr
            m.submodules.des = des = self.des
            m.d.comb += [scr.enable.eq(self.enable), des.enable.eq(self.enable)]
            with m.If(self.insert):
                # a SKP word goes out instead of the offered word; the receive CTC removes it again
                m.d.comb += [scr.hold.eq(1), scr.source.ready.eq(1)]
            with m.Elif(self.pause):
                pass
            with m.Else():
                m.d.comb += des.sink.stream_eq(scr.source)
            return m

    return Loop()


def run_stream(rng, tier, res, mode):
    from luna.gateware.usb.usb3.physical.scrambling import Scrambler, Descrambler
    nwords = rng.randint(150, 500)
    ready_profile = rng.choice(READY_PROFILES)
    p_valid = rng.choice([1.0, 1.0, 0.9, 0.6, 0.3])
    p_hold = rng.choice([0.0, 0.02, 0.02, 0.08])
    p_clear = rng.choice([0.0, 0.01, 0.02])
    directed_stalls = rng.random() < 0.7
    enable_phases = rng.random() < 0.25

    if mode == "loop":
        iv = rng.choice([0xFFFF, 0xFFFF, 0x7DBD, rng.randrange(1, 1 << 16)])
        top = build_loop(iv)
        scr, des = top.scr, top.des
        sink, mid, source = scr.sink, scr.source, des.source
        cls = "loop"
    else:
        if rng.random() < 0.4:
            iv = 0xFFFF
            top = Descrambler()                   # documented default: the specification's reset value
            cls = "descrambler"
            res.bin("class_descrambler")
        else:
            iv = rng.choice([0xFFFF, 0xFFFF, 0x7DBD, 0x0001, rng.randrange(1, 1 << 16)])
            top = Scrambler(initial_value=iv)
            cls = "scrambler"
        scr = top
        sink, mid, source = scr.sink, scr.source, scr.source
    res.bin("iv_ffff" if iv == 0xFFFF else "iv_other")

    words = make_words(rng, nwords, rng.randrange(256))
    b = Bench(top, domain="ss", freq=125e6, max_cycles=nwords * 40 + 400)
    sigs = [sink.valid, sink.payload, sink.ctrl, sink.ready, mid.valid, mid.payload, mid.ctrl, mid.ready]
    if mode == "loop":
        sigs += [source.valid, source.payload, source.ctrl, source.ready, top.insert, top.pause, top.enable,
                 scr.hold, des.sink.valid]
        hold_sig, enable_sig, clear_sig = scr.hold, top.enable, None
    else:
        sigs += [scr.hold, scr.clear, scr.enable]
        hold_sig, enable_sig, clear_sig = scr.hold, scr.enable, scr.clear
    b.watch(*sigs)
    res.desc = {"mode": mode, "class": cls, "iv": iv, "words": nwords, "ready": ready_profile, "p_valid": p_valid,
                "p_hold": p_hold, "p_clear": p_clear, "enable_phases": enable_phases,
                "first_words": ["%08x/%x" % (d, c) for d, c, _ in words[:8]]}
    res.sig(mode, cls, iv, ready_profile, p_valid, p_hold, p_clear, enable_phases, [(d, c) for d, c, _ in words])

    ref = RefScrambler(iv)
    expected_mid = []      # words the scrambler must put out: dict
    expected_out = []      # loop: words that must leave the descrambler
    st = {"stall": 0, "after_com": False, "done": False, "known": 0}

    # ------------------------------------------------------------------ driver
    def driver():
        rdy = ready_gen(rng, ready_profile)
        idx = 0
        pending = None
        enable = 1
        b.set(enable_sig, 1)
        forced_stall = 0
        idle_tail = 0
        while True:
            if pending is None and idx < len(words) and rng.random() < p_valid:
                pending = words[idx]
                idx += 1
                # directed: stall exactly on COM words / on the word after a COM / on plain data words
                if directed_stalls:
                    kind = pending[2]
                    prevkind = words[idx - 2][2] if idx >= 2 else ""
                    if kind.startswith("com0") and rng.random() < 0.5:
                        forced_stall = rng.choice([1, 1, 2, 5])
                    elif prevkind.startswith("com") and rng.random() < 0.4:
                        forced_stall = rng.choice([1, 2, 3])
                    elif rng.random() < 0.05:
                        forced_stall = rng.choice([1, 3, 9])
            if pending is None and idx >= len(words):
                idle_tail += 1
                if idle_tail > 12:
                    break
            clear = 0
            if pending is not None:
                b.set(sink.valid, 1)
                b.set(sink.payload, pending[0])
                b.set(sink.ctrl, pending[1])
                if clear_sig is not None and rng.random() < p_clear * 0.7:
                    clear = 1                      # clear while a word is offered / taken
            else:
                b.set(sink.valid, 0)
                # garbage on an invalid payload, often a COM
                g = rng.random()
                b.set(sink.payload, 0xBCBCBCBC if g < 0.4 else rng.getrandbits(32))
                b.set(sink.ctrl, 0xF if g < 0.4 else rng.getrandbits(4))
                res.bin("valid_gap")
                if clear_sig is not None and rng.random() < p_clear:
                    clear = 1
                if enable_phases and rng.random() < 0.08:
                    # enable changes only together with a restart of the keystream
                    enable ^= 1
                    clear = 1
                    if clear_sig is None:
                        enable = 1
                        clear = 0
            if clear_sig is not None:
                b.set(clear_sig, clear)
            b.set(enable_sig, enable)
            ready = next(rdy)
            if forced_stall > 0:
                ready = 0
                forced_stall -= 1
            if idle_tail:
                ready = 1
            hold = 0
            com_led = pending is not None and is_com0(pending[0], pending[1])
            if not com_led and rng.random() < p_hold:
                hold = 1
            if mode == "loop":
                b.set(source.ready, ready)
                ins = hold
                pau = 0 if ins else int(rng.random() < (0.15 if directed_stalls else 0.03))
                if com_led and directed_stalls and rng.random() < 0.3:
                    pau = 1
                if idle_tail:
                    ins = pau = 0
                b.set(top.insert, ins)
                b.set(top.pause, pau)
            else:
                b.set(source.ready, ready)
                b.set(hold_sig, hold)
            yield
            if pending is not None and b.get(sink.ready):
                pending = None
        st["done"] = True

    # ------------------------------------------------------------------ monitor
    def monitor(b):
        sv, sd, sc, sr = b.get(sink.valid), b.get(sink.payload), b.get(sink.ctrl), b.get(sink.ready)
        mv, md, mc, mr = b.get(mid.valid), b.get(mid.payload), b.get(mid.ctrl), b.get(mid.ready)
        hold = b.get(hold_sig)
        enable = b.get(enable_sig)
        clear = b.get(clear_sig) if clear_sig is not None else 0
        if mode == "loop":
            insert, pause = b.get(top.insert), b.get(top.pause)
            if insert:
                res.bin("loop_insert")
            if pause and sv:
                res.bin("loop_pause")
            if sv and not insert and not pause and not b.get(source.ready):
                res.bin("loop_backpressure")
        else:
            insert = 0
        if not enable:
            res.bin("enable_low_phase")

        # ---- sink side: word taken
        if sv and sr:
            res.event("sink_transfers")
            kind_com = is_com0(sd, sc)
            exp = ref.scramble(sd, sc, enable)
            exp_if_restarted = RefScrambler(ref.iv).scramble(sd, sc, enable)
            entry = {"clear": clear, "in": sd, "ctrl": sc, "exp": exp, "enable": enable, "stall": st["stall"], "com": kind_com,
                     "exp_restarted": exp_if_restarted, "after_restart": st["after_com"], "hold": hold, "cyc": b.cycle,
                     "pos": ref.words_since_restart}
            expected_mid.append(entry)
            if mode == "loop" and not insert:
                expected_out.append(entry)
            word_bins(res, sd, sc, None)
            if hold:
                res.bin("hold_with_transfer")
            if st["stall"]:
                if kind_com:
                    res.bin("stall_on_com_word")
                elif st["after_com"]:
                    res.bin("stall_on_word_after_com")
                if sc != 0xF:
                    res.bin("stall_on_data_word")
            if st["after_com"] and sc != 0xF and enable:
                res.bin("com_sym0_then_data_word")
            restarted = ref.transferred(sd, sc, hold)
            if restarted:
                res.event("restarts_by_com")
            if ref.words_since_restart == 64:
                res.bin("run_ge_64_words_without_restart")
            st["after_com"] = restarted
            st["stall"] = 0
        elif sv:
            st["stall"] += 1
            if hold:
                res.bin("hold_while_stalled")
        if clear:
            res.bin("clear_strobe")
            if sv:
                res.bin("clear_with_valid_word")
            ref.clear()
            st["after_com"] = False

        # ---- scrambler output: word handed on
        if mv and mr:
            res.event("source_transfers")
            if not expected_mid:
                res.violation("word_without_input", "cyc=%d scrambler emitted %08x/%x with no word accepted" % (b.cycle, md, mc))
            else:
                e = expected_mid.pop(0)
                judge(e, md, mc, b.cycle, "scrambler")

        # ---- loop: descrambler output
        if mode == "loop":
            ov, od, oc, orr = b.get(source.valid), b.get(source.payload), b.get(source.ctrl), b.get(source.ready)
            if ov and orr:
                if not expected_out:
                    res.violation("loop_word_without_input", "cyc=%d descrambler emitted %08x/%x, nothing outstanding" % (b.cycle, od, oc))
                else:
                    e = expected_out.pop(0)
                    res.event("loop_words_compared")
                    if oc != e["ctrl"]:
                        res.violation("loop_ctrl_bits_altered", "cyc=%d in=%08x/%x out=%08x/%x" % (b.cycle, e["in"], e["ctrl"], od, oc))
                    elif od != e["in"]:
                        if e["com"] and e["stall"] and e["enable"] and od == e["exp"] ^ e["exp_restarted"] ^ e["in"]:
                            mech = KNOWN_STALLED_COM
                            st["known"] += 1
                            if st["known"] > 4:
                                return
                        else:
                            mech = "loop_roundtrip_mismatch"
                        res.violation(mech, "cyc=%d iv=%#x word in=%08x/%x came back as %08x (word %d after restart, stalled %d cycles)"
                                      % (b.cycle, iv, e["in"], e["ctrl"], od, e["pos"], e["stall"]))

    def judge(e, md, mc, cyc, who):
        res.event("words_compared")
        ctx = "cyc=%d iv=%#x in=%08x/%x out=%08x/%x expected=%08x pos=%d stalled=%d hold=%d" % (
            cyc, iv, e["in"], e["ctrl"], md, mc, e["exp"], e["pos"], e["stall"], e["hold"])
        if mc != e["ctrl"]:
            res.violation("ctrl_bits_altered", ctx)
            return
        nctrl = bin(e["ctrl"]).count("1")
        res.event("ctrl_symbols_compared", nctrl)
        for i in range(4):
            if (e["ctrl"] >> i) & 1 and (md >> (8 * i)) & 0xFF != (e["in"] >> (8 * i)) & 0xFF:
                res.violation("ctrl_symbol_altered", ctx + " symbol=%d" % i)
                return
        if not e["enable"] or e["clear"]:
            # enable low: pass-through is not part of the statement.  clear in the very cycle of the transfer: whether
            # that word already uses the restarted sequence is not decided; every later word is judged from the restart
            res.unjudged += 1
            return
        res.event("data_symbols_compared", 4 - nctrl)
        if md != e["exp"]:
            if e["com"] and e["stall"] and md == e["exp_restarted"]:
                mech = KNOWN_STALLED_COM
                st["known"] += 1
                if st["known"] > 4:           # keep room in the per-case violation list for other mechanisms
                    return
            elif e["after_restart"]:
                mech = "keystream_wrong_after_com"
            elif e["hold"]:
                mech = "keystream_wrong_on_held_word"
            else:
                mech = "data_symbol_wrong_keystream"
            res.violation(mech, ctx)

    b.add_driver(driver())
    b.add_monitor(monitor)
    b.run()
    res.cycles = b.cycle
    if b.hit_max_cycles or not st["done"]:
        res.violation("stream_stuck", "driver did not finish within %d cycles (%d words)" % (b.cycle, nwords))
    if expected_mid:
        res.violation("word_lost", "%d accepted words never left the scrambler, first in=%08x/%x at cyc %d"
                      % (len(expected_mid), expected_mid[0]["in"], expected_mid[0]["ctrl"], expected_mid[0]["cyc"]))
    if mode == "loop" and expected_out:
        res.violation("loop_word_lost", "%d words never left the descrambler, first in=%08x/%x"
                      % (len(expected_out), expected_out[0]["in"], expected_out[0]["ctrl"]))
    bins = res.bins
    res.nontrivial = bool(bins.get("com_sym0_then_data_word") and bins.get("mixed_word")
                          and (bins.get("stall_on_data_word") or bins.get("valid_gap")))


# ---------------------------------------------------------------------------------------------- physical layer loop-back
LAYER_K = [0x5C, 0x7C, 0x9C, 0xDC, 0xFD]          # SDP EDB SUB RSD END: never an alignment marker, never SKP


def run_layer(rng, tier, res):
    """Real USB3PhysicalLayer, PHY transmit pins looped to the receive pins; the testbench plays the link layer."""
    from amaranth import Elaboratable, Module
    from luna.gateware.interface.pipe import PIPEInterface
    from luna.gateware.usb.usb3.physical.layer import USB3PhysicalLayer

    class Top(Elaboratable):
        def __init__(self):
            self.phy = PIPEInterface(width=4)
            self.phy._MustUse__silence = True        # used as a plain bundle of pins, never elaborated
            self.layer = USB3PhysicalLayer(phy=self.phy, sync_frequency=125e6)

        def elaborate(self, platform):
            m = Module()
            m.submodules.layer = self.layer
            m.d.comb += [self.phy.rx_data.eq(self.phy.tx_data), self.phy.rx_datak.eq(self.phy.tx_datak)]
            return m

    top = Top()
    lay = top.layer
    nwords = rng.randint(700, 1500)
    p_idle = rng.choice([0.3, 0.5, 0.8])
    tag = [rng.randrange(256)]

    def dsym():
        tag[0] = (tag[0] + 1) & 0xFF
        return (tag[0] if rng.random() < 0.85 else rng.choice([0x00, 0xBC, 0x3C, rng.randrange(256)]), 0)

    def pack(syms):
        d = c = 0
        for i, (v, k) in enumerate(syms):
            d |= v << (8 * i)
            c |= k << i
        return d, c

    # script: (data, ctrl, can_send_skp)
    script = [pack([(COM, 1)] + [(rng.choice(LAYER_K), 1) for _ in range(3)]) + (0,)]
    while len(script) < nwords:
        r = rng.random()
        if r < p_idle:
            for _ in range(rng.choice([1, 2, 5, 20, 60])):
                script.append((0, 0, 1))                  # logical idle, SKP insertion allowed
        elif r < p_idle + 0.03:
            script.append(pack([(COM, 1)] + [dsym() for _ in range(3)]) + (0,))
        else:
            for _ in range(rng.choice([1, 3, 5, 8, 40, 260])):
                syms = [dsym() if rng.random() < 0.9 else (rng.choice(LAYER_K), 1) for _ in range(4)]
                script.append(pack(syms) + (0,))
    for _ in range(12):
        script.append((0, 0, 0))
    b = Bench(top, domain="ss", freq=125e6, clocks={"sync": 125e6}, max_cycles=len(script) * 3 + 200)
    b.watch(lay.sink.ready, lay.source.valid, lay.source.payload, lay.source.ctrl, lay.skip_removed)
    res.desc = {"mode": "layer", "words": len(script), "p_idle": p_idle, "first_words": ["%08x/%x" % (d, c) for d, c, _ in script[:8]]}
    res.sig("layer", script)
    sent, got = [], []
    st = {"done": False}

    def driver():
        b.set(lay.enable_scrambling, 1)
        b.set(lay.tx_electrical_idle, 0)
        # start-up: the transmit path's ready is registered and low in the first cycle; whatever is offered then
        # is not part of the judged stream
        b.set(lay.sink.valid, 1)
        b.set(lay.sink.payload, 0)
        b.set(lay.sink.ctrl, 0)
        for _ in range(rng.randint(4, 9)):
            yield
        for d, c, skp in script:
            b.set(lay.sink.valid, 1)
            b.set(lay.sink.payload, d)
            b.set(lay.sink.ctrl, c)
            b.set(lay.can_send_skp, skp)
            for _ in range(200):
                yield
                if b.get(lay.sink.ready):
                    break
            else:
                res.violation("layer_sink_never_ready", "word not taken within 200 cycles")
                return
            sent.append((d, c, skp))
        st["done"] = True

    def monitor(b):
        if b.get(lay.skip_removed):
            res.bin("layer_skp_removed")
        if b.get(lay.source.valid):
            got.append((b.get(lay.source.payload), b.get(lay.source.ctrl), b.cycle))

    b.add_driver(driver())
    b.add_monitor(monitor)
    b.run()
    res.cycles = b.cycle
    if not st["done"]:
        if not res.violations:
            res.violation("layer_sink_never_ready", "driver did not finish in %d cycles" % b.cycle)
        return
    # the received stream must be the sent stream from the first COM word on, with nothing altered and nothing
    # missing except logical-idle words that were offered while SKP insertion was allowed
    start = next((j for j, g in enumerate(got) if g[0] == sent[0][0] and g[1] == sent[0][1]), None)
    if start is None:
        res.violation("layer_sync_word_missing", "the leading COM word never came back (%d words received)" % len(got))
        return
    i = 0
    dropped = 0
    for d, c, cyc in got[start:]:
        while i < len(sent) and (sent[i][0], sent[i][1]) != (d, c) and sent[i] == (0, 0, 1):
            i += 1
            dropped += 1
        if i >= len(sent):
            res.violation("layer_word_without_input", "cyc=%d received %08x/%x after all sent words were matched" % (cyc, d, c))
            return
        if (sent[i][0], sent[i][1]) != (d, c):
            mech = "layer_roundtrip_mismatch_after_skp" if dropped else "layer_roundtrip_mismatch"
            res.violation(mech, "cyc=%d sent word #%d %08x/%x came back as %08x/%x (%d idle words replaced by SKP so far)"
                          % (cyc, i, sent[i][0], sent[i][1], d, c, dropped))
            return
        res.event("layer_words_compared")
        if dropped and c != 0xF:
            res.bin("layer_data_after_skp")
        i += 1
    if len(sent) - i > 10:
        res.violation("layer_words_lost", "%d sent words never came back" % (len(sent) - i))
    res.event("layer_idle_words_replaced", dropped)
    res.nontrivial = dropped > 0


def run_case(rng, tier, res):
    if not L.selftest():
        raise RuntimeError("reference LFSR self-test failed")
    mode = rng.choice(["lfsr", "lfsr", "scr", "scr", "scr", "scr", "scr", "scr", "loop", "loop", "loop", "layer"])
    res.bin("mode_" + mode)
    if mode == "lfsr":
        run_lfsr(rng, tier, res)
    elif mode == "layer":
        run_layer(rng, tier, res)
    else:
        run_stream(rng, tier, res, mode)
